"""E1 - control-flow graph engine over the extracted MIR.

Cleanup (unwind) blocks are excluded; edges into `unreachable` blocks are
dropped (rustc lowers an exhaustive `match` to a SwitchInt whose `otherwise`
goes to such a block).  Panics are E5's business, so a diverging call or a
failing assert simply has no successor here.
"""


class CFG:
    def __init__(self, fn):
        self.fn = fn
        blocks = fn.blocks
        n = len(blocks)
        self.n = n
        self.unreachable = set(
            i for i, b in enumerate(blocks)
            if b["term"]["k"] == "unreachable" and not any(s["k"] in ("assign", "setdiscr") for s in b["stmts"]))
        self.succ = [[] for _ in range(n)]
        self.pred = [[] for _ in range(n)]
        # edge labels for switch edges: (src, dst) -> list of labels ("v" value or "otherwise")
        self.edge_labels = {}
        for i, b in enumerate(blocks):
            if b["cleanup"]:
                continue
            for (d, lab) in self._raw_succ(b["term"]):
                if d is None or d in self.unreachable or blocks[d]["cleanup"]:
                    continue
                if d not in self.succ[i]:
                    self.succ[i].append(d)
                    self.pred[d].append(i)
                if lab is not None:
                    self.edge_labels.setdefault((i, d), []).append(lab)
        self.returns = [i for i, b in enumerate(blocks) if not b["cleanup"] and b["term"]["k"] == "return"]
        self._reach = None
        self._dom = None
        self._pdom = None
        self._back = None
        self.live = self._forward_reach(0, set())

    @staticmethod
    def _raw_succ(t):
        k = t["k"]
        if k == "goto":
            return [(t["t"], None)]
        if k == "switch":
            out = [(bb, v) for v, bb in t["targets"]]
            out.append((t["otherwise"], "otherwise"))
            return out
        if k in ("call", "assert", "drop"):
            return [(t["t"], None)]
        if k == "yield":
            return [(t["resume"], None)]
        return []

    def feasible_switch_values(self, bb):
        """For a switch block: (list of (value, target) feasible, otherwise target or None if infeasible)."""
        t = self.fn.blocks[bb]["term"]
        vals = [(v, d) for v, d in t["targets"] if d not in self.unreachable]
        o = t["otherwise"]
        if o in self.unreachable:
            o = None
        return vals, o

    def _forward_reach(self, start, avoid):
        seen = set()
        if start in avoid:
            return seen
        st = [start]
        seen.add(start)
        while st:
            x = st.pop()
            for y in self.succ[x]:
                if y not in seen and y not in avoid:
                    seen.add(y)
                    st.append(y)
        return seen

    def reach_from(self, start, avoid=()):
        """Blocks reachable from `start` (inclusive) without entering a block in `avoid`."""
        return self._forward_reach(start, set(avoid))

    def reach_strict(self, start, avoid=()):
        """Blocks reachable from `start` by at least one edge, without entering `avoid`."""
        avoid = set(avoid)
        seen = set()
        st = []
        for y in self.succ[start]:
            if y not in avoid and y not in seen:
                seen.add(y)
                st.append(y)
        while st:
            x = st.pop()
            for y in self.succ[x]:
                if y not in seen and y not in avoid:
                    seen.add(y)
                    st.append(y)
        return seen

    def can_reach(self, a, b, avoid=()):
        return b in self.reach_from(a, avoid)

    def returns_reachable_avoiding(self, avoid, start=0):
        """Return blocks reachable from start on a path that never enters `avoid`."""
        r = self.reach_from(start, avoid)
        return [x for x in self.returns if x in r]

    # ---------------------------------------------------------------- dominators
    def _rpo(self, entry, succ):
        seen = set([entry])
        order = []
        st = [(entry, iter(succ[entry]))]
        while st:
            x, it = st[-1]
            adv = False
            for y in it:
                if y not in seen:
                    seen.add(y)
                    st.append((y, iter(succ[y])))
                    adv = True
                    break
            if not adv:
                order.append(x)
                st.pop()
        order.reverse()
        return order

    def _idoms(self, entry, succ, pred):
        rpo = self._rpo(entry, succ)
        idx = {b: i for i, b in enumerate(rpo)}
        idom = {entry: entry}
        changed = True
        while changed:
            changed = False
            for b in rpo[1:]:
                new = None
                for p in pred[b]:
                    if p in idom and p in idx:
                        if new is None:
                            new = p
                        else:
                            a, c = p, new
                            while a != c:
                                while idx[a] > idx[c]:
                                    a = idom[a]
                                while idx[c] > idx[a]:
                                    c = idom[c]
                            new = a
                if new is not None and idom.get(b) != new:
                    idom[b] = new
                    changed = True
        return idom

    def dominators(self):
        if self._dom is None:
            self._dom = self._idoms(0, self.succ, self.pred)
        return self._dom

    def dominates(self, a, b):
        """a dominates b (every path entry->b passes a)."""
        idom = self.dominators()
        if b not in idom:
            return False
        x = b
        while True:
            if x == a:
                return True
            if idom[x] == x:
                return False
            x = idom[x]

    def postdominators(self):
        """Post-dominators w.r.t. normal returns (virtual exit = n)."""
        if self._pdom is None:
            n = self.n
            succ = [list(p) for p in self.pred] + [list(self.returns)]
            pred = [list(s) for s in self.succ] + [[]]
            for r in self.returns:
                pred[r] = pred[r] + [n]
            self._pdom = self._idoms(n, succ, pred)
        return self._pdom

    def postdominates(self, a, b):
        """a post-dominates b: every path b->return passes a."""
        ipd = self.postdominators()
        if b not in ipd:
            return False
        x = b
        while True:
            if x == a:
                return True
            if ipd[x] == x:
                return False
            x = ipd[x]

    # ---------------------------------------------------------------- loops
    def back_edges(self):
        if self._back is None:
            back = []
            for a in self.live:
                for b in self.succ[a]:
                    if self.dominates(b, a):
                        back.append((a, b))
            self._back = back
        return self._back

    def in_cycle(self, b):
        return b in self.reach_strict(b)

    def loop_body(self, head):
        """Natural loop of `head`: union over back edges (t, head)."""
        body = set([head])
        st = [t for (t, h) in self.back_edges() if h == head]
        while st:
            x = st.pop()
            if x not in body:
                body.add(x)
                st.extend(self.pred[x])
        return body

    def loop_heads(self):
        return sorted(set(h for (_t, h) in self.back_edges()))

    def innermost_loop_of(self, b):
        best = None
        for h in self.loop_heads():
            body = self.loop_body(h)
            if b in body and (best is None or len(body) < len(best[1])):
                best = (h, body)
        return best


_cache = {}


def cfg_of(fn):
    key = (fn.unit.name, fn.id, fn.unit.path)
    c = _cache.get(key)
    if c is None:
        c = CFG(fn)
        _cache[key] = c
    return c
