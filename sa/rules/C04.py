"""C04 - stream data is only ever routed onto eligible uplinks.

ELIG(link) = !is_timed_out(link, now) & is_schedulable(link) & !stall_gated(link).
D1/D3 every source of the routing index at the post-registration forward site carries ELIG, either inside the
      function that produced the index or as a guard at the use site;
D2    the two selectors only ever yield the index of a link whose admission predicate entails ELIG, and the
      hysteresis path only returns a link that was scored in this pass;
D4    the pre-registration forwarder runs only before the session is established, and `has_connected` never goes back;
D5    what a non-eligible link may carry: the data queue is fed by the forwarder and the gated probe only;
D6    `Registering` is entered only together with `connected := false` (same block), `Warming` only on REG3.
"""
from ..ctx import CONN, is_call, is_field, sname
from ..expr import show, walk
from ..linkpred import LINK, LinkSpace
from ..pathcond import calls_to, field_stores
from . import C03
from .route import FWD, HSP, PRE, SEL, producer_admission, routing_sources

from .. import roles

LEVEL = "other"
REG = "srtla_core::registration::SrtlaRegistrationManager"
PHASE = "srtla_core::connection::LinkPhase"

CONJ = {
    "not timed out": (lambda a: is_call(a, stable=CONN + "::is_timed_out"), False),
    "schedulable": (lambda a: is_call(a, stable=CONN + "::is_schedulable"), True),
    "not stall-gated": (lambda a: is_call(a, stable=CONN + "::is_stall_gated") or is_field(a, "stall_gated", CONN), False),
}


def _subject_is(a, subj):
    if a[0] == "call":
        return bool(a[2]) and a[2][0] == subj
    if a[0] == "field":
        return a[1] == subj
    return False


def _mentions(a, sub):
    return any(x == sub for x in walk(a))


def d1_sources(ctx):
    r = routing_sources(ctx, "D1")
    if r is None:
        return
    fn, pa, post, pre, sources, RC = r
    ctx.chk.floor("D1", "sources of the routing index", len(sources), 1)
    n_sel = 0
    for s in sources:
        what = "%s@bb%s" % (sname(s.producer) if s.producer else "?", s.point[0] if s.point != "entry" else "e")
        if s.kind == "selector":
            n_sel += 1
            ctx.chk.ob("D1", "routing source %s is the scheduler" % what, True, "value %s" % show(s.expr, fn.names)[:200],
                       key="D1:source:selector")
            continue
        if s.kind != "producer" or s.index_expr is None:
            ctx.chk.ob("D1", "routing source %s is understood" % what, False, "value %s" % show(s.expr, fn.names)[:300],
                       key="D1:source-unknown:%s" % (s.producer or "expr"))
            continue
        sp = LinkSpace()
        adm = producer_admission(ctx, sp, s.producer, "D3")
        for label, (match, positive) in CONJ.items():
            ok_prod = False
            if adm is not None:
                for (a, f) in sp.find(lambda a: match(a) and _subject_is(a, LINK)):
                    if sp.entails(adm, f if positive else sp.bdd.NOT(f)):
                        ok_prod = True
            ok_site = False
            for (a, f) in pa.find(lambda a: match(a) and _mentions(a, s.index_expr)):
                if pa.entails(s.pc, f if positive else pa.bdd.NOT(f)):
                    ok_site = True
            ok = ok_prod or ok_site
            detail = "producer yields under %s ; use-site guard %s" % (
                sp.show(adm, 4) if adm is not None else "?", pa.show(pa.bdd.simplify(s.pc, pa.pc_block(post[0])), 6))
            ctx.chk.ob("D3", "index from %s is %s" % (sname(s.producer), label), ok, detail,
                       key="D3:source-lacks:%s:%s" % (s.producer, label.replace(" ", "-")),
                       loc=_loc(fn, s.point))
    ctx.chk.ob("D1", "the scheduler is a source of the routing index", n_sel >= 1, "%d selector source(s)" % n_sel,
               key="D1:selector-is-a-source")


def _loc(fn, point):
    if point == "entry":
        return fn.loc
    b = fn.blocks[point[0]]
    return b["stmts"][point[1]].get("loc") if point[1] < len(b["stmts"]) else b["term"].get("loc")


def d2_selectors(ctx):
    for sel, nm in ((C03.CLASSIC, "classic"), (C03.ENH, "enhanced")):
        sp = LinkSpace()
        r = C03.admitted(ctx, sp, sel, "D2")
        if r is None:
            continue
        adm, pa, link, now, sbb = r
        b = sp.bdd
        elig = b.AND(b.AND(b.NOT(sp.timed_out()), sp.schedulable()), b.NOT(sp.field("stall_gated")))
        ok = sp.entails(adm, elig)
        ctx.chk.ob("D2", "%s: scored => eligible" % nm, ok,
                   "ADMIT = %s" % sp.show(adm, 4) + ("" if ok else " ; scored with %s" % sp.counterexample(adm, elig)),
                   key="D2:admit-implies-elig:%s" % nm)
        fn = pa.fn
        # every `best_idx = Some(i)` is at an admitted site and i is the index of the scored link
        b0 = roles.result_local(ctx.w, fn, hint="best_idx")
        bl = [b0] if b0 is not None else []
        if len(bl) != 1:
            ctx.chk.missing("D2", "%s: local best_idx" % nm, "")
            continue
        adm_pc = pa.pc_block(sbb)
        n = 0
        for d in pa.fa.defs.get(bl[0], []):
            if d[2] != "assign":
                continue
            v = pa.fa.val_rvalue(d[3], (d[0], d[1]))
            if v[0] == "agg" and v[2].endswith("::None"):
                continue
            n += 1
            pc = pa.pc_at(d[0], d[1])
            ok = pa.entails(pc, adm_pc)
            idx_ok = v[0] == "agg" and v[2].endswith("::Some") and v[3][0] == ("field", link[1], link[2], "0")
            ctx.chk.ob("D2", "%s: best_idx := Some(i) only for a scored link, i its index" % nm, ok and idx_ok,
                       "value %s ; link %s" % (show(v, fn.names)[:160], show(link, fn.names)[:160]),
                       key="D2:best-idx-store:%s" % nm)
        ctx.chk.floor("D2", "%s: best_idx := Some(..) stores" % nm, n, 1)
        # the function returns best_idx (or, in enhanced, the hysteresis candidate checked by D7)
        rets = []
        for bi, blk in enumerate(fn.blocks):
            if blk["cleanup"]:
                continue
            for si, s in enumerate(blk["stmts"]):
                if s["k"] == "assign" and s["p"]["l"] == 0 and not s["p"]["proj"]:
                    rets.append(pa.fa.val_rvalue(s["rv"], (bi, si)))
        ok = all((v[0] == "var" and v[1] == bl[0]) or (nm == "enhanced" and v[0] == "agg" and v[2].endswith("::Some")) for v in rets) and rets
        ctx.chk.ob("D2", "%s returns best_idx%s" % (nm, " or the hysteresis candidate" if nm == "enhanced" else ""), bool(ok),
                   "return values: %s" % [show(v, fn.names)[:80] for v in rets], key="D2:returns:%s" % nm)
    # hysteresis (shared with C03.D7)
    C03.d7_hysteresis(ctx)
    # enhanced: the hysteresis candidate is last_idx itself and current_score is recorded for index == last_idx only
    enh = ctx.fn(C03.ENH, "D2")
    if enh:
        pa = ctx.pa(enh)
        c0 = roles.option_latch(ctx.w, enh, "f64", hint="current_score")
        cl = [c0] if c0 is not None else []
        for d in pa.fa.defs.get(cl[0], []) if cl else []:
            if d[2] != "assign":
                continue
            v = pa.fa.val_rvalue(d[3], (d[0], d[1]))
            if v[0] == "agg" and v[2].endswith("::None"):
                continue
            pc = pa.pc_at(d[0], d[1])
            eqs = [a for a in pa.atoms_of(pc) if a[0] == "call" and "PartialEq" in a[1] and _mentions(a, ("param", 2))]
            ok = False
            for a in eqs:
                f = pa.atom(a)
                if a[1].endswith("::eq") and pa.entails(pc, f):
                    ok = True
            ctx.chk.ob("D2", "current_score is recorded for the previously selected index only", ok,
                       "equality atoms on last_idx: %s" % [show(a, enh.names)[:120] for a in eqs], key="D2:current-score-for-last-idx")


def d4_preregistration_switch(ctx):
    r = routing_sources(ctx, "D4")
    if r is None:
        return
    fn, pa, post, pre, sources, RC = r
    # pre-registration forwarder's index comes from select_pre_registration_connection and only under !registration_complete
    bb, t = pre
    v = pa.fa.val_operand(t["args"][0], (bb, len(fn.blocks[bb]["stmts"])))
    okp = any(is_call(x, stable=PRE) for x in walk(v))
    ctx.chk.ob("D4", "pre-registration forward uses the pre-registration selector, under !registration_complete",
               okp and pa.entails(pa.pc_block(bb), pa.bdd.NOT(RC)), "index %s" % show(v, fn.names)[:200], key="D4:pre-reg-site")
    # what the caller passes as registration_complete
    run = None
    for f in ctx.w.fns.values():
        if f.stable.startswith("srtla_send::sender::run_sender_with_config") and f.kind == "coroutine":
            if calls_to(f, stable="srtla_send::sender::packet_handler::handle_srt_packet"):
                run = f
    if run is None:
        ctx.chk.missing("D4", "caller of handle_srt_packet in run_sender_with_config", "")
    else:
        fa = ctx.fa(run)
        sites = calls_to(run, stable="srtla_send::sender::packet_handler::handle_srt_packet")
        for (cb, ct) in sites:
            a = fa.val_operand(ct["args"][7], (cb, len(run.blocks[cb]["stmts"])))
            ok = a[0] == "field" and a[3] == "has_connected" and a[2] == REG
            ctx.chk.ob("D4", "registration_complete is reg.has_connected", ok, "argument %s" % show(a, run.names)[:200],
                       key="D4:registration-complete-value", loc=ct.get("loc"))
        ctx.chk.floor("D4", "handle_srt_packet call sites", len(sites), 1)
    # has_connected never goes back
    eff = ctx.eff
    ws = eff.writers_of(REG, "has_connected", ("store", "callstore", "mutborrow"))
    ctx.chk.floor("D4", "stores to has_connected", len(ws), 1)
    for a in ws:
        st = a.fn.blocks[a.bb]["stmts"][a.si] if a.si != "term" else None
        v = ctx.fa(a.fn).val_rvalue(st["rv"], (a.bb, a.si)) if st is not None and st["k"] == "assign" else None
        ctx.chk.ob("D4", "has_connected is only ever set to true (%s)" % sname(a.fn.stable), v == ("const", True, "bool"),
                   "stored %r" % (v,), key="D4:has-connected-monotone:%s" % a.fn.stable, loc=a.loc)


def d5_data_queue_feeders(ctx):
    ctx.WHO_CALLS("D5", CONN + "::queue_data_packet",
                  {FWD + "::{closure#0}", "srtla_send::sender::packet_handler::send_stall_probes::{closure#0}"}, floor=2)
    ctx.WHO_CALLS("D5", FWD, {HSP}, floor=2)
    ctx.WHO_CALLS("D5", "srtla_send::sender::packet_handler::send_stall_probes", {HSP}, floor=1)
    ctx.WHO_CALLS("D5", "srtla_core::connection::batch_send::BatchSender::queue_packet", {CONN + "::queue_data_packet"}, floor=1)


def d6_phase_writers(ctx):
    eff = ctx.eff
    n_reg = n_warm = 0
    for a in eff.writers_of(CONN, "phase", ("store",), include_inner=False):
        st = a.fn.blocks[a.bb]["stmts"][a.si]
        v = ctx.fa(a.fn).val_rvalue(st["rv"], (a.bb, a.si))
        if v[0] == "agg" and v[2] == PHASE + "::Registering":
            n_reg += 1
            # same block also stores connected := false
            cfg = ctx.cfg(a.fn)
            cs = field_stores(a.fn, CONN, "connected")
            same = [1 for (cb, ci, s) in cs if s["rv"]["k"] == "use" and s["rv"]["o"].get("val") is False and
                    (cfg.dominates(cb, a.bb) or cfg.postdominates(cb, a.bb))]
            only_false = all(s["rv"]["k"] == "use" and s["rv"]["o"].get("val") is False for (_b, _i, s) in cs)
            ctx.chk.ob("D6", "phase := Registering comes with connected := false on the same path (%s)" % sname(a.fn.stable),
                       bool(same) and only_false, "%d connected stores in the body" % len(cs),
                       key="D6:registering-with-disconnect:%s" % a.fn.stable, loc=a.loc)
        elif v[0] == "agg" and v[2] == PHASE + "::Warming":
            n_warm += 1
            ctx.chk.ob("D6", "phase := Warming only in clear_pre_registration_state", a.fn.stable == CONN + "::clear_pre_registration_state",
                       a.fn.stable, key="D6:warming-writer:%s" % a.fn.stable, loc=a.loc)
    ctx.chk.floor("D6", "phase := Registering stores", n_reg, 1)
    ctx.chk.floor("D6", "phase := Warming stores", n_warm, 1)
    ctx.WHO_CALLS("D6", CONN + "::clear_pre_registration_state",
                  {"srtla_send::sender::uplink_recv::process_uplink_packet::{closure#0}"}, floor=1)


def d7_timed_out_means_something(ctx):
    """"not timed out" is tested with is_timed_out, which for a connected link is `last_received is Some & now - last_received >=
    timeout`: the eligibility test only excludes dead links if every writer keeps connected => last_received.is_some() (a link that
    becomes connected without a receive stamp can never time out and keeps being routed on).  C10.D3's invariant, shared."""
    from . import C10
    C10.connected_implies_received(ctx, "D7")


RULES = [d1_sources, d2_selectors, d4_preregistration_switch, d5_data_queue_feeders, d6_phase_writers, d7_timed_out_means_something]


def run(ctx):
    ctx.chk.not_decided = [
        "staleness of the cached quality multiplier for skipped links (it only ranks among links that D1 shows eligible)",
        "fault histories as such: eligibility is decided as a predicate that holds at every routing decision",
    ]
    ctx.run_rules(RULES)
