"""C16 - per-link CC soft cap and loss latch stay bounded and honest.

D1 every store to target_bps lies in [100 kbit/s, 200 Mbit/s] (writer set closed);
D2 the floor is held until an RTT sample exists: everything but the bootstrap store is under `rtt_ewma finite & != 0`,
   and rtt_ewma is 0 exactly until record_rtt stored a positive sample;
D3 direction per arm of the state machine, symbolically against `prev` and the outlier-clamped observation:
   Bootstrap/Holding = prev; Climbing in [prev, prev + 6%] and <= max(prev, 2*obs); BackingOff in [min(obs, prev), prev] and
   >= 85% prev; Drain = 75% prev only on entry, else prev;
D4 loss latch: set only after ewma > 0.55 sustained 4 s, cleared only below 0.25;
D5 garbage collection of vanished links; the shell copies target / latch from the same snapshot;
D6 seeding happens once: the seed store's guard must be falsified by every post-seed store (sentinel exclusivity).
"""
from ..absint import AbsInt, Entry, Num
from ..ctx import is_call, is_field, sname
from ..expr import show, strip_old, walk
from ..pathcond import calls_to, field_stores

LEVEL = "other"
LCS = "srtla_core::selection::link_cc::LinkCongestionState"
TICK = LCS + "::tick"
MIN, MAX, INIT = 100_000, 200_000_000, 1_000_000
K = "srtla_core::selection::link_cc::"


def tick_roles(ctx, fn):
    """Locals of tick() by what they do: next (cast into the final clamp), next_state (stored into self.state), prev_state (copy of
    self.state), prev (self.target_bps as f64), obs (the outlier-clamped observation: `min(..) as u64` of the observed parameter)."""
    key = ("C16roles", ctx.w.uid, fn.id)
    if key in tick_roles.cache:
        return tick_roles.cache[key]
    fa = ctx.fa(fn)
    r = {"next": None, "next_state": None, "prev_state": None, "prev": None, "obs": None}
    for (bb, si, s) in field_stores(fn, LCS, "target_bps"):
        v = fa.val_rvalue(s["rv"], (bb, si))
        if is_call(v, name_contains="::clamp") and v[2][0][0] == "cast" and v[2][0][2][0] == "var":
            r["next"] = v[2][0][2][1]
    for (bb, si, s) in field_stores(fn, LCS, "state"):
        v = fa.val_rvalue(s["rv"], (bb, si))
        if v[0] == "var":
            r["next_state"] = v[1]
    cands = {"prev_state": [], "prev": [], "obs": []}
    for l, loc in enumerate(fn.locals):
        if not fn.names.get(l):
            continue
        ds = [d for d in fa.defs.get(l, []) if d[2] == "assign"]
        if len(ds) != 1:
            continue
        v = strip_old(fa.val_rvalue(ds[0][3], (ds[0][0], ds[0][1])))
        if v == ("field", ("param", 1), LCS, "state"):
            cands["prev_state"].append(l)
        if v[0] == "cast" and loc["ty"] == "f64" and strip_old(v[2]) == ("field", ("param", 1), LCS, "target_bps"):
            cands["prev"].append(l)
        if v[0] == "cast" and loc["ty"] == "u64" and is_call(strip_old(v[2]), name_contains="::min") and any(x == ("param", 2) for x in walk(v)):
            cands["obs"].append(l)
    hints = {"prev_state": "prev_state", "prev": "prev", "obs": "sane_observed"}
    for k, c in cands.items():
        if len(c) == 1:
            r[k] = c[0]
        else:
            named = [l for l in c if fn.names.get(l) == hints[k]]
            r[k] = named[0] if len(named) == 1 else None
    tick_roles.cache[key] = r
    return r


tick_roles.cache = {}


def _run_tick(ctx, fn):
    ai = AbsInt(ctx.w)
    r = tick_roles(ctx, fn)
    ai.name_syms = {}
    if r["prev"] is not None:
        ai.name_syms[(fn.stable, r["prev"])] = "prev"
    if r["obs"] is not None:
        ai.name_syms[(fn.stable, r["obs"])] = "obs"
    e = Entry().sym("p", MIN, MAX).sym("o", 0, 2**64 - 1)
    e.pointee(1, Num("u64", MIN, MAX, False, ("s", "p")), (("f", "target_bps"),))
    e.param(2, Num("u64", 0, 2**64 - 1, False, ("s", "o")))
    ai.run(fn, e)
    return ai, (ai.top_frame, 1, ("deref", ("f", "target_bps")))


def d1_range(ctx):
    ctx.WHO_WRITES("D1", LCS, "target_bps", {TICK}, floor=1, allow_agg_in={"<" + LCS + " as core::default::Default>::default"})
    fn = ctx.fn(TICK, "D1")
    if not fn:
        return
    ai, cell = _run_tick(ctx, fn)
    st = [s for s in ai.stores if s.cell == cell]
    ctx.chk.floor("D1", "target_bps stores in tick", len(set((s.bb, s.si) for s in st)), 3)
    for s in st:
        v = s.value
        ok = isinstance(v, Num) and v.lo >= MIN and v.hi <= MAX
        ctx.chk.ob("D1", "stored target within [100k, 200M]", ok, "stored %r" % (v,), key="D1:target-range", loc=s.loc)
    d = ctx.fn("<" + LCS + " as core::default::Default>::default", "D1")
    if d:
        ai2 = AbsInt(ctx.w)
        ret, _ = ai2.run(d, Entry())
        from ..absint import Tup
        v = ret.items[ret.tag.index("target_bps")] if isinstance(ret, Tup) and ret.tag and "target_bps" in ret.tag else None
        ctx.chk.ob("D1", "a new controller starts at the floor", isinstance(v, Num) and v.lo == v.hi == MIN, "initial %r" % (v,), key="D1:initial-floor")
    for n, v in (("MIN_TARGET_BPS", MIN), ("MAX_TARGET_BPS", MAX), ("INITIAL_TARGET_BPS", INIT)):
        ctx.CONST("D1", K + n, v)


def d2_floor_before_rtt(ctx):
    fn = ctx.fn(TICK, "D2")
    if not fn:
        return
    pa = ctx.pa(fn)
    b = pa.bdd
    fin = pa.find(lambda a: is_call(a, name_contains="::is_finite") and is_field(a[2][0], "rtt_ewma_ms", LCS))
    zero = pa.find(lambda a: a[0] == "bin" and a[1] == "Eq" and any(is_field(x, "rtt_ewma_ms", LCS) for x in (a[2], a[3])) and
                   any(x == ("const", 0.0, "f64") for x in (a[2], a[3])))
    if len(fin) != 1 or len(zero) != 1:
        ctx.chk.missing("D2", "tick: the no-RTT test (is_finite / == 0.0 on rtt_ewma_ms)", "%d / %d atoms" % (len(fin), len(zero)))
        return
    HAVE = b.AND(fin[0][1], b.NOT(zero[0][1]))
    n = 0
    for (bb, si, s) in field_stores(fn, LCS, "target_bps"):
        v = pa.fa.val_rvalue(s["rv"], (bb, si))
        pc = pa.pc_at(bb, si)
        is_floor = v[0] in ("const", "constdef") and (v[1] == MIN or str(v[1]).endswith("MIN_TARGET_BPS"))
        if is_floor:
            ok = pa.entails(pc, b.NOT(HAVE))
            ctx.chk.ob("D2", "the floor is forced only while no RTT sample exists", ok, "PC = %s" % pa.show(pc), key="D2:floor-store-guard", loc=s.get("loc"))
            # and the function returns right after (no other arm runs without RTT)
            cfg = ctx.cfg(fn)
            others = [b2 for (b2, i2, s2) in field_stores(fn, LCS, "target_bps") if (b2, i2) != (bb, si)]
            ctx.chk.ob("D2", "the no-RTT branch returns without running the controller", not any(cfg.can_reach(bb, o) for o in others), "", key="D2:bootstrap-returns")
        else:
            n += 1
            ok = pa.entails(pc, HAVE)
            ctx.chk.ob("D2", "the controller moves the target only with a finite non-zero RTT average", ok, "PC = %s" % pa.show(pc, 3), key="D2:controller-needs-rtt", loc=s.get("loc"))
    ctx.chk.floor("D2", "non-floor target stores", n, 2)
    # rtt_ewma_ms == 0 means never sampled
    ctx.WHO_WRITES("D2", LCS, "rtt_ewma_ms", {LCS + "::record_rtt"}, floor=1, allow_agg_in={"<" + LCS + " as core::default::Default>::default"})
    rr = ctx.fn(LCS + "::record_rtt", "D2")
    if rr:
        ai = AbsInt(ctx.w)
        e = Entry()
        e.pointee(1, Num("f64", 0.0, float("inf"), False), (("f", "rtt_ewma_ms"),))
        ai.run(rr, e)
        cell = (ai.top_frame, 1, ("deref", ("f", "rtt_ewma_ms")))
        st = [s for s in ai.stores if s.cell == cell]
        ctx.chk.floor("D2", "rtt_ewma_ms stores in record_rtt", len(st), 2)
        for s in st:
            v = s.value
            ok = isinstance(v, Num) and v.lo >= 0.0 and not v.nan
            ctx.chk.ob("D2", "record_rtt stores a non-negative, non-NaN average from a finite positive sample", ok, "stored %r" % (v,), key="D2:rtt-ewma-nonneg", loc=s.loc)


def d3_direction(ctx):
    fn = ctx.fn(TICK, "D3")
    if not fn:
        return
    ai, cell = _run_tick(ctx, fn)
    pa = ctx.pa(fn)
    env = ai.symenv
    P = ("s", "prev")
    O = ("s", "obs")
    R = tick_roles(ctx, fn)
    defs = [(bb, si, val, loc) for (f, l, name, val, bb, si, loc) in ai.local_defs if f is fn and R["next"] is not None and l == R["next"]]
    ctx.chk.floor("D3", "assignments to `next` (one per arm / sub-arm)", len(set((d[0], d[1]) for d in defs)), 7)
    ns = [R["next_state"]] if R["next_state"] is not None else []
    ps = [R["prev_state"]] if R["prev_state"] is not None else []
    if not ns:
        ctx.chk.missing("D3", "tick: the state value that is stored into self.state", "")
        return
    seen = set()
    for (bb, si, val, loc) in defs:
        pc = pa.pc_at(bb, si)
        arm = None
        for nm in ("Bootstrap", "Climbing", "Holding", "BackingOff", "Drain"):
            for a in pa.atoms_of(pc):
                pass
        # which arm: the PC entails `next_state is X`
        for nm in ("Bootstrap", "Climbing", "Holding", "BackingOff", "Drain"):
            cands = [pa.is_atom(("is", a[1], nm)) for a in pa.bdd.vars if a[0] == "is" and a[1][0] == "var" and a[1][1] == ns[0]]
            if cands and pa.entails(pc, cands[0]):
                arm = nm
        if arm is None:
            ctx.chk.ob("D3", "assignment to `next` belongs to one arm of the state match", False, "PC = %s" % pa.show(pc, 3), key="D3:arm-unknown", loc=loc)
            continue
        seen.add(arm)
        if not isinstance(val, Num) or val.sym is None:
            ctx.chk.ob("D3", "%s: next is expressible over prev / obs" % arm, False, "value %r" % (val,), key="D3:%s:inexpressible" % arm, loc=loc)
            continue
        v = val.sym
        if arm in ("Bootstrap", "Holding"):
            ctx.chk.ob("D3", "%s holds the target" % arm, v == P, "next = %r" % (val,), key="D3:%s:holds" % arm, loc=loc)
        elif arm == "Climbing":
            ok1 = env.le(P, v)
            ok2 = env.le(v, ("+", P, ("/f", ("*c", P, 60), 1000)))
            ok3 = env.le(v, ("max", P, ("*c", O, 2)))
            ctx.chk.ob("D3", "Climbing never lowers the target", ok1, "next = %r" % (val,), key="D3:Climbing:not-below-prev", loc=loc)
            ctx.chk.ob("D3", "Climbing grows by at most 6% per tick", ok2, "next = %r" % (val,), key="D3:Climbing:at-most-6-percent", loc=loc)
            ctx.chk.ob("D3", "Climbing never goes beyond twice the measured rate (or stays)", ok3, "next = %r" % (val,), key="D3:Climbing:at-most-2x-observed", loc=loc)
        elif arm == "BackingOff":
            ok1 = env.le(v, P)
            ok2 = env.le(("min", O, P), v)
            ok3 = env.le(("/f", ("*c", P, 850), 1000), v)
            ctx.chk.ob("D3", "a back-off never raises the target", ok1, "next = %r" % (val,), key="D3:BackingOff:not-above-prev", loc=loc)
            ctx.chk.ob("D3", "a back-off never goes below the measured rate", ok2, "next = %r" % (val,), key="D3:BackingOff:not-below-delivered", loc=loc)
            ctx.chk.ob("D3", "a back-off cuts to 85% at most", ok3, "next = %r" % (val,), key="D3:BackingOff:at-most-15-percent", loc=loc)
        elif arm == "Drain":
            # one of: 75% on entry (prev_state != Drain), prev while staying drained
            cut = ("/f", ("*c", P, 750), 1000)
            is_cut = env.le(v, cut) and env.le(cut, v)
            is_hold = v == P
            entry_atoms = [pa.is_atom(("is", a[1], "Drain")) for a in pa.bdd.vars if a[0] == "is" and ps and a[1][0] == "var" and a[1][1] == ps[0]]
            eq_atoms = [fm for (a, fm) in pa.find(lambda a: is_call(a, name_contains="PartialEq") and ps and any(x[0] == "var" and x[1] == ps[0] for x in walk(a)))]
            if is_cut:
                # guarded by prev_state != Drain
                g = None
                for (a, fm) in pa.find(lambda a: is_call(a, name_contains="PartialEq") and any(is_field(x, "state", LCS) for x in walk(a)) and
                                       any(x[0] == "agg" and x[2].endswith("CcState::Drain") for x in walk(a))):
                    g = fm if a[1].endswith("::ne") else pa.bdd.NOT(fm)
                    # the compared state is the one read before this tick overwrote it
                    if not any(x[0] == "old" and is_field(x[1], "state", LCS) for x in walk(a)):
                        g = None
                ok = g is not None and pa.entails(pc, g)
                ctx.chk.ob("D3", "Drain cuts to 75% only on entry (prev_state != Drain)", ok, "PC = %s" % pa.show(pc, 3), key="D3:Drain:cut-once", loc=loc)
            else:
                ctx.chk.ob("D3", "Drain otherwise holds the target", is_hold, "next = %r" % (val,), key="D3:Drain:holds", loc=loc)
    ctx.chk.ob("D3", "all five arms were analysed", seen == {"Bootstrap", "Climbing", "Holding", "BackingOff", "Drain"}, "%s" % sorted(seen), key="D3:all-arms")
    # the final store is clamp(next as u64, MIN, MAX): it can only move next towards [MIN, MAX], which contains prev
    st = [s for s in ai.stores if s.cell == cell]
    fin = [(bb, si, s) for (bb, si, s) in field_stores(fn, LCS, "target_bps")]
    okf = False
    for (bb, si, s) in fin:
        v = pa.fa.val_rvalue(s["rv"], (bb, si))
        if is_call(v, name_contains="::clamp") and v[2][0][0] == "cast" and v[2][0][2][0] == "var" and v[2][0][2][1] == R["next"]:
            okf = v[2][1][0] in ("const", "constdef") and v[2][2][0] in ("const", "constdef")
    ctx.chk.ob("D3", "the target becomes clamp(next as u64, MIN, MAX)", okf, "", key="D3:final-clamp")
    # obs is the outlier-clamped observation
    so = [(val, loc) for (f, l, name, val, bb, si, loc) in ai.local_defs if f is fn and R["obs"] is not None and l == R["obs"]]
    ctx.chk.ob("D3", "the observation is clamped to 4x max(target, 1M) before use", bool(so) and all(isinstance(v, Num) and v.hi <= 4 * MAX for v, _ in so),
               "%s" % [repr(v) for v, _ in so], key="D3:outlier-clamp")
    for n, v in (("BACKOFF_PERMILLE", 850), ("DRAIN_PERMILLE", 750), ("AI_STEP_PERMILLE", 20), ("HAI_STEP_PERMILLE", 60), ("FAST_RECOVERY_STEP_PERMILLE", 40)):
        ctx.CONST("D3", K + n, v)


def d4_loss_latch(ctx):
    ctx.WHO_WRITES("D4", LCS, "loss_degraded", {LCS + "::update_loss_ewma"}, floor=1, allow_agg_in={"<" + LCS + " as core::default::Default>::default"})
    fn = ctx.fn(LCS + "::update_loss_ewma", "D4")
    if not fn:
        return
    pa = ctx.pa(fn)
    b = pa.bdd
    hi = pa.lit(("bin", "Lt", ("const", 0.55, "f64"), ("field", ("param", 1), LCS, "loss_ewma"), "f64"))
    lo = pa.lit(("bin", "Lt", ("field", ("param", 1), LCS, "loss_ewma"), ("const", 0.25, "f64"), "f64"))
    since0 = pa.lit(("bin", "Eq", ("const", 0, "u64"), ("field", ("param", 1), LCS, "loss_high_since_ms"), "u64"))
    sustain = pa.find(lambda a: a[0] == "bin" and a[1] == "Lt" and is_call(a[2], name_contains="saturating_sub") and
                      is_field(a[2][2][1], "loss_high_since_ms", LCS) and a[3] == ("const", 4000, "u64"))
    nt = nf = 0
    for (bb, si, s) in field_stores(fn, LCS, "loss_degraded"):
        v = pa.fa.val_rvalue(s["rv"], (bb, si))
        pc = pa.pc_at(bb, si)
        if v == ("const", True, "bool"):
            nt += 1
            ok = pa.entails(pc, hi) and pa.entails(pc, b.NOT(since0)) and bool(sustain) and pa.entails(pc, b.NOT(sustain[0][1]))
            ctx.chk.ob("D4", "latch set only when ewma > 0.55 has lasted >= 4000 ms", ok, "PC = %s" % pa.show(pc), key="D4:latch-set-guard", loc=s.get("loc"))
        elif v == ("const", False, "bool"):
            nf += 1
            ok = pa.entails(pc, b.NOT(hi)) and pa.entails(pc, lo)
            ctx.chk.ob("D4", "latch cleared only when ewma < 0.25", ok, "PC = %s" % pa.show(pc), key="D4:latch-clear-guard", loc=s.get("loc"))
        else:
            ctx.chk.ob("D4", "latch stores are constants", False, show(v), key="D4:latch-store-shape", loc=s.get("loc"))
    ctx.chk.floor("D4", "latch := true stores", nt, 1)
    ctx.chk.floor("D4", "latch := false stores", nf, 1)
    # the sustain clock restarts whenever the average is not above the enter threshold
    z = [(bb, si, s) for (bb, si, s) in field_stores(fn, LCS, "loss_high_since_ms") if pa.fa.val_rvalue(s["rv"], (bb, si)) == ("const", 0, "u64")]
    ok = bool(z) and all(pa.equivalent(pa.bdd.exists(pa.pc_at(bb, si), frozenset(i for i in pa.bdd.support(pa.pc_at(bb, si)) if "loss_ewma_last_ms" in repr(pa.bdd.vars[i]))), b.NOT(hi)) for (bb, si, s) in z)
    ctx.chk.ob("D4", "the 4 s clock restarts whenever ewma <= 0.55", ok, "", key="D4:sustain-clock-reset")
    for n, v in (("LOSS_DEGRADE_ENTER", 0.55), ("LOSS_DEGRADE_CLEAR", 0.25), ("LOSS_DEGRADE_SUSTAIN_MS", 4000)):
        ctx.CONST("D4", K + n, v)
    # "the loss average" is an average: every update stamps its time (on every path, so that the first-sample snap happens once),
    # the snap to the instantaneous loss happens only while no update has been stamped, and every other store moves the average
    # towards the sample by a fraction `1 - exp(-dt / tau)`
    cfg = ctx.cfg(fn)
    fa = pa.fa
    stamps = [(bb, si) for (bb, si, s_) in field_stores(fn, LCS, "loss_ewma_last_ms") if fa.val_rvalue(s_["rv"], (bb, si)) == ("param", 3)]
    ok = bool(stamps) and not cfg.returns_reachable_avoiding(set(bb for (bb, si) in stamps))
    ctx.chk.ob("D4", "every update of the loss average stamps its time, on every path", ok, "%d stamp site(s)" % len(stamps), key="D4:ewma-stamped-every-update")
    first = pa.lit(("bin", "Eq", ("const", 0, "u64"), ("field", ("param", 1), LCS, "loss_ewma_last_ms"), "u64"))
    nsnap = nmove = 0
    for (bb, si, s_) in field_stores(fn, LCS, "loss_ewma"):
        v = strip_old(fa.val_rvalue(s_["rv"], (bb, si)))
        pc = pa.pc_at(bb, si)
        reads_avg = any(is_field(x, "loss_ewma", LCS) for x in walk(v))
        if not reads_avg:
            nsnap += 1
            okv = is_call(v, name_contains="clamp") and v[2][1] == ("const", 0.0, "f64") and v[2][2] == ("const", 1.0, "f64") and pa.entails(pc, first)
            ctx.chk.ob("D4", "the average is set to the instantaneous loss (clamped to [0, 1]) only by the very first update", okv, "PC = %s ; value %s" % (pa.show(pc)[:120], show(v, fn.names)[:100]),
                       key="D4:ewma-snap-only-first", loc=s_.get("loc"))
        else:
            nmove += 1
            ex = [x for x in walk(v) if is_call(x, name_contains="f64") and x[1].endswith("::exp")]
            okv = v[0] == "bin" and v[1] == "Add" and len(ex) == 1 and pa.entails(pc, b.NOT(first))
            ctx.chk.ob("D4", "any other store moves the average by (sample - average) * (1 - exp(-dt/tau))", okv, "value %s" % show(v, fn.names)[:160], key="D4:ewma-moves-by-fraction", loc=s_.get("loc"))
    ctx.chk.floor("D4", "first-sample stores of the loss average", nsnap, 1)
    ctx.chk.floor("D4", "smoothing stores of the loss average", nmove, 1)


def d5_gc_and_copy(ctx):
    ta = ctx.fn("srtla_core::selection::link_cc::LinkCcController::tick_all", "D5")
    if ta:
        rets = [(bb, t) for (bb, t) in ta.calls() if t["f"].get("path", "").endswith("::retain")]
        ctx.chk.ob("D5", "tick_all garbage-collects controllers of vanished links (retain)", len(rets) >= 1, "%d retain sites" % len(rets), key="D5:gc")
        # ... on every pass, whatever the link set (an early return for, say, an empty set would let a vanished link's state be
        # inherited by a later link with the same id: no longer "at the floor until an RTT sample exists"), on the per-link map,
        # keeping exactly the ids ticked in this pass
        tfa = ctx.fa(ta)
        tcfg = ctx.cfg(ta)
        on_map = [(bb, t) for (bb, t) in rets if any(is_field(x, "per_conn") for x in walk(tfa.val_operand(t["args"][0], (bb, len(ta.blocks[bb]["stmts"])))))]
        ok = bool(on_map) and not tcfg.returns_reachable_avoiding(set(bb for (bb, t) in on_map))
        ctx.chk.ob("D5", "tick_all reaches the per_conn.retain(..) on every path to its return", ok, "retain blocks %s" % [bb for (bb, t) in on_map], key="D5:gc-on-every-pass")
        okc = False
        det = ""
        if on_map:
            bb, t = on_map[0]
            cl = [x for x in walk(tfa.val_operand(t["args"][1], (bb, len(ta.blocks[bb]["stmts"])))) if x[0] == "agg" and x[1] == "closure" and x[2] in ctx.w.fns]
            if cl:
                cf = ctx.w.fns[cl[0][2]]
                cpa = ctx.pa(cf)
                rt = cpa.ret_true()
                ats = cpa.atoms_of(rt)
                det = cpa.show(rt, 2)[:160]
                okc = len(ats) == 1 and is_call(ats[0], name_contains="HashMap") and ats[0][1].endswith("::contains_key") and cpa.equivalent(rt, cpa.atom(ats[0]))
                # the set it tests is the map of snapshots built in this pass: one insert per link, on every iteration
                ins = [(b2, t2) for (b2, t2) in ta.calls() if t2["f"].get("path", "").endswith("HashMap::<K, V, S>::insert") or t2["f"].get("path", "").endswith("::insert")]
                from ..ctx import every_iteration_reaches, full_slice_element
                ins = [(b2, t2) for (b2, t2) in ins if tcfg.in_cycle(b2)]
                okc = okc and len(ins) == 1
                if okc:
                    b2, t2 = ins[0]
                    key = tfa.val_operand(t2["args"][1], (b2, len(ta.blocks[b2]["stmts"])))
                    okc = is_field(key, "conn_id") and full_slice_element(strip_old(key[1])) == ("param", 2)
                    if okc:
                        okc, d2 = every_iteration_reaches(ctx.w, ta, tfa, key[1], b2, lambda a_: False)
                        det += " ; " + d2
        ctx.chk.ob("D5", "the retain keeps exactly the ids that were ticked (and inserted into the snapshot map) in this pass", okc, det, key="D5:gc-keeps-ticked")
    # the shell copies target / latch / backing-off onto the connection in the housekeeping arm only
    from ..ctx import CONN
    for fld in ("cc_target_bps", "loss_degraded", "cc_backing_off", "weak"):
        ws = sorted(set(a.fn.stable for a in ctx.eff.writers_of(CONN, fld, ("store", "callstore", "mutborrow"))))
        ok = len(ws) == 1 and ws[0].startswith("srtla_send::sender::run_sender_with_config")
        ctx.chk.ob("D5", "connection.%s is written by the housekeeping arm only" % fld, ok, "%s" % ws, key="D5:shell-copy-writer:%s" % fld)
    run = [f for f in ctx.w.fns.values() if f.stable.startswith("srtla_send::sender::run_sender_with_config") and f.kind == "coroutine" and field_stores(f, CONN, "cc_target_bps")]
    if len(run) == 1:
        f = run[0]
        fa = ctx.fa(f)
        src = {}
        consts_ok = True
        for fld, dflt in (("cc_target_bps", 0), ("loss_degraded", False)):
            for (bb, si, s) in field_stores(f, CONN, fld):
                v = fa.val_rvalue(s["rv"], (bb, si))
                if v[0] == "const":
                    # the "no snapshot for this link" arm of an explicit match: the same default as unwrap_or(..)
                    consts_ok = consts_ok and v[1] == dflt and type(v[1]) is type(dflt)
                else:
                    src[fld] = v
        t = src.get("cc_target_bps")
        l = src.get("loss_degraded")
        def reads(v, fld):
            if v is None:
                return False
            if any(is_field(x, fld) for x in walk(v)):
                return True
            for x in walk(v):
                if x[0] == "agg" and x[1] == "closure" and x[2] in ctx.w.fns:
                    cf = ctx.w.fns[x[2]]
                    cfa = ctx.fa(cf)
                    for r in ctx.cfg(cf).returns:
                        if any(is_field(y, fld) for y in walk(cfa.val_local(0, (r, len(cf.blocks[r]["stmts"]))))):
                            return True
            return False
        ok = reads(t, "target_bps") and reads(l, "loss_degraded")
        same = ok and [strip_old(x) for x in walk(t) if x[0] == "call" and "HashMap" in x[1] and x[1].endswith("::get")][:1] == \
            [strip_old(x) for x in walk(l) if x[0] == "call" and "HashMap" in x[1] and x[1].endswith("::get")][:1]
        ctx.chk.ob("D5", "target and latch are copied from the same per-link snapshot entry", bool(ok and same and consts_ok),
                   "target <- %s ; latch <- %s" % (show(t, f.names)[:120] if t else None, show(l, f.names)[:120] if l else None), key="D5:shell-copy-source")


def d5b_counters_rebased_every_call(ctx):
    """"including counter resets after reconnect": the loss window is fed with per-tick deltas of cumulative counters; a counter that
    went backwards gives a saturated zero delta, which is harmless only because the remembered totals follow the counters on *every*
    call - on every path to the return both are re-based to the arguments (an early return in front of the re-base lets the old
    totals survive a reset, and the first NAK past the old total is then read as a 100 % loss window)."""
    f = ctx.fn(LCS + "::observe_traffic", "D5")
    if not f:
        return
    fa = ctx.fa(f)
    cfg = ctx.cfg(f)
    for fld, par in (("prev_bytes_sent_total", 2), ("prev_nak_total", 3)):
        sites = [bb for (bb, si, s_) in field_stores(f, LCS, fld) if fa.val_rvalue(s_["rv"], (bb, si)) == ("param", par)]
        others = [bb for (bb, si, s_) in field_stores(f, LCS, fld) if fa.val_rvalue(s_["rv"], (bb, si)) != ("param", par)]
        ok = bool(sites) and not others and not cfg.returns_reachable_avoiding(set(sites))
        ctx.chk.ob("D5", "observe_traffic re-bases %s to the counter it was given on every path to its return" % fld, ok,
                   "%d store site(s), %d other store(s)" % (len(sites), len(others)), key="D5:counters-rebased-every-call:%s" % fld)
    ctx.WHO_WRITES("D5", LCS, "prev_bytes_sent_total", {LCS + "::observe_traffic"}, floor=1, allow_agg_in={"<" + LCS + " as core::default::Default>::default"})
    ctx.WHO_WRITES("D5", LCS, "prev_nak_total", {LCS + "::observe_traffic"}, floor=1, allow_agg_in={"<" + LCS + " as core::default::Default>::default"})


def d6_seed_once(ctx):
    fn = ctx.fn(TICK, "D6")
    if not fn:
        return
    pa = ctx.pa(fn)
    cfg = ctx.cfg(fn)
    ai, cell = _run_tick(ctx, fn)
    stores = field_stores(fn, LCS, "target_bps")
    seed = None
    final = None
    by_site = {}
    for s in ai.stores:
        if s.cell == cell:
            by_site.setdefault((s.bb, s.si), []).append(s.value)
    for (bb, si, s) in stores:
        vals = by_site.get((bb, si), [])
        syms = [v.sym for v in vals if isinstance(v, Num) and v.sym is not None]
        if syms and all(any(x == ("s", "obs") for x in _symwalk(sy)) for sy in syms):
            seed = (bb, si, s)
        elif vals and not all(isinstance(v, Num) and v.lo == v.hi for v in vals):
            final = (bb, si, s)
    if seed is None or final is None:
        ctx.chk.missing("D6", "tick: seed store / final store", "seed %s final %s" % (seed is not None, final is not None))
        return
    pc = pa.pc_at(seed[0], seed[1])
    # the branch that decides whether to seed: nearest dominator of the seed store that also dominates the final store
    idom = cfg.dominators()
    x = seed[0]
    while x in idom and idom[x] != x and not cfg.dominates(x, final[0]):
        x = idom[x]
    base = pa.pc_at(x, len(fn.blocks[x]["stmts"]))
    guard = pa.bdd.simplify(pc, base)
    atoms = pa.atoms_of(guard)
    detail = "seed guard: %s" % pa.show(guard)
    # form 1: sentinel value of the stored field
    sent = [a for a in atoms if a[0] == "bin" and a[1] == "Eq" and any(is_field(x, "target_bps", LCS) for x in (a[2], a[3]))]
    # form 2: state test
    state = [a for a in atoms if a[0] == "is" and is_field(a[1], "state", LCS)] + \
            [a for a in atoms if is_call(a, name_contains="PartialEq") and any(is_field(x, "state", LCS) for x in walk(a))]
    if sent:
        c = [x for x in (sent[0][2], sent[0][3]) if x[0] == "const"]
        sv = c[0][1] if c else None
        # every later store must exclude the sentinel value
        post = [s for s in ai.stores if s.cell == cell and (s.bb, s.si) == (final[0], final[1])]
        excl = bool(post) and all(isinstance(s.value, Num) and (s.value.lo > sv or s.value.hi < sv) for s in post)
        ctx.chk.ob("D6", "the seeding guard means 'not yet seeded': no later store can produce its sentinel value", excl,
                   detail + " ; the final store ranges over %s, which contains the sentinel %s: a target walked down to the floor is re-seeded from the "
                   "outlier-clamped observation or 1 Mbit/s (x10 jump)" % ([repr(s.value) for s in post][:1], sv), key="D6:seed-guard-not-exclusive", loc=seed[2].get("loc"))
    elif state:
        # the state is Bootstrap exactly until the first seeded tick: Bootstrap is stored only in the no-RTT branch,
        # and the seeding tick overwrites the state with next_state, which is never Bootstrap
        boots = []
        okb = True
        ns = [tick_roles(ctx, fn)["next_state"]] if tick_roles(ctx, fn)["next_state"] is not None else []
        for (bb, si, s) in field_stores(fn, LCS, "state"):
            v = pa.fa.val_rvalue(s["rv"], (bb, si))
            if v[0] == "agg" and v[2].endswith("CcState::Bootstrap"):
                boots.append((bb, si))
                okb = okb and not cfg.can_reach(bb, seed[0])
            elif v[0] == "var" and ns and v[1] == ns[0]:
                vals = [x[1] for x in pa.fa.def_values(ns[0], (bb, si))]
                okb = okb and all(x[0] == "agg" and not x[2].endswith("::Bootstrap") for x in vals) and cfg.can_reach(seed[0], bb) and \
                    (cfg.postdominates(bb, seed[0]) or bb == seed[0])
            else:
                okb = False
        ws = ctx.eff.writer_fns(LCS, "state", kinds=("store", "callstore", "mutborrow", "setdiscr"))
        okb = okb and ws == [TICK]
        ctx.chk.ob("D6", "the seeding guard means 'not yet seeded': the state leaves Bootstrap on the seeding tick and re-enters only without RTT", okb,
                   detail + " ; writers of state: %s" % ws, key="D6:seed-guard-not-exclusive", loc=seed[2].get("loc"))
    else:
        ctx.chk.ob("D6", "the seed store is guarded by a 'not yet seeded' test", False, detail, key="D6:seed-guard-not-exclusive", loc=seed[2].get("loc"))
    # the seed value itself: clamp(max(obs', 1_000_000), MIN, MAX)
    sv = [s for s in ai.stores if s.cell == cell and (s.bb, s.si) == (seed[0], seed[1])]
    want = ("min", ("max", ("max", ("s", "obs"), ("c", INIT)), ("c", MIN)), ("c", MAX))
    ok = bool(sv) and all(isinstance(s.value, Num) and s.value.sym is not None and ai.symenv.le(s.value.sym, want) and ai.symenv.le(want, s.value.sym) for s in sv)
    ctx.chk.ob("D6", "seed = clamp(max(outlier-clamped observation, 1 Mbit/s), MIN, MAX)", ok, "%s" % [repr(s.value) for s in sv][:1], key="D6:seed-value")


def _symwalk(e):
    yield e
    for x in e[1:]:
        if isinstance(x, tuple) and x and isinstance(x[0], str):
            for y in _symwalk(x):
                yield y


RULES = [d1_range, d2_floor_before_rtt, d3_direction, d4_loss_latch, d5_gc_and_copy, d5b_counters_rebased_every_call, d6_seed_once]


def run(ctx):
    ctx.chk.not_decided = ["strict positivity of the RTT average (a denormal sample can underflow the weighted mean to 0.0, the 'never sampled' value)", "EWMA numerics (that the RTT average cannot overflow to infinity and re-enter bootstrap needs a bound on the RTT argument only the call site's run-time values give)",
                           "'measurably delivering' is decided relative to the observed_bps argument, not to the network"]
    ctx.chk.assumptions = ["float arithmetic is treated as monotone real arithmetic for the symbolic <= comparisons (intervals carry outward slack)"]
    ctx.run_rules(RULES)
