use srtla_core::selection::link_cc::LinkCongestionState;

// F5: a target_bps that has been cut down to the floor is re-seeded as if it had never been seeded.
// History: idle link (observed 0) whose RTT oscillates; each fresh entry into Drain cuts 25 %.
#[test]
fn f5_reseed_from_floor() {
    let mut s = LinkCongestionState::default();
    let mut now = 10_000u64;
    s.record_rtt(50.0, now);
    let obs = 0u64;
    let samples = [250.0, 50.0, 50.0]; // ewma 150 (drain), 100 (still drain), 75 (climbing)
    let mut prev = s.target_bps;
    for tick in 0..36 {
        now += 1000;
        s.record_rtt(samples[tick % 3], now);
        s.tick(obs, now);
        let t = s.target_bps;
        if t != prev {
            println!("F5 tick {tick:2}: state={:?} target {prev} -> {t} (x{:.3})", s.state, t as f64 / prev as f64);
        }
        prev = t;
    }
}
