"""Debug CLI: python3 -m sa.tool dump <facts_dir> <world> <stable-substring>"""
import sys
from .facts import load_worlds
from .pp import dump_fn

def main():
    cmd = sys.argv[1]
    if cmd == "dump":
        worlds = load_worlds(sys.argv[2])
        w = [x for x in worlds if x.name == sys.argv[3]][0]
        pat = sys.argv[4]
        for f in sorted(w.fns.values(), key=lambda f: f.id):
            if pat in f.stable or pat in f.id:
                print(dump_fn(f))
                print()
    elif cmd == "list":
        worlds = load_worlds(sys.argv[2])
        w = [x for x in worlds if x.name == sys.argv[3]][0]
        pat = sys.argv[4] if len(sys.argv) > 4 else ""
        for f in sorted(w.fns.values(), key=lambda f: f.id):
            if pat in f.stable:
                print(f.stable, "|", f.kind, f.loc)

main()
