"""C15 - the wire codec is total, bounded and matches the SRTLA / SRT layouts.

D1 panic-freedom of all decoders, the classifier helpers and the builders the sender calls: every bounds check, slice range,
   copy length AND arithmetic overflow (an index computation that wraps in release is a bounds panic) is discharged;
D2 NAK expansion bound: range pushes are guarded by out.len() < 1000, single pushes happen once per >= 4 payload bytes;
D3 layouts (constants, builder tables, parser offsets, flag tests);
D4 round trip: builder and parser tables agree field by field (offset, width, endianness).
"""
from ..absint import AbsInt, Entry
from ..ctx import is_call, is_field, is_iter_next, sname
from ..expr import mk_bin, show, strip_old, walk
from ..pathcond import calls_to
from ..tables import _const, be_reads, builder_table, width_of
from . import panicfree

from .. import roles  # noqa: E402

LEVEL = "proof"
PR = "srtla_protocol::parsers::"
TY = "srtla_protocol::types::"
BU = "srtla_protocol::builders::"
K = "srtla_protocol::constants::"
PARSERS = [PR + "extract_keepalive_timestamp", PR + "extract_keepalive_conn_info", PR + "parse_srt_ack", PR + "parse_srt_nak", PR + "parse_srtla_ack"]
CLASSIFIERS = [TY + n for n in ("is_srtla_reg1", "is_srtla_reg2", "is_srtla_reg3", "is_srtla_keepalive", "is_srt_ack", "get_packet_type",
                                "get_srt_sequence_number", "is_srt_data_retransmit")]
BUILDERS = [BU + "create_reg1_packet", BU + "create_reg2_packet", BU + "create_keepalive_packet_ext"]
OTHER_BUILDERS = [BU + "create_keepalive_packet", BU + "create_ack_packet"]
CI = "srtla_protocol::types::ConnectionInfo"


def d1_total(ctx):
    panicfree.panic_free(ctx, "D1", PARSERS + CLASSIFIERS + BUILDERS, include_overflow=True, what=" (decoders, classifiers, sender-side builders)")
    # builders with no caller in the shipped sender are analysed too; if they do not discharge they are reported as not analysed
    eff = ctx.eff
    for st in OTHER_BUILDERS:
        f = ctx.w.fn(st)
        if f is None:
            continue
        prod_callers = [c for (c, bb, t) in eff.callers_of(f.id) if "::tests" not in c.stable]
        ctx.chk.note("%s: %d production caller(s)" % (sname(st), len(prod_callers)))
        if prod_callers:
            panicfree.panic_free(ctx, "D1", [st], include_overflow=True, what=" (%s)" % sname(st))


def d2_nak_bound(ctx):
    f = ctx.fn(PR + "parse_srt_nak", "D2")
    if not f:
        return
    pa = ctx.pa(f)
    cfg = ctx.cfg(f)
    pushes = [(bb, t) for (bb, t) in f.calls() if t["f"].get("path", "").endswith("::push")]
    heads = cfg.loop_heads()
    ctx.chk.ob("D2", "two nested loops (payload scan, range expansion)", len(heads) == 2, "%d loops" % len(heads), key="D2:loop-shape")
    if len(heads) != 2 or len(pushes) != 2:
        ctx.chk.ob("D2", "two push sites", len(pushes) == 2, "%d" % len(pushes), key="D2:push-sites")
        return
    bodies = {h: cfg.loop_body(h) for h in heads}
    inner = min(heads, key=lambda h: len(bodies[h]))
    outer = max(heads, key=lambda h: len(bodies[h]))
    rng = [(bb, t) for (bb, t) in pushes if bb in bodies[inner]]
    single = [(bb, t) for (bb, t) in pushes if bb not in bodies[inner]]
    ok = len(rng) == 1 and len(single) == 1
    ctx.chk.ob("D2", "one push in the range loop, one per single id outside it", ok, "", key="D2:push-placement")
    if not ok:
        return
    lim = pa.find(lambda a: a[0] == "bin" and a[1] == "Lt" and is_call(a[2], name_contains="::len") and a[3] == ("const", 1000, "usize"))
    okb = bool(lim) and pa.entails(pa.pc_block(rng[0][0]), lim[0][1])
    ctx.chk.ob("D2", "range expansion pushes only while out.len() < 1000", okb, "PC = %s" % pa.show(pa.bdd.simplify(pa.pc_block(rng[0][0]), pa.pc_block(inner)), 3), key="D2:range-push-bounded")
    # every iteration of the payload loop consumes >= 4 bytes: a store `i := i + 4` dominates every back edge of the outer loop
    i0 = roles.counter(ctx.w, f, "usize", start=None, step=4, hint="i")
    il = [i0] if i0 is not None else []
    adv = []
    if il:
        for d in pa.fa.defs.get(il[0], []):
            if d[2] == "assign":
                v = pa.fa.val_rvalue(d[3], (d[0], d[1]))
                if v[0] == "bin" and v[1] == "Add" and ("const", 4, "usize") in (v[2], v[3]):
                    adv.append(d[0])
    backs = [t for (t, h) in cfg.back_edges() if h == outer]
    okadv = bool(adv) and all(any(cfg.dominates(a, t) for a in adv) for t in backs)
    ctx.chk.ob("D2", "every iteration of the payload scan advances by >= 4 bytes, so single ids number at most len / 4", okadv and not cfg.in_cycle(single[0][0]) or
               (okadv and single[0][0] in bodies[outer] and single[0][0] not in bodies[inner]), "advance stores in bb%s, back edges from %s" % (adv, backs), key="D2:single-push-per-4-bytes")
    # the range walk cannot overflow: wrapping_add
    wa = [1 for (bb, t) in f.calls() if t["f"].get("path", "").endswith("::wrapping_add") and bb in bodies[inner]]
    ctx.chk.ob("D2", "the range cursor advances with wrapping_add (u32::MAX cannot panic)", bool(wa), "", key="D2:wrapping-cursor")
    # marker / mask
    marks = [a for a in pa.bdd.vars if a[0] == "bin" and a[1] == "Eq" and any(x[0] == "bin" and x[1] == "BitAnd" and ("const", 0x80000000, "u32") in (x[2], x[3]) for x in (a[2], a[3]))]
    ctx.chk.ob("D2", "a range is marked by the top bit (0x8000_0000)", bool(marks), "", key="D2:range-marker")


def d3_layouts(ctx):
    for n, v in (("SRTLA_ID_LEN", 256), ("SRTLA_TYPE_REG1_LEN", 258), ("SRTLA_TYPE_REG2_LEN", 258), ("SRTLA_TYPE_REG3_LEN", 2), ("SRTLA_KEEPALIVE_EXT_LEN", 38),
                 ("SRTLA_KEEPALIVE_MAGIC", 0xc01f), ("SRTLA_KEEPALIVE_EXT_VERSION", 1), ("SRTLA_TYPE_KEEPALIVE", 0x9000), ("SRTLA_TYPE_ACK", 0x9100),
                 ("SRTLA_TYPE_REG1", 0x9200), ("SRTLA_TYPE_REG2", 0x9201), ("SRTLA_TYPE_REG3", 0x9202), ("SRTLA_TYPE_REG_ERR", 0x9210), ("SRTLA_TYPE_REG_NGP", 0x9211),
                 ("SRT_TYPE_ACK", 0x8002), ("SRT_TYPE_NAK", 0x8003), ("MTU", 1500)):
        ctx.CONST("D3", K + n, v)
    for st, code in ((BU + "create_reg1_packet", 0x9200), (BU + "create_reg2_packet", 0x9201)):
        f = ctx.fn(st, "D3")
        if not f:
            continue
        tb = builder_table(ctx.w, f)
        ok = len(tb) == 2 and tb[0][0] == 0 and tb[0][1] == 2 and tb[0][3] == "be" and _const(tb[0][2]) == code and \
            tb[1][0] == 2 and tb[1][1] is None and tb[1][2] == ("param", 1) and tb[1][3] == "raw"
        ctx.chk.ob("D3", "%s: [0,2) = 0x%04x big-endian, [2,258) = the 256-byte id" % (sname(st), code), ok,
                   "%s" % [(r[0], r[1], show(r[2], f.names)[:40], r[3]) for r in tb], key="D3:layout:%s" % st)
        ret = f.locals[0]["ty"]
        ctx.chk.ob("D3", "%s returns a 258-byte frame" % sname(st), ret.replace(" ", "") == "[u8;258]", ret, key="D3:frame-len:%s" % st)
    pt = ctx.fn(TY + "get_packet_type", "D3")
    if pt:
        fa = ctx.fa(pt)
        vals = []
        for bi, blk in enumerate(pt.blocks):
            for si, s in enumerate(blk["stmts"]):
                if s["k"] == "assign" and s["p"]["l"] == 0 and not s["p"]["proj"] and s["rv"]["k"] == "agg" and s["rv"].get("vn") == "Some":
                    vals.append(fa.val_rvalue(s["rv"], (bi, si)))
        r = [be_reads(v) for v in vals]
        ok = len(r) == 1 and len(r[0]) == 1 and tuple(_const(i) for i in r[0][0][0]) == (0, 1) and r[0][0][1] == "be"
        ctx.chk.ob("D3", "packet type = big-endian u16 at bytes 0..2", ok, "%s" % [show(v, pt.names)[:120] for v in vals], key="D3:packet-type")
    sa = ctx.fn(PR + "parse_srt_ack", "D3")
    if sa:
        fa = ctx.fa(sa)
        vals = []
        for bi, blk in enumerate(sa.blocks):
            for si, s in enumerate(blk["stmts"]):
                if s["k"] == "assign" and s["p"]["l"] == 0 and not s["p"]["proj"] and s["rv"]["k"] == "agg" and s["rv"].get("vn") == "Some":
                    vals.append(fa.val_rvalue(s["rv"], (bi, si)))
        r = [x for v in vals for x in be_reads(v)]
        ok = len(r) == 1 and tuple(_const(i) for i in r[0][0]) == (16, 17, 18, 19) and r[0][1] == "be" and width_of(r[0][2][1]) == 4
        ctx.chk.ob("D3", "SRT ACK number = big-endian u32 at bytes 16..20", ok, "%s" % [show(v, sa.names)[:160] for v in vals], key="D3:srt-ack-offset")
        pa = ctx.pa(sa)
        tpe = [a for a in pa.bdd.vars if a[0] == "bin" and a[1] == "Eq" and ("const", 0x8002, "u16") in (a[2], a[3])]
        ctx.chk.ob("D3", "parse_srt_ack accepts type 0x8002 only", bool(tpe), "", key="D3:srt-ack-type")
    la = ctx.fn(PR + "parse_srtla_ack", "D3")
    if la:
        fa = ctx.fa(la)
        pa = ctx.pa(la)
        i0 = roles.counter(ctx.w, la, "usize", start=None, step=4, hint="i")
        il = [i0] if i0 is not None else []
        pushes = [(bb, t) for (bb, t) in la.calls() if t["f"].get("path", "").endswith("::push")]
        ok = False
        detail = ""
        if il and len(pushes) == 1:
            bb, t = pushes[0]
            v = fa.val_operand(t["args"][1], (bb, len(la.blocks[bb]["stmts"])))
            r = be_reads(v)
            detail = show(v, la.names)[:200]
            iv = [x for x in walk(v) if x[0] == "var" and x[1] == il[0]]
            if len(r) == 1 and r[0][1] == "be" and width_of(r[0][2][1]) == 4 and iv:
                i = iv[0]
                offs = []
                for ix in r[0][0]:
                    ix = strip_old(ix)
                    if ix == i:
                        offs.append(0)
                    elif ix[0] == "bin" and ix[1] == "Add" and i in (ix[2], ix[3]):
                        offs.append(_const(ix[2]) if ix[3] == i else _const(ix[3]))
                    else:
                        offs.append(None)
                inits = [pa.fa.val_rvalue(d[3], (d[0], d[1])) for d in pa.fa.defs.get(il[0], []) if d[2] == "assign" and not ctx.cfg(la).in_cycle(d[0])]
                steps = [pa.fa.val_rvalue(d[3], (d[0], d[1])) for d in pa.fa.defs.get(il[0], []) if d[2] == "assign" and ctx.cfg(la).in_cycle(d[0])]
                ok = offs == [0, 1, 2, 3] and inits == [("const", 4, "usize")] and len(steps) == 1 and steps[0][0] == "bin" and steps[0][1] == "Add" and ("const", 4, "usize") in (steps[0][2], steps[0][3])
        ctx.chk.ob("D3", "SRTLA ACK: 4-byte header, then big-endian u32 numbers at 4, 8, 12, ...", ok, detail, key="D3:srtla-ack-layout")
    sn = ctx.fn(TY + "get_srt_sequence_number", "D3")
    if sn:
        pa = ctx.pa(sn)
        top = [a for a in pa.bdd.vars if a[0] == "bin" and a[1] == "Eq" and any(x[0] == "bin" and x[1] == "BitAnd" and ("const", 0x80000000, "u32") in (x[2], x[3]) for x in (a[2], a[3]))
               and ("const", 0, "u32") in (a[2], a[3])]
        somes = []
        for bi, blk in enumerate(sn.blocks):
            for si, s in enumerate(blk["stmts"]):
                if s["k"] == "assign" and s["p"]["l"] == 0 and not s["p"]["proj"] and s["rv"]["k"] == "agg" and s["rv"].get("vn") == "Some":
                    somes.append((bi, si, pa.fa.val_rvalue(s["rv"], (bi, si))))
        ok = bool(top) and len(somes) == 1 and pa.entails(pa.pc_at(somes[0][0], somes[0][1]), pa.atom(top[0]))
        r = be_reads(somes[0][2]) if somes else []
        ok = ok and len(r) == 1 and tuple(_const(i) for i in r[0][0]) == (0, 1, 2, 3)
        ctx.chk.ob("D3", "a data packet is identified by a clear top bit of the big-endian u32 at bytes 0..4", ok, "", key="D3:data-packet-test")
    rt = ctx.fn(TY + "is_srt_data_retransmit", "D3")
    if rt:
        pa = ctx.pa(rt)
        f = pa.ret_true()
        b = pa.bdd
        ln = b.NOT(pa.lit(("bin", "Lt", ("call", "core::slice::<impl [T]>::len", (("param", 1),), None, None), ("const", 8, "usize"), "usize")))
        b0 = pa.lit(mk_bin("Eq", mk_bin("BitAnd", ("index", ("param", 1), ("const", 0, "usize")), ("const", 0x80, "u8"), "u8"), ("const", 0, "u8"), "u8"))
        b4 = b.NOT(pa.lit(mk_bin("Eq", mk_bin("BitAnd", ("index", ("param", 1), ("const", 4, "usize")), ("const", 0x04, "u8"), "u8"), ("const", 0, "u8"), "u8")))
        ok = pa.equivalent(f, b.AND(ln, b.AND(b0, b4)))
        ctx.chk.ob("D3", "retransmit flag: len >= 8 & byte0 & 0x80 == 0 & byte4 & 0x04 != 0", ok, "RT = %s" % pa.show(f), key="D3:retransmit-flag")


EXT_FIELDS = [("conn_id", 14, 4), ("window", 18, 4), ("in_flight", 22, 4), ("rtt_ms", 26, 4), ("nak_count", 30, 4), ("bitrate_bytes_per_sec", 34, 4)]


def d4_round_trip(ctx):
    b = ctx.fn(BU + "create_keepalive_packet_ext", "D4")
    p = ctx.fn(PR + "extract_keepalive_conn_info", "D4")
    if b and p:
        tb = builder_table(ctx.w, b)
        want = [(0, 2, 0x9000), (2, 10, "now"), (10, 12, 0xc01f), (12, 14, 1)]
        ok = len(tb) == 10 and all(r[3] == "be" for r in tb)
        if ok:
            ok = _const(tb[0][2]) == 0x9000 and (tb[0][0], tb[0][1]) == (0, 2) and (tb[1][0], tb[1][1]) == (2, 10) and tb[1][2] == ("param", 2) and \
                (tb[2][0], tb[2][1]) == (10, 12) and _const(tb[2][2]) == 0xc01f and (tb[3][0], tb[3][1]) == (12, 14) and _const(tb[3][2]) == 1
        ctx.chk.ob("D4", "extended keepalive header: type, timestamp, magic, version at [0,2) [2,10) [10,12) [12,14), big-endian", ok,
                   "%s" % [(r[0], r[1], show(r[2], b.names)[:30], r[3]) for r in tb[:4]], key="D4:keepalive-ext-header")
        ctx.chk.ob("D4", "the extended keepalive is a 38-byte frame", b.locals[0]["ty"].replace(" ", "") == "[u8;38]", b.locals[0]["ty"], key="D4:keepalive-ext-len")
        # telemetry fields
        bt = {}
        for r in tb[4:]:
            if r[2][0] == "field":
                bt[r[2][3]] = (r[0], r[1], r[3])
        fa = ctx.fa(p)
        pt = {}
        for bi, blk in enumerate(p.blocks):
            for si, s in enumerate(blk["stmts"]):
                if s["k"] == "assign" and s["rv"]["k"] == "agg" and s["rv"].get("adt") == CI:
                    v = fa.val_rvalue(s["rv"], (bi, si))
                    for name, val in zip(v[4], v[3]):
                        r = be_reads(val)
                        if len(r) == 1:
                            idx = tuple(_const(i) for i in r[0][0])
                            pt[name] = (idx[0], idx[-1] + 1 if idx[-1] is not None else None, r[0][1], idx)
        for (name, off, w) in EXT_FIELDS:
            bw = bt.get(name)
            pw = pt.get(name)
            ok = bw == (off, off + w, "be") and pw is not None and pw[0] == off and pw[1] == off + w and pw[2] == "be" and pw[3] == tuple(range(off, off + w))
            ctx.chk.ob("D4", "telemetry field %s: builder and parser agree on [%d,%d) big-endian" % (name, off, off + w), ok, "builder %s ; parser %s" % (bw, pw),
                       key="D4:keepalive-ext-field:%s" % name)
        # parser checks of magic / version read the bytes the builder writes
        pa = ctx.pa(p)
        mg = [a for a in pa.bdd.vars if a[0] == "bin" and a[1] == "Eq" and ("const", 0xc01f, "u16") in (a[2], a[3])]
        vs = [a for a in pa.bdd.vars if a[0] == "bin" and a[1] == "Eq" and ("const", 1, "u16") in (a[2], a[3])]
        okm = bool(mg) and [tuple(_const(i) for i in r[0]) for r in be_reads(mg[0])] == [(10, 11)]
        okv = bool(vs) and [tuple(_const(i) for i in r[0]) for r in be_reads(vs[0])] == [(12, 13)]
        ctx.chk.ob("D4", "the parser checks magic at [10,12) and version at [12,14)", okm and okv, "", key="D4:keepalive-ext-magic-version")
    ts = ctx.fn(PR + "extract_keepalive_timestamp", "D4")
    if ts:
        # ts = (ts << 8) | buf[2 + i] for i in 0..8  == big-endian u64 at [2,10)
        fa = ctx.fa(ts)
        pa = ctx.pa(ts)
        t0 = roles.counter(ctx.w, ts, "u64", start=0, step=None, hint="ts", any_update=True)
        tl = [t0] if t0 is not None else []
        ok = False
        detail = ""
        if tl:
            acc = [pa.fa.val_rvalue(d[3], (d[0], d[1])) for d in pa.fa.defs.get(tl[0], []) if d[2] == "assign" and ctx.cfg(ts).in_cycle(d[0])]
            init = [pa.fa.val_rvalue(d[3], (d[0], d[1])) for d in pa.fa.defs.get(tl[0], []) if d[2] == "assign" and not ctx.cfg(ts).in_cycle(d[0])]
            detail = "%s" % [show(a, ts.names)[:160] for a in acc]
            if len(acc) == 1 and init == [("const", 0, "u64")]:
                a = acc[0]
                if a[0] == "bin" and a[1] == "BitOr":
                    parts = (a[2], a[3])
                    shl = [x for x in parts if x[0] == "bin" and x[1] == "Shl" and _const(x[3]) == 8]
                    byte = [x for x in parts if x[0] == "cast" and x[1] == "u64"]
                    if shl and byte:
                        ix = strip_old(byte[0][2])
                        rng = [x for x in walk(ix) if x[0] == "agg" and "ops::range::Range" in str(x[2])]
                        base = ix[2] if ix[0] == "index" else None
                        off_ok = base is not None and base[0] == "bin" and base[1] == "Add" and ("const", 2, "usize") in (base[2], base[3])
                        r_ok = bool(rng) and [_const(v) for v in rng[0][3]] == [0, 8]
                        ok = off_ok and r_ok
        ctx.chk.ob("D4", "keepalive timestamp = big-endian u64 at [2,10), where the builders put `now`", ok, detail, key="D4:keepalive-timestamp")
    ka = ctx.fn(BU + "create_keepalive_packet", "D4")
    if ka:
        tb = builder_table(ctx.w, ka)
        ok = len(tb) == 2 and (tb[0][0], tb[0][1]) == (0, 2) and _const(tb[0][2]) == 0x9000 and (tb[1][0], tb[1][1]) == (2, 10) and tb[1][2] == ("param", 1) and all(r[3] == "be" for r in tb)
        ctx.chk.ob("D4", "standard keepalive: type at [0,2), timestamp at [2,10)", ok, "", key="D4:keepalive-std")
    ab = ctx.fn(BU + "create_ack_packet", "D4")
    if ab:
        tb = builder_table(ctx.w, ab)
        ok = len(tb) == 2 and (tb[0][0], tb[0][1]) == (0, 2) and _const(tb[0][2]) == 0x9100 and tb[0][3] == "be" and tb[1][3] == "be"
        if ok:
            st = tb[1][0]
            en = tb[1][1]
            # off = 4 + i*4 ; off + 4
            se = st[1] if isinstance(st, tuple) else None
            ee = en[1] if isinstance(en, tuple) else None
            def is_off(e):
                e = strip_old(e)
                return e[0] == "bin" and e[1] == "Add" and ("const", 4, "usize") in (e[2], e[3]) and any(x[0] == "bin" and x[1] == "Mul" and ("const", 4, "usize") in (x[2], x[3]) for x in (e[2], e[3]))
            ok = se is not None and ee is not None and is_off(se) and strip_old(ee)[0] == "bin" and strip_old(ee)[1] == "Add" and ("const", 4, "usize") in (strip_old(ee)[2], strip_old(ee)[3])
        ctx.chk.ob("D4", "SRTLA ACK builder: type at [0,2), numbers big-endian at 4 + 4i (the layout parse_srtla_ack reads)", ok,
                   "%s" % [(show(r[0][1])[:40] if isinstance(r[0], tuple) else r[0], r[3]) for r in tb], key="D4:srtla-ack-builder")


RULES = [d1_total, d2_nak_bound, d3_layouts, d4_round_trip]


def run(ctx):
    ctx.chk.not_decided = ["differential equality with an independent decoder (a dynamic notion): replaced by table agreement plus panic-freedom",
                           "non-workspace callees (smallvec, core) are trusted total"]
    ctx.chk.assumptions = ["slices are at most isize::MAX bytes long (a Rust guarantee)"]
    ctx.run_rules(RULES)
