use srtla_core::config_snapshot::ConfigSnapshot;
use srtla_core::selection::select_connection_idx;
use srtla_core::test_helpers::create_test_connections;
use srtla_core::utils::now_ms;

// F6: the silence pull is released although the link was not heard from and did not disconnect:
// a cumulative SRT ACK that arrived on ANOTHER link inflates this link's RTT estimate, which
// widens the silence window past the current silence.
#[tokio::test]
async fn f6_silence_pull_released_without_inbound() {
    let t0 = now_ms();
    let mut conns = create_test_connections(2).await;
    let cfg = ConfigSnapshot::default();
    // link 0: 50 ms RTT baseline, 40 packets outstanding, last heard 300 ms ago
    for _ in 0..5 { conns[0].rtt.update_estimate(50, t0 - 1000); }
    for s in 0..40 { conns[0].register_packet(s, t0 - 3000); }
    conns[0].last_received = Some(t0 - 300);
    conns[1].last_received = Some(t0);
    let sel = select_connection_idx(&mut conns, None, t0, &cfg);
    println!("F6 t0     : selected={sel:?} link0 gated={} srtt={:.0} window={} in_flight={} last_received_age={}",
        conns[0].is_stall_gated(), conns[0].get_smooth_rtt_ms(), conns[0].silence_pull_window_ms(cfg.stall_ack_stale_ms),
        conns[0].in_flight_packets, t0 - conns[0].last_received.unwrap());
    // 10 ms later a cumulative SRT ACK for seq 5 arrives on link 1; the shell applies it to every link
    let t1 = t0 + 10;
    let lr_before = conns[0].last_received;
    for c in conns.iter_mut() { c.handle_srt_ack(5, t1); }
    let sel = select_connection_idx(&mut conns, sel, t1, &cfg);
    println!("F6 t0+10ms: selected={sel:?} link0 gated={} srtt={:.0} window={} in_flight={} last_received_unchanged={} connected={}",
        conns[0].is_stall_gated(), conns[0].get_smooth_rtt_ms(), conns[0].silence_pull_window_ms(cfg.stall_ack_stale_ms),
        conns[0].in_flight_packets, conns[0].last_received == lr_before, conns[0].connected);
}
