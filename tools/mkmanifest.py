#!/usr/bin/env python3
"""Regenerate /verif/MANIFEST.json from the table below (one entry per claimed property)."""
import json
import os

HERE = os.path.dirname(os.path.dirname(os.path.abspath(__file__)))

BASELINE = ("cd /repo && cargo nextest run --workspace --no-fail-fast --tool-config-file pb:/w/lib/nextest.toml "
            "--profile pb --test-threads 8 --offline || (cd /repo && cargo test --workspace --no-fail-fast --offline)")

TRUSTED = ("Trusted base: rustc nightly's MIR construction and Instance resolution, the mirfacts serialiser, the "
           "analyser's transfer functions / std summaries; non-workspace crates are assumed total and to write "
           "workspace state only through what they are handed. Only cfg(unix) x86-64 Linux builds are analysed.")

# id -> (category, technique, text, design_ref, note)
CLAIMS = {}


def claim(pid, category, technique, text, ref, note=""):
    CLAIMS[pid] = (category, technique, text, ref, note)


claim("C12", "proof",
      "interprocedural effect analysis (transitive field write/read sets over resolved MIR call graph) + path-condition entailment on the guard-off branch",
      "Non-interference and guard-off == baseline are decided for every history at once: the transitive write set "
      "of select_connection_idx over all 48 reachable bodies contains only guard-private routing fields (plus the "
      "timeout copy and the quality cache), no whole-connection overwrite and only element-access foreign APIs; the "
      "!stall_deselect branch provably stores false/0 to flag, pull and both latch stamps for every element and "
      "reaches no update call; the selectors read only `stall_gated` of guard state and run after the gate.",
      "DESIGN.md 5 C12", "")

claim("C03", "other",
      "predicate extraction (BDD path conditions of the selector loops, return formulas of the two `any` closures, stored gate value) + propositional entailment chain",
      "The no-blackout argument is decided as implications between predicates extracted from the code, for all link-state "
      "combinations the predicates admit: gated => any_healthy; HEALTHY => not gated, admitted by both selectors and connected; "
      "cap skip only under any_unconstrained; UNCONSTR => admitted and connected; gate multiplier and phase weights positive; "
      "initial best scores -1 / strict compare; get_score -1 only when disconnected; hysteresis only returns a link scored in this pass. "
      "Found defect F4 (HEALTHY/UNCONSTR lacked `connected`), repaired in /repo.",
      "DESIGN.md 5 C03", "Atoms are independent propositions (passes are sound); reachability of state combinations is not decided.")
claim("C04", "other",
      "reaching-definition analysis of the routing index at the forward site + admission-predicate entailment (BDD) per source + who-may-call",
      "Every source of the index handle_srt_packet routes on is enumerated from the MIR (scheduler result, best-path override) and must "
      "carry ELIG = !timed_out & schedulable & !stall_gated, inside its producer or as a use-site guard; both selectors' scoring predicates "
      "entail ELIG and only scored links' indices are stored/returned; pre-registration forwarding is confined to !has_connected, which is "
      "monotone; the data queue is fed only by the forwarder and the gated probe. Found defect F1 (override ignored eligibility), repaired.",
      "DESIGN.md 5 C04", "")
claim("C06", "proof",
      "interval + symbolic abstract interpretation of every writer of `window` (discovered by who-may-write incl. &mut flows), path-sensitive snapshots for the fast-recovery thresholds",
      "Inductive invariant: from window in [1000,60000] every one of the 9 writer bodies exits in [1000,60000] (constructor/reset exactly 20000), "
      "every stored value is symbolically <= the entry value in the NAK writer and >= it in the ACK/recovery writers, fast recovery is entered "
      "only with window <= 2000 and left only with window >= 12000 or in reset, time-based recovery is guarded by !classic, and the writer set "
      "is closed over the whole workspace (pub field).",
      "DESIGN.md 5 C06", "in-flight counts and clocks range over their full types; overflow asserts of the dev profile are discharged from the entry range.")
claim("C10", "other",
      "transitive read-set of the classic selector, value reconstruction of the score and window formulas (symbolic equivalence), mode-dispatch path conditions",
      "The reference algorithm is decided clause by clause: the classic selector reads only capacity/eligibility inputs and no clock/RNG; "
      "score = window / max(1, sat(in_flight+queued)+1) in i32 division, strict > in an ascending scan from -1; window rules min(w+29,60000) under "
      "in_flight*1000 > w, min(w+1,60000) exactly when connected & received, max(w-100,1000); classic writer chosen iff mode is classic; "
      "connected => last_received.is_some() kept by every writer; no time recovery and no route override in classic. Found the classic half of F1, repaired.",
      "DESIGN.md 5 C10", "lock-step equality with an executable reference over histories is not decided.")

NOT_APPLICABLE = {}
ALL = ["C%02d" % i for i in range(1, 21)]


def main():
    checks = []
    for pid in ALL:
        if pid not in CLAIMS:
            continue
        cat, tech, text, ref, note = CLAIMS[pid]
        checks.append({
            "property_id": pid,
            "quick_cmd": "./check %s --tier quick" % pid,
            "thorough_cmd": "./check %s --tier thorough" % pid,
            "evidence_file": "/verif/evidence/%s.json" % pid,
            "replay_cmd_template": "./check %s --replay {path}" % pid,
            "engine": "sa",
            "level_claimed": {"category": cat, "text": text, "design_ref": ref},
            "level_note": (note + " " if note else "") + TRUSTED,
            "technique": tech,
        })
    na = []
    for pid in ALL:
        if pid in CLAIMS:
            continue
        na.append({"property_id": pid, "reason": NOT_APPLICABLE.get(
            pid, "static check for this property is still under construction in this build session; no claim is made yet")})
    m = {
        "version": 1,
        "setup_cmd": "./setup.sh",
        "hooks": {
            "guard": "none",
            "enable": "no source hooks: the analysis reads the unmodified program's MIR (cargo +nightly check with /verif/driver as RUSTC_WORKSPACE_WRAPPER)",
            "baseline_off_cmd": BASELINE,
            "source_commits": [],
            "add_only": True,
        },
        "engines": [
            {"name": "mirfacts", "path": "/verif/driver", "serves_properties": sorted(CLAIMS),
             "kind_free_text": "rustc_private fact extractor: type-checked pre-borrowck MIR of every body of every workspace crate unit, resolved callees, ADTs, evaluated constants"},
            {"name": "sa", "path": "/verif/sa", "serves_properties": sorted(CLAIMS),
             "kind_free_text": "static analyser (stdlib Python): CFG/dominators, call graph and field effect sets, value reconstruction, BDD path conditions, interval abstract interpretation, panic reachability, coroutine witnesses, codec/aggregate tables"},
        ],
        "checks": checks,
        "not_applicable": na,
        "notes": "Technique family: static analysis only. Every check re-extracts facts from /repo's current working tree (content-hash cache) and never executes repository code. See DESIGN.md.",
    }
    with open(os.path.join(HERE, "MANIFEST.json"), "w") as f:
        json.dump(m, f, indent=1)
    print("MANIFEST.json: %d checks, %d not_applicable" % (len(checks), len(na)))


if __name__ == "__main__":
    main()
