#!/usr/bin/env python3
"""tools/mkcontrol.py <dir: controls/Cxx | seeded/..> <name> <expect> <about> <repo-relative file> <old> <new> [<file2> <old2> <new2> ...]
Create a unified diff (against /repo's current tree) replacing the first occurrence of <old> by <new>."""
import difflib, os, sys
d, name, expect, about = sys.argv[1:5]
rest = sys.argv[5:]
out = ["# expect: %s" % expect, "# about: %s" % about]
files = {}
order = []
for i in range(0, len(rest), 3):
    f, old, new = rest[i:i+3]
    old = old.encode().decode("unicode_escape") if "\\n" in old else old
    new = new.encode().decode("unicode_escape") if "\\n" in new else new
    if f not in files:
        files[f] = open(os.path.join("/repo", f)).read()
        order.append(f)
    if files[f].count(old) < 1:
        print("old text not found in", f, ":", old[:60]); sys.exit(1)
    files[f] = files[f].replace(old, new, 1)
for f in order:
    src = open(os.path.join("/repo", f)).read()
    diff = difflib.unified_diff(src.splitlines(True), files[f].splitlines(True), "a/" + f, "b/" + f, n=3)
    out.append("".join(diff).rstrip("\n"))
os.makedirs(os.path.join("/verif", d), exist_ok=True)
p = os.path.join("/verif", d, name + ".patch")
open(p, "w").write("\n".join(out) + "\n")
print("wrote", p)
