"""C17 - the weak-link classifier cannot starve a link forever or flap on a blip.

The verdict of one classify() pass for one connected link is a finite decision over a handful of comparisons.  The rule expands the
`(weak, reason)` pushed for a connected link, and the three values written to the per-link history maps, into decision tables over the
atoms of the body (sa/dtable.py) and checks the property's clauses as entailments for every combination of the atoms:

D1 never weak while disconnected / under the 100 kbit/s floor: the two other push sites carry a literal `weak: false`; the third-pass
   push is reached only under `connected` and after the bypass test failed; the bypass test is `total < 100000 | connected == 0`,
   `total` is the sum of max(bitrate, 0) over the connected links of the whole slice; the bypass clears all four history maps;
D2 delay signals need two consecutive ticks: a verdict (true, HighRtt|QueueBuilding) implies signal now & sat(prev_streak + 1) >= 2;
   the stored streak is sat(prev + 1) under a signal and 0 otherwise;
D3 probation: with probation > 0 the verdict is (false, Healthy) and probation' = probation - 1; every share-weak verdict
   (true, LowShare|NoTraffic) counts (streak' = sat(streak+1)) until sat(streak+1) >= 15, which arms probation' = 3 and restarts the count;
   any other verdict restarts the count;
D4 thresholds: (true, LowShare) implies (was_weak & share < 750/n) | (!was_weak & share < 250/n); a previously weak link with no delay /
   traffic reason is released only with share >= 750/n; share = clamp(bps*1000/total, 0, 1000), n = number of connected links;
D5 history plumbing: every connected link's four entries are inserted under its own conn_id, read back under its own conn_id, and the
   four maps replace the filter's maps on the normal exit; was_weak is last pass's *final* verdict;
D6 the shell stamps `conn.weak` from the entry with the same conn_id (default false), in the housekeeping arm only.
"""
from .. import dtable, roles
from ..ctx import CONN, full_slice_element, is_call, is_field, loop_of_element, sname
from ..expr import show, strip_old, walk
from .. import folds
from ..pathcond import PathA, calls_to, field_stores

LEVEL = "other"
W = "srtla_core::selection::classifier::WeakLinkFilter"
CL = W + "::classify"
K = "srtla_core::selection::classifier::"
LC = K + "LinkClassification"
MAPS = ("prev_weak", "delay_weak_streak", "weak_streak", "probation_ticks")


def _pushes(f, fa):
    out = []
    for (bb, t) in f.calls():
        if t["f"].get("path", "").endswith("Vec::<T, A>::push"):
            n = len(f.blocks[bb]["stmts"])
            v = fa.val_operand(t["args"][1], (bb, n))
            if v[0] == "agg" and v[2].startswith(LC):
                out.append((bb, t, dict(zip(v[4], v[3]))))
    return out


def _variant(e):
    if e[0] == "agg" and e[1] == "adt":
        return e[2].rsplit("::", 1)[1]
    return None


class Tables:
    """Decision tables of the third pass, built once per world."""

    def __init__(self, ctx, f):
        self.ok = False
        self.why = ""
        fa0 = ctx.fa(f)
        pushes = _pushes(f, fa0)
        self.pushes = pushes
        pa0 = ctx.pa(f)

        def under_connected(bb, v):
            cid = strip_old(v.get("conn_id", ("x",)))
            if not is_field(cid, "conn_id", CONN):
                return False
            a = pa0.find(lambda a: a == ("field", cid[1], CONN, "connected"))
            return len(a) == 1 and pa0.entails(pa0.pc_block(bb), a[0][1])
        dyn = [(bb, t, v) for (bb, t, v) in pushes if under_connected(bb, v)]
        if len(dyn) != 1:
            self.why = "%d push sites for a connected link" % len(dyn)
            return
        bb, t, v = dyn[0]
        self.site = bb
        link = strip_old(v["conn_id"])[1] if is_field(strip_old(v["conn_id"]), "conn_id", CONN) else None
        if link is None or full_slice_element(link, ("param", 2)) is None:
            self.why = "the verdict is not pushed for the element of a whole-slice loop over `conns`"
            return
        self.link = link
        lp = loop_of_element(f, fa0, link)
        if lp is None or lp["exits"]:
            self.why = "third-pass loop not recognised or has early exits"
            return
        self.lp = lp
        self.pa = pa = PathA(ctx.w, f, entry=lp["some"])
        self.f = f
        body = lp["body"]
        names = f.names

        # locals by role (sa/roles.py): the count of connected links, the share of this link, the maps that replace the history
        self.cc = roles.counter(ctx.w, f, "usize", 0, 1, hint="connected_count")
        self.ctx = ctx
        self.share = None
        for l, loc in enumerate(f.locals):
            if loc["ty"] != "u32":
                continue
            ds = [d for d in pa.fa.defs.get(l, []) if d[2] == "assign"]
            if len(ds) == 2 and all(d[0] in body for d in ds):
                vs = [strip_old(pa.fa.val_rvalue(d[3], (d[0], d[1]))) for d in ds]
                if ("const", 0, "u32") in vs and any(v[0] == "cast" and any(is_call(x, name_contains="clamp") for x in walk(v)) for v in vs):
                    self.share = l if self.share is None else -1
        self.map_local = {}
        for fld in MAPS:
            st = field_stores(f, W, fld)
            if len(st) == 1:
                rv = st[0][2]["rv"]
                src = rv["o"].get("p", {}).get("l") if rv["k"] == "use" and isinstance(rv["o"], dict) and not rv["o"].get("p", {}).get("proj") else None
                if src is not None:
                    self.map_local[fld] = roles._root(f, pa.fa, src)
        share_l = self.share

        def keep(var):
            if all((s == "entry" or s == ("entry",) or s[0] not in body) for s in var[2]):
                return True
            return share_l is not None and var[1] == share_l
        self.keep = keep
        n = len(f.blocks[bb]["stmts"])
        v = dict(zip(*(lambda a: (a[4], a[3]))(pa.fa.val_operand(t["args"][1], (bb, n)))))
        self.pc = pa.pc_block(bb)
        av = {lp["switch"]}
        try:
            self.verdict = dtable.expand(pa, ("agg", "tuple", None, (v["weak"], v["reason"]), ()), self.pc, av, keep)
            self.inserts = {}
            for (ib, it) in f.calls():
                if it["f"].get("path", "").endswith("HashMap::<K, V, S, A>::insert") and ib in body:
                    nn = len(f.blocks[ib]["stmts"])
                    m = pa.fa.val_operand(it["args"][0], (ib, nn))
                    key = pa.fa.val_operand(it["args"][1], (ib, nn))
                    val = pa.fa.val_operand(it["args"][2], (ib, nn))
                    dbg = [s for s in f.blocks[ib]["stmts"]]
                    self.inserts[ib] = {"map": m, "key": key, "val": val, "loc": it.get("loc"), "arg0": it["args"][0],
                                        "rows": dtable.expand(pa, val, pa.pc_block(ib), av, keep), "pc": pa.pc_block(ib)}
        except dtable.NotEvaluable as e:
            self.why = "decision table not evaluable: %s" % e
            return
        self.ok = True

    # named atoms (looked up after expansion so that substituted atoms exist)
    def atom(self, pred):
        r = self.pa.find(pred)
        return r[0][1] if len(r) == 1 else None


def _count_chain(ctx, e):
    """e is `conns.iter().filter(..).count()` over the whole slice (the filter itself is judged by D4:n-is-connected-count)."""
    fo = folds.chain_fold(ctx, e)
    return fo if fo is not None and fo["kind"] == "count" and fo["slice"] == ("param", 2) else None


def _tables_is_count(self, e):
    e = strip_old(e)
    if e[0] == "var":
        return self.cc is not None and e[1] == self.cc
    return _count_chain(self.ctx, e) is not None


Tables.is_count = _tables_is_count


def _hist(mapname, link, default):
    """Predicate: e == self.<map>.get(&link.conn_id).copied().unwrap_or(default)."""
    def p(e):
        e = strip_old(e)
        if not (is_call(e, name_contains="Option::<T>::unwrap_or") and e[2][1] == default):
            return False
        c = strip_old(e[2][0])
        if not is_call(c, name_contains="::copied"):
            return False
        g = strip_old(c[2][0])
        return is_call(g, name_contains="HashMap") and g[1].endswith("::get") and is_field(strip_old(g[2][0]), mapname, W) and strip_old(g[2][0])[1] == ("param", 1) and \
            strip_old(g[2][1]) == ("field", link, CONN, "conn_id")
    return p


def _tables(ctx):
    key = ("C17", ctx.w.uid)
    t = _tables.cache.get(key)
    if t is None:
        f = ctx.w.fn(CL)
        t = Tables(ctx, f) if f is not None else None
        _tables.cache[key] = t
    return t


_tables.cache = {}


def _need(ctx, rule):
    f = ctx.fn(CL, rule)
    if not f:
        return None
    t = _tables(ctx)
    if t is None or not t.ok:
        ctx.chk.missing(rule, "classify: third-pass decision tables", t.why if t else "")
        return None
    return t


def _atoms(t):
    """The named comparisons of one link's verdict; None entries mean 'not found'."""
    pa, link = t.pa, t.link
    b = pa.bdd
    prob = _hist("probation_ticks", link, ("const", 0, "u32"))
    dstr = _hist("delay_weak_streak", link, ("const", 0, "u32"))
    wstr = _hist("weak_streak", link, ("const", 0, "u32"))
    ww = _hist("prev_weak", link, ("const", False, "bool"))

    def sat1(e, h):
        e = strip_old(e)
        return is_call(e, name_contains="saturating_add") and h(e[2][0]) and e[2][1] == ("const", 1, "u32")
    A = {}
    # probation > 0  (extracted as !(probation < 1) or (0 < probation))
    p1 = t.atom(lambda a: a[0] == "bin" and a[1] == "Lt" and prob(a[2]) and a[3] == ("const", 1, "u32"))
    p2 = t.atom(lambda a: a[0] == "bin" and a[1] == "Lt" and a[2] == ("const", 0, "u32") and prob(a[3]))
    p3 = t.atom(lambda a: a[0] == "bin" and a[1] == "Eq" and ("const", 0, "u32") in (a[2], a[3]) and (prob(a[2]) or prob(a[3])))
    A["P"] = b.NOT(p1) if p1 is not None else p2 if p2 is not None else b.NOT(p3) if p3 is not None else None
    rtt = lambda e: e[0] == "cast" and is_call(strip_old(e[2]), stable=CONN + "::get_smooth_rtt_ms") and strip_old(e[2])[2][0] == link
    A["H"] = t.atom(lambda a: a[0] == "bin" and a[1] == "Lt" and is_call(strip_old(a[2]), stable=K + "pick_tier") and rtt(a[3]))
    A["Q"] = t.atom(lambda a: is_call(a, stable=CONN + "::queue_building_suspected") and a[2][0] == link)
    s2 = t.atom(lambda a: a[0] == "bin" and a[1] == "Lt" and sat1(a[2], dstr) and a[3] == ("const", 2, "u32"))
    A["S2"] = b.NOT(s2) if s2 is not None else None
    bps = lambda e: is_call(strip_old(e), name_contains="f64") and strip_old(e)[1].endswith("::max") and is_field(strip_old(strip_old(e)[2][0]), "current_bitrate_bps") and \
        any(x == link for x in walk(strip_old(e)[2][0])) and strip_old(e)[2][1] == ("const", 0.0, "f64")
    A["Z"] = t.atom(lambda a: a[0] == "bin" and a[1] == "Eq" and ((bps(a[2]) and a[3] == ("const", 0.0, "f64")) or (bps(a[3]) and a[2] == ("const", 0.0, "f64"))))
    A["WW"] = t.atom(lambda a: ww(a))

    def thr(e, k):
        # ((k / (connected_count as u64)) as u32)
        e = strip_old(e)
        if e[0] != "cast":
            return False
        d = strip_old(e[2])
        return d[0] == "bin" and d[1] == "Div" and d[2] == ("const", k, "u64") and d[3][0] == "cast" and t.is_count(d[3][2])
    share = lambda e: e[0] == "var" and t.share is not None and e[1] == t.share
    A["SL"] = t.atom(lambda a: a[0] == "bin" and a[1] == "Lt" and share(a[2]) and thr(a[3], 750))
    A["SE"] = t.atom(lambda a: a[0] == "bin" and a[1] == "Lt" and share(a[2]) and thr(a[3], 250))
    s15 = t.atom(lambda a: a[0] == "bin" and a[1] == "Lt" and sat1(a[2], wstr) and a[3] == ("const", 15, "u32"))
    A["S15"] = b.NOT(s15) if s15 is not None else None
    A["C"] = t.atom(lambda a: a == ("field", link, CONN, "connected"))
    t.preds = {"prob": prob, "dstr": dstr, "wstr": wstr, "ww": ww, "sat1": sat1}
    return A


class Sem:
    """Missing comparisons are read conservatively: as a conclusion a missing fact is never established (FALSE, also negated);
    as an assumption it is dropped (TRUE)."""

    def __init__(self, t):
        if not hasattr(t, "A"):
            t.A = _atoms(t)
        self.A = t.A
        self.b = t.pa.bdd

    def must(self, n):
        return self.A[n] if self.A.get(n) is not None else self.b.FALSE

    def must_not(self, n):
        return self.b.NOT(self.A[n]) if self.A.get(n) is not None else self.b.FALSE

    def given(self, n):
        return self.A[n] if self.A.get(n) is not None else self.b.TRUE

    def given_not(self, n):
        return self.b.NOT(self.A[n]) if self.A.get(n) is not None else self.b.TRUE

    def missing(self, names):
        return [n for n in names if self.A.get(n) is None]


def _get_atoms(ctx, rule, t, names):
    if not hasattr(t, "A"):
        t.A = _atoms(t)
    miss = [n for n in names if t.A.get(n) is None]
    if miss:
        ctx.chk.missing(rule, "classify: comparison(s) %s" % ", ".join(miss), "named atoms of the verdict cascade not found in the extracted path conditions")
        return None
    return t.A


def d1_never_weak_when_disconnected_or_idle(ctx):
    f = ctx.fn(CL, "D1")
    if not f:
        return
    t = _tables(ctx)
    fa = ctx.fa(f)
    pushes = _pushes(f, fa)
    ctx.chk.floor("D1", "LinkClassification push sites", len(pushes), 3)
    ctx.WHO_CALLS("D1", CL, {x.stable for x in ctx.w.fns.values() if x.stable.startswith("srtla_send::sender::run_sender_with_config")}, floor=1)
    # who else builds a LinkClassification?
    builders = set()
    for g in ctx.w.fns.values():
        if "::tests" in g.stable:
            continue
        for bi, blk in enumerate(g.blocks):
            for s in blk["stmts"]:
                if s["k"] == "assign" and s["rv"]["k"] == "agg" and s["rv"].get("adt") == LC:
                    builders.add(g.stable)
    ctx.chk.ob("D1", "verdicts are built only by classify (and its derived Clone)", builders <= {CL, "<" + LC + " as core::clone::Clone>::clone"} or
               all(b == CL or "Clone" in b or "clone" in b for b in builders), "%s" % sorted(builders), key="D1:verdict-builders")
    pa = ctx.pa(f)
    b = pa.bdd
    if t is None or not t.ok:
        ctx.chk.missing("D1", "classify: third-pass decision tables", t.why if t else "")
        return
    conn = pa.find(lambda a: is_field(a, "connected", CONN))
    for (bb, tt, v) in pushes:
        if bb == t.site:
            continue
        ok = v.get("weak") == ("const", False, "bool")
        ctx.chk.ob("D1", "push outside the verdict cascade reports weak = false (literal)", ok, "weak: %s" % show(v.get("weak"), f.names), key="D1:literal-not-weak", loc=tt.get("loc"))
    # the verdict push needs `connected`
    C = t.atom(lambda a: a == ("field", t.link, CONN, "connected"))
    ok = C is not None and t.pa.entails(t.pc, C)
    ctx.chk.ob("D1", "a computed verdict is pushed only for a connected link", ok, "per iteration: %s" % t.pa.show(t.pc)[:200], key="D1:verdict-needs-connected")
    # ... and the bypass test failed (whole-function PC)
    floor = pa.find(lambda a: a[0] == "bin" and a[1] == "Lt" and a[3] == ("const", 100000.0, "f64") and
                    ((a[2][0] == "var" and f.locals[a[2][1]]["ty"] == "f64") or folds.chain_fold(ctx, a[2]) is not None))
    none = pa.find(lambda a: a[0] == "bin" and a[1] == "Eq" and ("const", 0, "usize") in (a[2], a[3]) and any(t.is_count(x) for x in (a[2], a[3]) if x[0] != "const"))
    if len(floor) != 1 or len(none) != 1:
        ctx.chk.missing("D1", "classify: bypass test (<f64 sum> < 100000.0, <count of connected links> == 0)", "%d / %d" % (len(floor), len(none)))
    else:
        pcs = pa.pc_block(t.site)
        ok = pa.entails(pcs, b.AND(b.NOT(floor[0][1]), b.NOT(none[0][1])))
        ctx.chk.ob("D1", "a computed verdict is pushed only when total throughput >= 100 kbit/s and some link is connected", ok, "", key="D1:verdict-needs-floor")
        # the total: sum over connected links of the whole slice of max(bitrate, 0)
        tv = floor[0][0][2]
        chain = folds.chain_fold(ctx, tv) if tv[0] != "var" else None
        if chain is not None:
            # iterator-chain form of the same sum
            tm = chain["term"]
            okt = chain["kind"] == "sum" and chain["slice"] == ("param", 2) and folds.filters_equal_field(ctx, chain, CONN, "connected") and \
                is_call(tm, name_contains="f64") and tm[1].endswith("::max") and tm[2][1] == ("const", 0.0, "f64") and \
                is_field(tm[2][0], "current_bitrate_bps") and any(x == folds.ELEM for x in walk(tm[2][0]))
            adds = 1
            tv = ("var", -1, ())
        defs = dict(((d[0], d[1]), d) for d in pa.fa.defs.get(tv[1], []))
        if chain is None:
            okt = len(tv[2]) == 2
            adds = 0
        for site in tv[2]:
            d = defs.get(tuple(site))
            if d is None or d[2] != "assign":
                okt = False
                continue
            val = pa.fa.val_rvalue(d[3], (d[0], d[1]))
            if val == ("const", 0.0, "f64"):
                continue
            adds += 1
            mx = [x for x in walk(val) if is_call(x, name_contains="f64") and x[1].endswith("::max")]
            okv = val[0] == "bin" and val[1] == "Add" and len(mx) == 1 and mx[0][2][1] == ("const", 0.0, "f64") and is_field(strip_old(mx[0][2][0]), "current_bitrate_bps")
            lk = None
            if okv:
                x = strip_old(mx[0][2][0])
                while x[0] == "field" and not (x[2] == CONN and x[3] == "bitrate"):
                    x = x[1]
                lk = x[1] if x[0] == "field" else None
                okv = lk is not None and full_slice_element(lk, ("param", 2)) is not None
            if okv:
                lp = loop_of_element(f, pa.fa, lk)
                okv = lp is not None and not lp["exits"]
                if okv:
                    pa2 = PathA(ctx.w, f, entry=lp["some"])
                    cc = pa2.find(lambda a: a == ("field", lk, CONN, "connected"))
                    okv = len(cc) == 1 and pa2.equivalent(pa2.pc_at(d[0], d[1]), cc[0][1])
            okt = okt and okv
        ctx.chk.ob("D1", "the floor is tested on the sum of max(bitrate, 0) over exactly the connected links of the whole slice", okt and adds == 1, "", key="D1:total-is-connected-sum")
    # bypass clears all four maps and returns
    cl = [(bb, tt) for (bb, tt) in f.calls() if tt["f"].get("path", "").endswith("HashMap::<K, V, S, A>::clear")]
    cleared = set()
    cfg = ctx.cfg(f)
    for (bb, tt) in cl:
        m = strip_old(fa.val_operand(tt["args"][0], (bb, len(f.blocks[bb]["stmts"]))))
        if m[0] == "field" and m[2] == W and m[1] == ("param", 1) and not cfg.can_reach(bb, t.site):
            cleared.add(m[3])
    byp = [bb for (bb, tt, v) in pushes if _variant(v.get("reason", ("x",))) == "Bypassed"]
    ok = cleared == set(MAPS) and len(byp) == 1
    if ok:
        # every return that avoids the third pass passes all four clears
        third = t.lp["head"]
        for (bb, tt) in cl:
            if cfg.returns_reachable_avoiding({bb, third}):
                ok = False
    ctx.chk.ob("D1", "the bypass path clears all four history maps before returning", ok, "cleared %s" % sorted(cleared), key="D1:bypass-clears-history")


def d2_delay_needs_two_ticks(ctx):
    ctx.CONST("D2", K + "WEAK_SUSTAIN_TICKS", 2)
    t = _need(ctx, "D2")
    if not t:
        return
    S = Sem(t)
    pa = t.pa
    b = pa.bdd
    n = 0
    for (c, x) in t.verdict:
        weak, reason = x[3]
        if weak == ("const", False, "bool"):
            continue
        r = _variant(reason)
        if r in ("LowShare", "NoTraffic"):
            continue
        n += 1
        need = b.AND(S.must("S2"), b.OR(S.must("H"), S.must("Q")))
        if r == "HighRtt":
            need = b.AND(S.must("S2"), S.must("H"))
        ok = r in ("HighRtt", "QueueBuilding") and weak == ("const", True, "bool") and pa.entails(c, need)
        ctx.chk.ob("D2", "verdict (weak, %s) only with the delay signal present now and a streak of >= 2 ticks" % (r or show(reason, t.f.names)[:40]), ok,
                   "under %s%s" % (pa.show(c, 4)[:300], (" (comparisons not found: %s)" % S.missing(("S2", "H", "Q"))) if S.missing(("S2", "H", "Q")) else ""),
                   key="D2:delay-verdict-needs-streak:%s" % (r or "computed"))
    ctx.chk.floor("D2", "delay verdict rows", n, 2)
    # stored streak
    ins = [i for i in t.inserts.values() if _is_local_map(t, i, "delay_weak_streak")]
    if len(ins) != 1:
        ctx.chk.missing("D2", "classify: insert into the map that becomes self.delay_weak_streak", "%d" % len(ins))
        return
    sig = b.OR(S.must("H"), S.must("Q"))
    nosig = b.AND(S.must_not("H"), S.must_not("Q"))
    ok = True
    det = []
    for (c, v) in ins[0]["rows"]:
        if t.preds["sat1"](v, t.preds["dstr"]):
            ok = ok and pa.entails(c, sig)
        elif v == ("const", 0, "u32"):
            ok = ok and pa.entails(c, nosig)
        else:
            ok = False
        det.append("%s <= %s" % (show(v, t.f.names)[:60], pa.show(c, 3)[:120]))
    ok = ok and len(ins[0]["rows"]) >= 2
    ctx.chk.ob("D2", "stored delay streak = sat(previous + 1) while a delay signal is present, 0 the moment it clears", ok, " ; ".join(det)[:400], key="D2:delay-streak-update", loc=ins[0]["loc"])


def _is_local_map(t, ins, fld):
    """The insert goes into the local map that replaces self.<fld> on the normal exit."""
    a = ins["arg0"]
    f = t.f
    want = t.map_local.get(fld)
    if want is None:
        return False
    l = a.get("p", {}).get("l") if isinstance(a, dict) else None
    seen = 0
    while l is not None and seen < 4:
        if l == want:
            return True
        ds = t.pa.fa.defs.get(l, [])
        if len(ds) != 1 or ds[0][2] != "assign" or ds[0][3]["k"] not in ("ref", "use"):
            return False
        rv = ds[0][3]
        l = rv["p"]["l"] if rv["k"] == "ref" else (rv["o"].get("p", {}).get("l") if isinstance(rv["o"], dict) else None)
        seen += 1
    return False


def _insert_for(ctx, rule, t, fld):
    ins = [i for i in t.inserts.values() if _is_local_map(t, i, fld)]
    if len(ins) != 1:
        ctx.chk.missing(rule, "classify: insert into the map that becomes self.%s" % fld, "%d" % len(ins))
        return None
    return ins[0]


def d3_probation(ctx):
    ctx.CONST("D3", K + "PROBATION_INTERVAL_TICKS", 15)
    ctx.CONST("D3", K + "PROBATION_WINDOW_TICKS", 3)
    t = _need(ctx, "D3")
    if not t:
        return
    A = _get_atoms(ctx, "D3", t, ("P", "S15"))
    if not A:
        return
    pa = t.pa
    b = pa.bdd
    P = A["P"]
    # verdict under probation
    bad = [(c, x) for (c, x) in t.verdict if pa.sat(b.AND(c, P)) and not (x[3][0] == ("const", False, "bool") and _variant(x[3][1]) == "Healthy")]
    ctx.chk.ob("D3", "while probation > 0 the verdict is (false, Healthy)", not bad, "; ".join("%s under %s" % (show(x, t.f.names)[:50], pa.show(b.AND(c, P), 2)[:120]) for c, x in bad[:2]),
               key="D3:probation-forces-not-weak")
    sw = b.FALSE     # final verdict is share-weak
    for (c, x) in t.verdict:
        if x[3][0] == ("const", True, "bool") and _variant(x[3][1]) in ("LowShare", "NoTraffic"):
            sw = b.OR(sw, c)
        elif x[3][0] != ("const", False, "bool") and _variant(x[3][1]) not in ("HighRtt", "QueueBuilding"):
            ctx.chk.ob("D3", "verdict rows are literal", False, show(x, t.f.names)[:80], key="D3:verdict-literal")
    ctx.chk.ob("D3", "some path reports a share-weak verdict (LowShare / NoTraffic)", sw != b.FALSE, "", key="D3:share-weak-exists", nontrivial=False)
    pi = _insert_for(ctx, "D3", t, "probation_ticks")
    si = _insert_for(ctx, "D3", t, "weak_streak")
    if not pi or not si:
        return
    prob, wstr, sat1 = t.preds["prob"], t.preds["wstr"], t.preds["sat1"]
    # probation'
    ok_dec = ok_arm = ok_else = True
    seen_dec = seen_arm = False
    for (c, v) in pi["rows"]:
        v = strip_old(v)
        if pa.sat(b.AND(c, P)):
            # inside the window: decrement by exactly one
            good = v[0] == "bin" and v[1] == "Sub" and prob(v[2]) and v[3] == ("const", 1, "u32") and pa.entails(c, P)
            ok_dec = ok_dec and good
            seen_dec = seen_dec or good
        elif pa.sat(b.AND(c, b.AND(sw, A["S15"]))):
            good = v == ("const", 3, "u32") and pa.entails(c, b.AND(sw, A["S15"]))
            ok_arm = ok_arm and good
            seen_arm = seen_arm or good
        else:
            ok_else = ok_else and (prob(v) or v == ("const", 0, "u32"))
    ctx.chk.ob("D3", "inside the window probation' = probation - 1", ok_dec and seen_dec, "", key="D3:window-counts-down", loc=pi["loc"])
    ctx.chk.ob("D3", "the 15th consecutive share-weak verdict arms probation' = 3 (and nothing else does)", ok_arm and seen_arm, "", key="D3:arm-after-15", loc=pi["loc"])
    ctx.chk.ob("D3", "otherwise probation is carried unchanged (0)", ok_else, "", key="D3:probation-carried", loc=pi["loc"])
    # the arming condition is total: every share-weak verdict with sat(streak+1) >= 15 arms
    armed = b.FALSE
    for (c, v) in pi["rows"]:
        if strip_old(v) == ("const", 3, "u32"):
            armed = b.OR(armed, c)
    ok = pa.entails(b.AND(pi["pc"], b.AND(sw, A["S15"])), armed)
    ctx.chk.ob("D3", "every share-weak verdict whose count reaches 15 arms the window", ok, "", key="D3:arm-is-mandatory", loc=pi["loc"])
    # streak'
    ok_cnt = ok_zero = True
    seen_cnt = False
    for (c, v) in si["rows"]:
        v = strip_old(v)
        cnt = b.AND(sw, b.NOT(A["S15"]))
        if pa.sat(b.AND(c, cnt)):
            good = sat1(v, wstr) and pa.entails(c, cnt)
            ok_cnt = ok_cnt and good
            seen_cnt = seen_cnt or good
        else:
            ok_zero = ok_zero and v == ("const", 0, "u32")
    ctx.chk.ob("D3", "every share-weak verdict below the limit is counted: streak' = sat(streak + 1)", ok_cnt and seen_cnt, "", key="D3:share-weak-counted", loc=si["loc"])
    ctx.chk.ob("D3", "any other verdict (not weak, delay-weak, probation, arming) restarts the count at 0", ok_zero, "", key="D3:count-restarts", loc=si["loc"])


def d4_thresholds(ctx):
    ctx.CONST("D4", K + "ENTER_FAIR_SHARE_NUMERATOR", 250)
    ctx.CONST("D4", K + "LEAVE_FAIR_SHARE_NUMERATOR", 750)
    t = _need(ctx, "D4")
    if not t:
        return
    S = Sem(t)
    pa = t.pa
    b = pa.bdd
    miss = S.missing(("P", "Z", "WW", "SL", "SE"))
    note = (" (comparisons not found: %s)" % miss) if miss else ""
    low = b.OR(b.AND(S.must("WW"), S.must("SL")), b.AND(S.must_not("WW"), S.must("SE")))
    n = 0
    for (c, x) in t.verdict:
        weak, reason = x[3]
        r = _variant(reason)
        if weak == ("const", True, "bool") and r == "LowShare":
            n += 1
            ctx.chk.ob("D4", "(weak, LowShare) needs share < 250/n to enter, share < 750/n to stay", pa.entails(c, low), "under %s%s" % (pa.show(c, 3)[:300], note), key="D4:low-share-thresholds")
        if weak == ("const", True, "bool") and r == "NoTraffic":
            ctx.chk.ob("D4", "(weak, NoTraffic) needs a zero bitrate", pa.entails(c, S.must("Z")), "under %s%s" % (pa.show(c, 3)[:300], note), key="D4:no-traffic-needs-zero")
        if weak == ("const", False, "bool"):
            # released / not entered: outside probation, a previously weak link is not weak only with share >= 750/n
            ok1 = pa.entails(b.AND(c, b.AND(S.given_not("P"), S.given("WW"))), S.must_not("SL"))
            ok2 = pa.entails(b.AND(c, b.AND(S.given_not("P"), S.given_not("WW"))), S.must_not("SE"))
            ctx.chk.ob("D4", "outside probation a previously weak link is released only with share >= 750/n", ok1, note, key="D4:leave-needs-three-quarters")
            ctx.chk.ob("D4", "outside probation a link with share < 250/n is not reported healthy", ok2, note, key="D4:enter-below-quarter")
    ctx.chk.floor("D4", "LowShare verdict rows", n, 1)
    # share value
    sh = [x for a in pa.bdd.vars for x in walk(a) if x[0] == "var" and t.share is not None and x[1] == t.share]
    ok = False
    if sh:
        rows = dtable.def_rows(pa, sh[0], {t.lp["switch"]})
        ok = len(rows) == 2
        for (dp, v, c) in rows:
            v = strip_old(v)
            if v == ("const", 0, "u32"):
                continue
            cl = [x for x in walk(v) if is_call(x, name_contains="clamp")]
            good = v[0] == "cast" and len(cl) == 1 and cl[0][2][1] == ("const", 0.0, "f64") and cl[0][2][2] == ("const", 1000.0, "f64")
            if good:
                q = strip_old(cl[0][2][0])
                good = q[0] == "bin" and q[1] == "Div" and _is_total_expr(ctx, t, q[3]) and \
                    strip_old(q[2])[0] == "bin" and strip_old(q[2])[1] == "Mul" and ("const", 1000.0, "f64") in (strip_old(q[2])[2], strip_old(q[2])[3]) and \
                    any(is_field(y, "current_bitrate_bps") and any(z == t.link for z in walk(y)) for y in walk(q[2]))
            ok = ok and good
    ctx.chk.ob("D4", "share = clamp(bitrate * 1000 / total, 0, 1000) of this link", ok, "", key="D4:share-formula")
    # n = connected_count: incremented once per connected link of the whole slice
    f = t.f
    fa = t.pa.fa
    ccl = [t.cc] if t.cc is not None else []
    okn = False
    if len(ccl) == 1:
        ds = fa.defs.get(ccl[0], [])
        vals = []
        for d in ds:
            if d[2] == "assign":
                vals.append((d, fa.val_rvalue(d[3], (d[0], d[1]))))
        zero = [d for d, v in vals if v == ("const", 0, "usize")]
        inc = [(d, v) for d, v in vals if v[0] == "bin" and v[1] == "Add" and ("const", 1, "usize") in (v[2], v[3])]
        okn = len(vals) == 2 and len(zero) == 1 and len(inc) == 1
        if okn:
            d = inc[0][0]
            # inside a whole-slice loop, exactly under `connected`
            heads = [h for h in ctx.cfg(f).loop_heads() if d[0] in ctx.cfg(f).loop_body(h)]
            okn = len(heads) == 1
            if okn:
                pa0 = ctx.pa(f)
                cs = [a for a in pa0.atoms_of(pa0.pc_at(d[0], d[1])) if is_field(a, "connected", CONN)]
                okn = len(cs) == 1 and full_slice_element(cs[0][1], ("param", 2)) is not None
                if okn:
                    lp = loop_of_element(f, fa, cs[0][1])
                    pa2 = PathA(ctx.w, f, entry=lp["some"]) if lp and not lp["exits"] else None
                    okn = pa2 is not None and pa2.equivalent(pa2.pc_at(d[0], d[1]), pa2.atom(cs[0]))
    if not ccl:
        # iterator-chain form: every count the thresholds / the bypass test use is conns.iter().filter(|c| c.connected).count()
        chains = []
        for a in list(pa.bdd.vars) + list(ctx.pa(f).bdd.vars):
            for x in walk(a):
                fo = _count_chain(ctx, x) if isinstance(x, tuple) and x and x[0] == "call" else None
                if fo is not None:
                    chains.append(fo)
        okn = bool(chains) and all(folds.filters_equal_field(ctx, fo, CONN, "connected") for fo in chains)
    ctx.chk.ob("D4", "n counts exactly the connected links of the whole slice", okn, "", key="D4:n-is-connected-count")


def _is_total_expr(ctx, t, e):
    """e is the total that the bypass test compares with the floor: the accumulator local, or the same iterator chain."""
    e = strip_old(e)
    if e[0] == "var":
        return t.f.locals[e[1]]["ty"] == "f64" and _is_total(ctx, t, e[1])
    pa0 = ctx.pa(t.f)
    return folds.chain_fold(ctx, e) is not None and bool(pa0.find(lambda a: a[0] == "bin" and a[1] == "Lt" and strip_old(a[2]) == e and a[3] == ("const", 100000.0, "f64")))


def _is_total(ctx, t, l):
    """l is the f64 sum that the bypass test compares with the 100 kbit/s floor."""
    pa0 = ctx.pa(t.f)
    return bool(pa0.find(lambda a: a[0] == "bin" and a[1] == "Lt" and a[2][0] == "var" and a[2][1] == l and a[3] == ("const", 100000.0, "f64")))


def d5_history_plumbing(ctx):
    t = _need(ctx, "D5")
    if not t:
        return
    f, pa = t.f, t.pa
    A = _get_atoms(ctx, "D5", t, ("C",))
    if not A:
        return
    pairs = tuple((fld, fld) for fld in MAPS)
    fa0 = ctx.fa(f)
    cfg = ctx.cfg(f)
    for loc_name, fld in pairs:
        if fld not in t.map_local:
            ctx.chk.ob("D5", "self.%s is replaced, on the normal exit, by the map this pass filled" % fld, False, "no whole-map store to self.%s" % fld, key="D5:map-replaced:%s" % fld)
            continue
        ins = _insert_for(ctx, "D5", t, loc_name)
        if not ins:
            continue
        okk = strip_old(ins["key"]) == ("field", t.link, CONN, "conn_id")
        okp = pa.equivalent(ins["pc"], A["C"])
        ctx.chk.ob("D5", "every connected link gets a %s entry under its own conn_id" % fld, okk and okp, "key %s, per iteration %s" % (show(ins["key"], f.names)[:80], pa.show(ins["pc"])[:120]),
                   key="D5:entry-per-connected-link:%s" % fld, loc=ins["loc"])
        st = field_stores(f, W, fld)
        oks = len(st) == 1
        if oks:
            bb, si, s = st[0]
            rv = s["rv"]
            src = rv["o"].get("p", {}).get("l") if rv["k"] == "use" and isinstance(rv["o"], dict) else None
            src = roles._root(f, fa0, src) if src is not None else None
            oks = src is not None and src == t.map_local.get(fld) and cfg.dominates(t.lp["none"], bb) and not cfg.returns_reachable_avoiding({bb}, start=t.lp["none"])
        ctx.chk.ob("D5", "self.%s is replaced, on the normal exit, by the map this pass filled" % fld, oks, "", key="D5:map-replaced:%s" % fld)
        ctx.WHO_WRITES("D5", W, fld, {CL}, floor=1, allow_agg_in={"<" + W + " as core::default::Default>::default"})
    # was_weak is the final verdict of the previous pass
    ins = _insert_for(ctx, "D5", t, "prev_weak")
    if ins:
        dyn = [(bb, tt, v) for (bb, tt, v) in t.pushes if bb == t.site][0]
        n = len(f.blocks[t.site]["stmts"])
        pushed = dict(zip(*(lambda a: (a[4], a[3]))(pa.fa.val_operand(dyn[1]["args"][1], (t.site, n)))))["weak"]
        ctx.chk.ob("D5", "the remembered weak flag is the verdict that was reported", strip_old(ins["val"]) == strip_old(pushed),
                   "%s vs %s" % (show(ins["val"], f.names)[:60], show(pushed, f.names)[:60]), key="D5:remembered-is-reported", loc=ins["loc"])


def d6_stamp(ctx):
    run = [f for f in ctx.w.fns.values() if f.stable.startswith("srtla_send::sender::run_sender_with_config") and f.kind == "coroutine" and field_stores(f, CONN, "weak")]
    ws = sorted(set(a.fn.stable for a in ctx.eff.writers_of(CONN, "weak", ("store", "callstore", "mutborrow"))))
    ok = len(run) == 1 and ws == [run[0].stable]
    ctx.chk.ob("D6", "connection.weak is written by the housekeeping arm only", ok, "%s" % ws, key="D6:weak-writer")
    if len(run) != 1:
        return
    f = run[0]
    fa = ctx.fa(f)
    st = field_stores(f, CONN, "weak")
    ok = len(st) == 1
    stage = ""
    if ok:
        bb, si, s = st[0]
        v = strip_old(fa.val_rvalue(s["rv"], (bb, si)))
        dst = fa.val_place(s["p"], (bb, si))
        link = dst[1] if dst[0] == "field" else None
        okv = is_call(v, name_contains="Option::<T>::unwrap_or") and v[2][1] == ("const", False, "bool")
        mp = strip_old(v[2][0]) if okv else None
        okv = okv and is_call(mp, name_contains="Option::<T>::map")
        fd = strip_old(mp[2][0]) if okv else None
        okv = okv and is_call(fd, name_contains="::find")
        if okv:
            mcl = mp[2][1]
            fcl = fd[2][1]
            mf = ctx.w.fns.get(mcl[2]) if mcl[0] == "agg" else None
            ff = ctx.w.fns.get(fcl[2]) if fcl[0] == "agg" else None
            okv = mf is not None and ff is not None
            if okv:
                mfa = ctx.fa(mf)
                r = ctx.cfg(mf).returns
                okv = len(r) == 1 and is_field(strip_old(mfa.val_local(0, (r[0], len(mf.blocks[r[0]]["stmts"])))), "weak", LC)
                fpa = ctx.pa(ff)
                fpa.ret_true()
                eq = fpa.find(lambda a: a[0] == "bin" and a[1] == "Eq" and any(is_field(x, "conn_id", LC) for x in (a[2], a[3])) and any(is_field(x, "conn_id", CONN) or x[0] == "upvar" for x in (a[2], a[3])))
                stage0 = "map closure %s, %d eq atoms" % (okv, len(eq))
                okv = okv and len(eq) == 1 and fpa.equivalent(fpa.ret_true(), eq[0][1])
                # the captured id is this link's
                cap = fcl[3][0] if fcl[3] else None
                okv = okv and cap is not None and any(strip_old(x) == strip_old(link) for x in walk(cap))
                stage = stage0 + " captured id %s" % okv
                okv = okv and any(is_field(x, "per_link") and any(is_call(y, stable=CL) for y in walk(x)) for x in walk(fd[2][0]))
        ok = okv and link is not None and full_slice_element(link) is not None
    ctx.chk.ob("D6", "conn.weak := the weak flag of this pass's entry with the same conn_id (false if absent), for every link", ok, stage, key="D6:stamp-source")


RULES = [d1_never_weak_when_disconnected_or_idle, d2_delay_needs_two_ticks, d3_probation, d4_thresholds, d5_history_plumbing, d6_stamp]


def run(ctx):
    ctx.chk.not_decided = ["multi-tick consequences (a 3-tick window after at most 15 verdicts; no flapping over a history) follow from D2/D3/D5 by induction over ticks with the invariant "
                           "weak_streak <= 14 and probation <= 3; the induction is stated, the single-step tables are decided",
                           "float arithmetic of the share (rounding) and of the tier cascade"]
    ctx.run_rules(RULES, core_only=())
