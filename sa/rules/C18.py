"""C18 - the runtime control protocol is total, well-formed and takes effect.

D1 panic-freedom of dispatch, dispatch_async, Response::to_json, SharedStats::{get,to_json};
D2 error-code sites: the constants, and which body constructs which code under which condition;
D3 one response iff id: when the dispatcher returns None; how every Response is built (version, exactly one of result/error, id source);
   the method is applied before the notification test;
D4 clamp and echo: every value that reaches the conn_timeout atomic lies in [1000, 60000]; the setter returns what it stored and the handler echoes it;
D5 takes effect: setter -> atomic field -> snapshot() field -> get_status key, same field all along;
D6 the stdin and socket entry points agree (same pre-checks, same codes, same handle_method call for non-subscription methods).
"""
from ..absint import AbsInt, Entry, Num
from ..ctx import bool_branches, is_call, is_field, result_arms, sname, some_of
from ..expr import show, strip_old, walk
from ..pathcond import PathA, calls_to
from . import panicfree

LEVEL = "other"
C = "srtla_send::control::"
DC = "srtla_send::config::DynamicConfig"
SNAP = "srtla_core::config_snapshot::ConfigSnapshot"
INNER = C + "dispatch_inner"
ASYNC = C + "dispatch_async::{closure#0}"
HM = C + "handle_method"
EO = C + "ErrorObject"
RESP = C + "Response"
CODES = {"PARSE_ERROR": -32700, "INVALID_REQUEST": -32600, "METHOD_NOT_FOUND": -32601, "INVALID_PARAMS": -32602, "INTERNAL_ERROR": -32603}


def d1_total(ctx):
    panicfree.panic_free(ctx, "D1", [C + "dispatch", ASYNC, RESP + "::to_json", "srtla_send::stats::SharedStats::to_json", "srtla_send::stats::SharedStats::get"],
                         what=" (control dispatch and serialisation)")


def _error_sites(ctx, fn):
    """[(code, bb, loc, how)] of ErrorObject constructions in fn (struct literal or ErrorObject::new)."""
    fa = ctx.fa(fn)
    out = []
    for bi, blk in enumerate(fn.blocks):
        if blk["cleanup"]:
            continue
        for si, s in enumerate(blk["stmts"]):
            if s["k"] == "assign" and s["rv"]["k"] == "agg" and s["rv"].get("adt") == EO:
                v = fa.val_rvalue(s["rv"], (bi, si))
                code = dict(zip(v[4], v[3])).get("code")
                out.append((code[1] if code and code[0] == "const" else None, bi, s.get("loc"), "literal"))
        t = blk["term"]
        if t["k"] == "call" and t["f"].get("stable") == EO + "::new":
            c = fa.val_operand(t["args"][0], (bi, len(blk["stmts"])))
            out.append((c[1] if c[0] == "const" else None, bi, t.get("loc"), "new"))
    return out


def d2_error_codes(ctx):
    for n, v in CODES.items():
        ctx.CONST("D2", C + n, v)
    eff = ctx.eff
    entry = [ctx.w.fn(INNER), ctx.w.fn(ASYNC)]
    if not all(entry):
        ctx.chk.missing("D2", "dispatch_inner / dispatch_async", "")
        return
    reach = set()
    for e in entry:
        reach |= eff.reachable(e.id)
    table = {}
    for fid in sorted(reach):
        f = ctx.w.fns[fid]
        if not f.stable.startswith(C) or f.stable == EO + "::new":
            continue
        for (code, bb, loc, how) in _error_sites(ctx, f):
            table.setdefault(f.stable, []).append(code)
    ctx.chk.floor("D2", "bodies constructing error objects", len(table), 8)
    # which body may construct which code
    for st, codes in sorted(table.items()):
        base = st.split("::{closure")[0]
        if st in (INNER, ASYNC):
            want = {-32700}
        elif base in (INNER, C + "dispatch_async") and "{closure" in st:
            want = {-32600}
        elif st == HM:
            want = {-32601}
        elif base == HM:
            want = {-32602, -32603}
        elif base == C + "parse_mode":
            want = {-32602}
        elif base in (C + "handle_subscribe", C + "handle_unsubscribe"):
            want = {-32602}
        else:
            want = set()
        ok = set(codes) <= want and None not in codes
        ctx.chk.ob("D2", "%s constructs only %s" % (sname(st), sorted(want)), ok, "constructs %s" % sorted(codes, key=repr), key="D2:codes-by-body:%s" % st)
    # conditions
    for e in entry:
        pa = ctx.pa(e)
        fa = pa.fa
        arms = result_arms(e, fa, lambda x: is_call(strip_old(x), name_contains="serde_json::from_str") or
                           (strip_old(x)[0] == "call" and "from_str" in strip_old(x)[1]))
        err_blocks = [a["Err"] for (sb, a) in arms if "Err" in a]
        cfg = ctx.cfg(e)
        for (code, bb, loc, how) in _error_sites(ctx, e):
            if code == -32700:
                ok = any(cfg.dominates(eb, bb) for eb in err_blocks)
                ctx.chk.ob("D2", "%s: -32700 only on the parse-failure arm" % sname(e.stable), ok, "Err arms %s, site bb%d" % (err_blocks, bb), key="D2:parse-error-site:%s" % e.stable, loc=loc)
        # version: the INVALID_REQUEST closure is used only under jsonrpc != "2.0"
        maps = [(bb, t) for (bb, t) in e.calls() if t["f"].get("path", "").endswith("Option::<T>::map") and
                any(x[0] == "agg" and x[1] == "closure" and x[2] in ctx.w.fns and -32600 in [c for (c, _b, _l, _h) in _error_sites(ctx, ctx.w.fns[x[2]])]
                    for x in walk(fa.val_operand(t["args"][1], (bb, len(e.blocks[bb]["stmts"])))))]
        ne = bool_branches(e, fa, lambda v: is_call(v, name_contains="PartialEq") and any(is_field(x, "jsonrpc") for x in walk(v)) and
                           any(x[0] == "const" and x[1] == "2.0" for x in walk(v)))
        ok = len(maps) == 1 and len(ne) == 1
        if ok:
            sb, tt, ff = ne[0]
            v = fa.val_operand(e.blocks[sb]["term"]["d"], (sb, len(e.blocks[sb]["stmts"])))
            while v[0] == "not":
                v = v[1]
            wrong = tt if v[1].endswith("::ne") else ff
            ok = cfg.dominates(wrong, maps[0][0])
        ctx.chk.ob("D2", "%s: -32600 only when jsonrpc != \"2.0\"" % sname(e.stable), ok, "", key="D2:invalid-request-site:%s" % e.stable)
    # unknown / reserved methods
    hm = ctx.fn(HM, "D2")
    if hm:
        pa = ctx.pa(hm)
        known = ["set_mode", "set_quality", "set_stall_deselect", "set_conn_timeout", "get_status", "get_stats"]
        atoms = {}
        for a in pa.bdd.vars:
            if is_call(a, name_contains="PartialEq") and a[2] and a[2][0] == ("param", 4):
                for x in walk(a):
                    if x[0] == "const" and isinstance(x[1], str):
                        atoms[x[1]] = pa.atom(a)
        ctx.chk.ob("D2", "handle_method compares the method with every documented name", all(k in atoms for k in known + ["subscribe", "unsubscribe"]),
                   "compared with %s" % sorted(atoms), key="D2:method-names")
        for (code, bb, loc, how) in _error_sites(ctx, hm):
            if code == -32601 and all(k in atoms for k in known):
                pc = pa.pc_block(bb)
                ok = all(pa.entails(pc, pa.bdd.NOT(atoms[k])) for k in known)
                ctx.chk.ob("D2", "-32601 only for a method that is none of the implemented ones", ok, "PC = %s" % pa.show(pc, 2)[:200], key="D2:method-not-found-site", loc=loc)


def d3a_envelope_accepts_any_params(ctx):
    """A request whose `params` (or `id`) has an unexpected JSON shape must still be answered by the method layer (-32602, id echoed):
    the envelope type must not reject it, i.e. params deserialises from any JSON value and id from any value or absence."""
    a = ctx.w.adts.get(C + "Request")
    if not a:
        ctx.chk.missing("D3", C + "Request", "request envelope type not found")
        return
    tys = {f["name"]: f["ty"] for f in a["variants"][0]["fields"]}
    ctx.chk.ob("D3", "the request envelope takes `params` as an arbitrary JSON value (shape errors are the method layer's, with the id)", tys.get("params") == "serde_json::Value",
               "params: %s" % tys.get("params"), key="D3:envelope-params-any-json")
    ctx.chk.ob("D3", "the request envelope takes `id` as an optional arbitrary JSON value", tys.get("id") == "std::option::Option<serde_json::Value>", "id: %s" % tys.get("id"),
               key="D3:envelope-id-any-json")


def d6b_socket_dispatches_the_line_just_read(ctx):
    """The socket entry point answers each line like stdin does only if what it dispatches is the line just read: read_line appends
    to its buffer, so after every completed read the buffer is cleared before the next read_line, and the dispatched text is the
    trimmed buffer."""
    H = "srtla_send::control_socket::handle::{closure#0}"
    h = ctx.fn(H, "D6")
    if not h:
        return
    fa = ctx.fa(h)
    cfg = ctx.cfg(h)
    reads = [(bb, t) for (bb, t) in h.calls() if t["f"].get("path", "").endswith("AsyncBufReadExt::read_line")]
    if len(reads) != 1:
        ctx.chk.missing("D6", "control_socket::handle: the read_line call", "%d" % len(reads))
        return
    rb, rt = reads[0]
    buf = strip_old(fa.val_operand(rt["args"][1], (rb, len(h.blocks[rb]["stmts"]))))
    clears = [bb for (bb, t) in h.calls() if t["f"].get("path", "").endswith("String::clear") and strip_old(fa.val_operand(t["args"][0], (bb, len(h.blocks[bb]["stmts"])))) == buf]
    arms = [a for (sb, a) in result_arms(h, fa, lambda e: any(is_call(x, name_contains="read_line") for x in walk(e))) if "Ok" in a and "Err" in a]
    ok = len(arms) == 1 and bool(clears) and cfg.in_cycle(rb)
    det = "%d clear site(s)" % len(clears)
    if ok:
        stale = cfg.can_reach(arms[0]["Ok"], rb, avoid=set(clears))
        ok = not stale
        if stale:
            det = "after a completed read the loop can come back to read_line without clearing the buffer"
    ctx.chk.ob("D6", "the socket handler clears its line buffer after every completed read, before reading the next line", ok, det, key="D6:socket-buffer-cleared", loc=rt.get("loc"))
    ds = calls_to(h, stable=C + "dispatch_async")
    ok = len(ds) == 1
    if ok:
        bb, t = ds[0]
        line = strip_old(fa.val_operand(t["args"][-1], (bb, len(h.blocks[bb]["stmts"]))))
        tr = [x for x in walk(line) if is_call(x, name_contains="<impl str>::trim")]
        ok = len(tr) == 1 and any(y == buf for y in walk(tr[0]))
    ctx.chk.ob("D6", "what the socket handler dispatches is the trimmed line buffer", ok, "", key="D6:socket-dispatches-buffer")


def d3_one_response_iff_id(ctx):
    f = ctx.fn(INNER, "D3")
    if not f:
        return
    pa = ctx.pa(f)
    fa = pa.fa
    cfg = ctx.cfg(f)
    b = pa.bdd
    # None returns: direct `_0 = None` stores
    nones = []
    somes = []
    for bi, blk in enumerate(f.blocks):
        if blk["cleanup"]:
            continue
        for si, s in enumerate(blk["stmts"]):
            if s["k"] == "assign" and s["p"]["l"] == 0 and not s["p"]["proj"] and s["rv"]["k"] == "agg":
                (nones if s["rv"].get("vn") == "None" else somes).append((bi, si, s))
    empty = pa.find(lambda a: is_call(a, name_contains="str>::is_empty"))
    notif = [(x, pa.bdd.NOT(fm)) for (x, fm) in some_of(pa, lambda x: any(is_field(y, "id") for y in walk(x)))]
    ok = bool(empty) and bool(notif) and len(nones) == 2
    if ok:
        for (bi, si, s) in nones:
            pc = pa.pc_at(bi, si)
            ok = ok and (pa.entails(pc, empty[0][1]) or pa.entails(pc, notif[0][1]) or
                         any(x[0] == "var" for x in walk(notif[0][0])) and any(pa.entails(pc, fm) for (a, fm) in pa.find(lambda a: a[0] == "localbool" or a[0] == "var")))
    ctx.chk.ob("D3", "dispatch_inner answers None only for an empty line or a notification (no id)", ok, "%d None sites" % len(nones), key="D3:none-only-empty-or-notification")
    # the version arm returns req.id.map(..): None iff no id
    vm = [(bb, t) for (bb, t) in f.calls() if t["f"].get("path", "").endswith("Option::<T>::map") and not t["dest"]["proj"] and t["dest"]["l"] == 0]
    okv = len(vm) == 1 and any(is_field(x, "id") for x in walk(fa.val_operand(vm[0][1]["args"][0], (vm[0][0], len(f.blocks[vm[0][0]]["stmts"])))))
    ctx.chk.ob("D3", "wrong version: a response iff the request has an id (req.id.map)", okv, "", key="D3:version-arm-id-map")
    # the method is applied before the notification test
    hm = calls_to(f, stable=HM)
    nb = bool_branches(f, fa, lambda v: v[0] == "var" or (is_call(v, name_contains="is_none") and any(is_field(x, "id") for x in walk(v))))
    okm = len(hm) == 1 and not cfg.in_cycle(hm[0][0])
    if okm:
        tests = [sb for (sb, tt, ff) in nb if cfg.dominates(hm[0][0], sb)]
        okm = bool(tests) and all(cfg.dominates(hm[0][0], bi) for (bi, si, s) in nones if pa.entails(pa.pc_at(bi, si), b.NOT(empty[0][1]) if empty else b.TRUE) and cfg.can_reach(hm[0][0], bi))
    ctx.chk.ob("D3", "a notification is still applied: handle_method runs before the notification test", okm, "", key="D3:method-before-notification")
    # Response constructors
    for nm, res, err in (("ok", "Some", "None"), ("err", "None", "Some")):
        g = ctx.fn(RESP + "::" + nm, "D3")
        if not g:
            continue
        ga = ctx.fa(g)
        lit = None
        for bi, blk in enumerate(g.blocks):
            for si, s in enumerate(blk["stmts"]):
                if s["k"] == "assign" and s["rv"]["k"] == "agg" and s["rv"].get("adt") == RESP:
                    lit = ga.val_rvalue(s["rv"], (bi, si))
        okc = False
        if lit is not None:
            d = dict(zip(lit[4], lit[3]))
            ver = strip_old(d.get("jsonrpc", ("unknown",)))
            okc = (ver == ("const", "2.0", "&str") or (ver[0] in ("const", "constdef") and "2.0" in str(ver[1]) + str(ver))) and \
                d["result"][0] == "agg" and d["result"][2].endswith("::" + res) and d["error"][0] == "agg" and d["error"][2].endswith("::" + err) and d["id"] == ("param", 1)
        ctx.chk.ob("D3", "Response::%s: jsonrpc \"2.0\", %s, id as given" % (nm, "result only" if nm == "ok" else "error only"), okc,
                   show(lit, g.names)[:200] if lit else "", key="D3:constructor:%s" % nm)
    # every Response in the dispatchers is built by those constructors, with an id derived from the request (Null only on parse failure)
    for st in (INNER, ASYNC):
        e = ctx.fn(st, "D3")
        if not e:
            continue
        ea = ctx.fa(e)
        lits = [1 for blk in e.blocks for s in blk["stmts"] if s["k"] == "assign" and s["rv"]["k"] == "agg" and s["rv"].get("adt") == RESP]
        ctx.chk.ob("D3", "%s builds responses through Response::ok / Response::err only" % sname(st), not lits, "", key="D3:no-literal-response:%s" % st)
        epa = ctx.pa(e)
        arms = result_arms(e, ea, lambda x: strip_old(x)[0] == "call" and "from_str" in strip_old(x)[1])
        err_blocks = [a["Err"] for (sb, a) in arms if "Err" in a]
        ecfg = ctx.cfg(e)
        for (bb, t) in calls_to(e, stable=RESP + "::ok") + calls_to(e, stable=RESP + "::err"):
            idv = ea.val_operand(t["args"][0], (bb, len(e.blocks[bb]["stmts"])))
            from_req = any(is_field(x, "id") for x in walk(idv))
            is_null = any(x[0] == "agg" and x[2].endswith("Value::Null") for x in walk(idv)) and not from_req
            ok = from_req or (is_null and any(ecfg.dominates(eb, bb) for eb in err_blocks))
            ctx.chk.ob("D3", "%s: response id echoes the request id (null only when the line could not be parsed)" % sname(st), ok,
                       "id = %s" % show(idv, e.names)[:120], key="D3:id-echo:%s" % st, loc=t.get("loc"))


def d4_clamp_and_echo(ctx):
    ctx.CONST("D4", "srtla_core::config_snapshot::CONN_TIMEOUT_MS_MIN", 1000)
    ctx.CONST("D4", "srtla_core::config_snapshot::CONN_TIMEOUT_MS_MAX", 60000)
    # every value handed to the conn_timeout atomic
    n = 0
    for st in (DC + "::new", DC + "::from_cli", DC + "::set_conn_timeout_ms"):
        f = ctx.fn(st, "D4")
        if not f:
            continue
        ai = AbsInt(ctx.w)
        ai.run(f, Entry())
        fa = ctx.fa(f)
        # atomic constructions / stores whose value flows into field conn_timeout_ms
        for ev in ai.calls:
            if ev.fn is not f:
                continue
            if ev.path.endswith("Atomic::<u64>::new") or ev.path.endswith("AtomicU64::new") or ev.path.endswith("Atomic::<u64>::store") or ev.path.endswith("AtomicU64::store"):
                t = f.blocks[ev.bb]["term"]
                nst = len(f.blocks[ev.bb]["stmts"])
                is_store = ev.path.endswith("::store")
                tgt = fa.val_operand(t["args"][0], (ev.bb, nst)) if is_store else None
                if is_store and not any(is_field(x, "conn_timeout_ms", DC) for x in walk(tgt)):
                    continue
                if not is_store:
                    # which field of the literal does this atomic initialise?
                    dest = t["dest"]["l"]
                    fld = _field_of_atomic(f, fa, ev.bb, dest)
                    if fld != "conn_timeout_ms":
                        continue
                v = ev.args[1 if is_store else 0]
                n += 1
                ok = isinstance(v, Num) and v.lo >= 1000 and v.hi <= 60000
                ctx.chk.ob("D4", "%s: the stored connection timeout is within [1000, 60000]" % sname(st), ok, "value %r" % (v,), key="D4:timeout-range:%s" % st, loc=ev.loc)
    ctx.chk.floor("D4", "values reaching the conn_timeout atomic", n, 3)
    ctx.WHO_WRITES("D4", DC, "conn_timeout_ms", set(), floor=0, allow_agg_in={DC + "::new", DC + "::from_cli", "<" + DC + " as core::clone::Clone>::clone"})
    s = ctx.fn(DC + "::set_conn_timeout_ms", "D4")
    if s:
        fa = ctx.fa(s)
        rets = [fa.val_local(0, (r, len(s.blocks[r]["stmts"]))) for r in ctx.cfg(s).returns]
        st = [(bb, t) for (bb, t) in s.calls() if t["f"].get("path", "").endswith("::store")]
        ok = len(rets) == 1 and len(st) == 1 and fa.val_operand(st[0][1]["args"][1], (st[0][0], len(s.blocks[st[0][0]]["stmts"]))) == rets[0] and is_call(rets[0], name_contains="::clamp")
        ctx.chk.ob("D4", "the setter returns exactly the value it stored", ok, "returns %s" % [show(v, s.names) for v in rets], key="D4:setter-echo")
    hm = ctx.fn(HM, "D4")
    if hm:
        fa = ctx.fa(hm)
        sites = calls_to(hm, stable=DC + "::set_conn_timeout_ms")
        ok = len(sites) == 1
        if ok:
            # the json "ms" value is built from the setter's return value
            dest = sites[0][1]["dest"]["l"]
            used = False
            for (bb, t) in hm.calls():
                for a in t["args"]:
                    v = fa.val_operand(a, (bb, len(hm.blocks[bb]["stmts"])))
                    if any(is_call(x, stable=DC + "::set_conn_timeout_ms") for x in walk(v)) and ("serde" in t["f"].get("path", "") or "Serialize" in t["f"].get("path", "") or "to_value" in t["f"].get("path", "") or "From" in t["f"].get("path", "") or "from" in t["f"].get("path", "")):
                        used = True
            arg = fa.val_operand(sites[0][1]["args"][1], (sites[0][0], len(hm.blocks[sites[0][0]]["stmts"])))
            ok = used and any((x[0] == "fn" and "as_u64" in x[1]) or is_call(x, name_contains="as_u64") for x in walk(arg))
        ctx.chk.ob("D4", "set_conn_timeout echoes the applied (clamped) value, not the requested one", ok, "", key="D4:handler-echo")
    ctx.WHO_CALLS("D4", DC + "::set_conn_timeout_ms", {HM}, floor=1)


def _field_of_atomic(f, fa, bb, dest):
    """The DynamicConfig field a freshly built atomic ends up in (through Arc::new and the struct literal)."""
    for bi, blk in enumerate(f.blocks):
        for si, s in enumerate(blk["stmts"]):
            if s["k"] == "assign" and s["rv"]["k"] == "agg" and s["rv"].get("adt") == DC:
                v = fa.val_rvalue(s["rv"], (bi, si))
                for name, val in zip(v[4], v[3]):
                    for x in walk(val):
                        if x[0] == "call" and x[3] == (bb,):
                            return name
    return None


FIELDS = [("mode", "set_mode"), ("quality_enabled", "set_quality_enabled"), ("stall_deselect", "set_stall_deselect"), ("conn_timeout_ms", "set_conn_timeout_ms")]
STATUS_KEYS = ["mode", "quality_enabled", "stall_deselect", "stall_min_in_flight", "stall_ack_stale_ms", "conn_timeout_ms"]


def d5_takes_effect(ctx):
    sn = ctx.fn(DC + "::snapshot", "D5")
    if sn:
        fa = ctx.fa(sn)
        lit = None
        for bi, blk in enumerate(sn.blocks):
            for si, s in enumerate(blk["stmts"]):
                if s["k"] == "assign" and s["rv"]["k"] == "agg" and s["rv"].get("adt") == SNAP:
                    lit = fa.val_rvalue(s["rv"], (bi, si))
        ok = lit is not None
        if ok:
            for name, val in zip(lit[4], lit[3]):
                loads = [x for x in walk(val) if x[0] == "call" and x[1].endswith("::load")]
                good = len(loads) == 1 and any(is_field(y, name, DC) for y in walk(loads[0]))
                ctx.chk.ob("D5", "snapshot().%s is loaded from the atomic of the same name" % name, good, show(val, sn.names)[:120], key="D5:snapshot-field:%s" % name)
        ctx.chk.ob("D5", "snapshot() builds a ConfigSnapshot", ok, "", key="D5:snapshot-literal")
    for fld, setter in FIELDS:
        g = ctx.fn(DC + "::" + setter, "D5")
        if not g:
            continue
        fa = ctx.fa(g)
        st = [(bb, t) for (bb, t) in g.calls() if t["f"].get("path", "").endswith("::store")]
        ok = len(st) == 1 and any(is_field(x, fld, DC) for x in walk(fa.val_operand(st[0][1]["args"][0], (st[0][0], len(g.blocks[st[0][0]]["stmts"])))))
        if ok:
            v = fa.val_operand(st[0][1]["args"][1], (st[0][0], len(g.blocks[st[0][0]]["stmts"])))
            ok = any(x == ("param", 2) for x in walk(v))
        ctx.chk.ob("D5", "%s stores its argument into the %s atomic" % (setter, fld), ok, "", key="D5:setter-field:%s" % setter)
    hm = ctx.fn(HM, "D5")
    if hm:
        pa = ctx.pa(hm)
        # each set_* method calls the matching setter under its own method name
        for meth, setter in (("set_mode", "set_mode"), ("set_quality", "set_quality_enabled"), ("set_stall_deselect", "set_stall_deselect"), ("set_conn_timeout", "set_conn_timeout_ms")):
            sites = calls_to(hm, stable=DC + "::" + setter)
            at = None
            for a in pa.bdd.vars:
                if is_call(a, name_contains="PartialEq") and a[2] and a[2][0] == ("param", 4) and any(x[0] == "const" and x[1] == meth for x in walk(a)):
                    at = pa.atom(a)
            ok = len(sites) == 1 and at is not None and pa.entails(pa.pc_block(sites[0][0]), at)
            ctx.chk.ob("D5", "method %s applies %s" % (meth, setter), ok, "", key="D5:method-setter:%s" % meth)
        # get_status emits every snapshot field
        strs = set()
        for blk in hm.blocks:
            for s in blk["stmts"]:
                _collect_strs(s, strs)
            _collect_strs(blk["term"], strs)
        missing = [k for k in STATUS_KEYS if k not in strs]
        reads = set(k[1] for k in ctx.eff.own_r.get(hm.id, set()) if k[0] == SNAP)
        ok = not missing and all(k in reads for k in STATUS_KEYS)
        ctx.chk.ob("D5", "get_status reports every configuration field from one snapshot", ok, "missing keys %s ; snapshot fields read %s" % (missing, sorted(reads)), key="D5:status-fields")


def _collect_strs(node, out):
    if isinstance(node, dict):
        if node.get("k") == "const" and isinstance(node.get("str"), str):
            out.add(node["str"])
        for v in node.values():
            _collect_strs(v, out)
    elif isinstance(node, list):
        for v in node:
            _collect_strs(v, out)


def d6_entry_points_agree(ctx):
    a = ctx.fn(INNER, "D6")
    b = ctx.fn(ASYNC, "D6")
    if not a or not b:
        return

    def skeleton(f):
        fa = ctx.fa(f)
        seq = []
        cfg = ctx.cfg(f)
        order = cfg._rpo(0, cfg.succ)
        for bb in order:
            t = f.blocks[bb]["term"]
            if t["k"] == "call" and "id" in t["f"]:
                p = t["f"]["path"]
                for key in ("str>::trim", "str>::is_empty", "serde_json::from_str", "de::from_str", "PartialEq", "Option::<T>::is_none", "Option::<T>::map", "unwrap_or", "Response::ok", "Response::err"):
                    if key in p:
                        seq.append(key)
                if t["f"].get("stable") == HM:
                    seq.append("handle_method")
        return seq
    sa_, sb_ = skeleton(a), skeleton(b)
    # the async skeleton may have extra PartialEq tests (subscription method names); compare after removing those
    core = lambda s: [x for x in s if x != "PartialEq"]
    ctx.chk.ob("D6", "both entry points run the same pre-check / response skeleton", core(sa_) == core(sb_), "stdin %s ; socket %s" % (core(sa_), core(sb_)), key="D6:skeleton")
    ca = sorted(c for (c, _b, _l, _h) in _error_sites(ctx, a))
    cb = sorted(c for (c, _b, _l, _h) in _error_sites(ctx, b))
    ctx.chk.ob("D6", "both entry points use the same error codes", ca == cb, "%s vs %s" % (ca, cb), key="D6:codes")
    # handle_method receives the same arguments; in the async path it is the fallback arm of the subscription match
    for f in (a, b):
        fa = ctx.fa(f)
        sites = calls_to(f, stable=HM)
        ok = len(sites) == 1
        if ok:
            bb, t = sites[0]
            args = [fa.val_operand(x, (bb, len(f.blocks[bb]["stmts"]))) for x in t["args"]]
            ok = any(is_field(x, "method") for x in walk(args[3])) and any(is_field(x, "params") for x in walk(args[4]))
        ctx.chk.ob("D6", "%s hands req.method / req.params to handle_method" % sname(f.stable), ok, "", key="D6:handle-method-args:%s" % f.stable)
    # in the socket path, handle_method is skipped only for the three subscription methods with a subscription context
    pa = ctx.pa(b)
    sites = calls_to(b, stable=HM)
    if sites:
        subs = calls_to(b, stable=C + "handle_subscribe") + calls_to(b, stable=C + "handle_unsubscribe")
        names = set()
        for v in pa.bdd.vars:
            if is_call(v, name_contains="PartialEq"):
                for x in walk(v):
                    if x[0] == "const" and isinstance(x[1], str) and x[1] != "2.0":
                        names.add(x[1])
        ctx.chk.ob("D6", "the socket path special-cases only subscribe / unsubscribe / get_subscription_count", names == {"subscribe", "unsubscribe", "get_subscription_count"},
                   "%s" % sorted(names), key="D6:special-cased-methods")
    ctx.WHO_CALLS("D6", HM, {INNER, ASYNC}, floor=2)
    ctx.WHO_CALLS("D6", INNER, {C + "dispatch"}, floor=1)


RULES = [d1_total, d3a_envelope_accepts_any_params, d2_error_codes, d3_one_response_iff_id, d4_clamp_and_echo, d5_takes_effect, d6_entry_points_agree, d6b_socket_dispatches_the_line_just_read]


def run(ctx):
    ctx.chk.not_decided = ["JSON well-formedness of serde's output and totality of serde_json::from_str (trusted dependency)",
                           "linearizability of concurrent setters beyond 'each field is one atomic'"]
    ctx.run_rules(RULES)
