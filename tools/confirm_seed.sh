#!/bin/bash
# tools/confirm_seed.sh <worktree> <seed dir> <demo setup cmd> <demo run cmd>
# Confirms a seeded change: builds, existing suite passes with it, demo fails with it and passes without it.
set -u
WT=$1; SD=$2; SETUP=$3; RUN=$4
cd "$WT" || exit 2
export CARGO_TARGET_DIR=$WT/target CARGO_NET_OFFLINE=true
git checkout -q -- . && git clean -fdq -e target
git apply "$SD/patch.diff" || { echo "PATCH DOES NOT APPLY"; exit 2; }
echo "--- suite with the change"
cargo nextest run --workspace --no-fail-fast --offline --test-threads 8 2>&1 | grep -E "Summary|FAIL|error(\[|:)" | head -8
echo "--- demo with the change (must FAIL)"
eval "$SETUP"
eval "$RUN" 2>&1 | grep -E "^test result|test .* (FAILED|ok)$|error(\[|:)" | head -12
echo "--- demo without the change (must PASS)"
git apply -R "$SD/patch.diff"
eval "$RUN" 2>&1 | grep -E "^test result|test .* (FAILED|ok)$|error(\[|:)" | head -12
git checkout -q -- . && git clean -fdq -e target
