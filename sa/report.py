"""Obligation bookkeeping, known findings, evidence files, exit codes."""
import json
import os
import sys
import time

VERIF = os.path.dirname(os.path.dirname(os.path.abspath(__file__)))
KNOWN = os.path.join(VERIF, "known_findings.json")


class CheckerError(Exception):
    """Exit 2: the checker could not do its job (never a verdict)."""


def load_known():
    try:
        with open(KNOWN) as f:
            d = json.load(f)
    except FileNotFoundError:
        return []
    return d.get("findings", [])


class Ob:
    __slots__ = ("rule", "instance", "ok", "detail", "key", "loc", "world", "nontrivial", "kind")

    def __init__(self, rule, instance, ok, detail, key, loc, world, nontrivial, kind):
        self.rule = rule
        self.instance = instance
        self.ok = ok
        self.detail = detail
        self.key = key
        self.loc = loc
        self.world = world
        self.nontrivial = nontrivial
        self.kind = kind


class Check:
    def __init__(self, prop_id, tier="quick", seed=0, level="other"):
        self.prop = prop_id
        self.tier = tier
        self.seed = seed
        self.level = level
        self.obs = []
        self.world = None
        self.t0 = time.time()
        self.info = {}
        self.not_decided = []
        self.assumptions = []
        self.trusted = []
        self.notes = []
        self.configs = []

    # ------------------------------------------------------------------ recording
    def set_world(self, w):
        self.world = w.name if w is not None else None

    def ob(self, rule, instance, ok, detail="", key=None, loc=None, nontrivial=True, kind="rule"):
        """Record one obligation. `key` (stable, no line numbers) identifies a violation."""
        if key is None:
            key = "%s:%s:%s" % (self.prop, rule, instance)
        elif not key.startswith(self.prop + ":"):
            key = "%s:%s" % (self.prop, key)
        self.obs.append(Ob(rule, instance, bool(ok), detail, key, loc, self.world, nontrivial, kind))
        return bool(ok)

    def missing(self, rule, anchor, why="anchor not found"):
        """Fail closed: the mechanism the rule rests on is not where the rule can see it."""
        return self.ob(rule, "anchor:" + anchor, False, why, key="%s:anchor-missing:%s" % (rule, anchor), kind="anchor")

    def floor(self, rule, what, count, minimum):
        """Instance floor: a rule that matches fewer sites than were confirmed by hand fails closed."""
        return self.ob(rule, "floor:%s" % what, count >= minimum,
                       "%d instance(s), floor %d" % (count, minimum),
                       key="%s:floor:%s" % (rule, what), kind="floor")

    def note(self, s):
        self.notes.append(s)

    # ------------------------------------------------------------------ finishing
    def finish(self, extra_coverage=None, samples_extra=None):
        known = [k for k in load_known() if k.get("property") == self.prop]
        known_keys = {k["key"]: k for k in known if k.get("status") == "known"}
        viol = {}
        for o in self.obs:
            if not o.ok:
                viol.setdefault(o.key, []).append(o)
        unlisted = [k for k in viol if k not in known_keys]
        listed = [k for k in viol if k in known_keys]
        out_dir = os.path.join(VERIF, "out", self.prop)
        os.makedirs(out_dir, exist_ok=True)
        lines = []
        for k in listed:
            lines.append("KNOWN-FINDING: property=%s %s [%s]" % (self.prop, known_keys[k].get("what_fails", ""), k))
        replay_paths = []
        for k in unlisted:
            path = os.path.join(out_dir, _safe(k) + ".json")
            with open(path, "w") as f:
                json.dump({"property": self.prop, "key": k,
                           "instances": [{"rule": o.rule, "instance": o.instance, "world": o.world, "loc": o.loc,
                                          "detail": o.detail} for o in viol[k]]}, f, indent=1)
            replay_paths.append(path)
            o = viol[k][0]
            lines.append("  violated: %s @ %s :: %s" % (k, o.loc or "?", (o.detail or "")[:400]))
            lines.append("VIOLATION property=%s replay=%s" % (self.prop, path))
        # evidence
        n = len(self.obs)
        discharged = sum(1 for o in self.obs if o.ok)
        distinct = set()
        for o in self.obs:
            if o.nontrivial and o.kind == "rule":
                distinct.add((o.rule, o.instance))
        samples = []
        per_rule = {}
        for o in sorted(self.obs, key=lambda o: (o.ok, o.kind != "rule", -len(o.detail or ""))):
            c = per_rule.get(o.rule, 0)
            if c >= 3 and o.ok:
                continue
            per_rule[o.rule] = c + 1
            samples.append({"rule": o.rule, "instance": o.instance, "world": o.world, "loc": o.loc,
                            "verdict": "ok" if o.ok else "VIOLATED", "detail": (o.detail or "")[:600]})
            if len(samples) >= 80:
                break
        if samples_extra:
            samples.extend(samples_extra)
        cov = {
            "obligations": n,
            "discharged": discharged,
            "evaluations": n,
            "distinct_nontrivial": len(distinct),
            "rule": "every rule instance (site x rule) the property's static rules match in /repo's current MIR, "
                    "in both the lib and the bin build of the shell; an instance is non-trivial when it matched at "
                    "least one site and involved an atom, interval, effect-set or table comparison; distinct = "
                    "distinct (rule, instance) pairs after merging the two builds",
            "samples": samples,
            "checker_cmd": "./check %s --tier %s" % (self.prop, self.tier),
            "trusted_base": self.trusted or [
                "rustc nightly MIR construction and Instance resolution",
                "mirfacts serialisation (/verif/driver)",
                "analyser transfer functions and std summaries (/verif/sa)",
                "non-workspace crates are total and write workspace state only through what they are handed",
            ],
            "explanation": "static analysis of the type-checked MIR of /repo's current working tree; "
                           "no repository code is executed. " + " ".join(self.notes),
            "clauses_not_decided": self.not_decided,
            "rules": sorted(set(o.rule for o in self.obs)),
            "known_findings_reported": listed,
            "configs": self.configs,
        }
        cov.update(self.info)
        if extra_coverage:
            cov.update(extra_coverage)
        ev = {
            "property_id": self.prop,
            "tier": self.tier,
            "seed": self.seed,
            "level": self.level,
            "coverage": cov,
            "assumptions": self.assumptions,
            "wall_s": round(time.time() - self.t0, 3),
            "violations": len(unlisted),
        }
        ev_dir = os.path.join(VERIF, "evidence")
        os.makedirs(ev_dir, exist_ok=True)
        tmp = os.path.join(ev_dir, ".%s.json.%d" % (self.prop, os.getpid()))
        with open(tmp, "w") as f:
            json.dump(ev, f, indent=1, sort_keys=True)
        os.replace(tmp, os.path.join(ev_dir, self.prop + ".json"))
        for l in lines:
            print(l)
        print("%s: %d obligations, %d discharged, %d known finding(s), %d violation(s) [%s, %.1fs]" % (
            self.prop, n, discharged, len(listed), len(unlisted), self.tier, time.time() - self.t0))
        sys.stdout.flush()
        return 1 if unlisted else 0


def _safe(k):
    return "".join(c if c.isalnum() or c in "-_." else "_" for c in k)[:180]
