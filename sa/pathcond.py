"""E3b - path conditions as propositional formulas (BDDs) over normalised atoms.

PC(site) is computed by forward propagation over the CFG with back edges cut.
An atom is existentially quantified (weakened to `true`) as soon as a store that
may change one of its inputs is passed, and at every loop head for everything
the loop body may store - so an atom always speaks about the *current* state
at the point where the formula is used.  Branches that belong to the expansion
of a logging macro (`tracing`, `log`) are quantified away: the formula flows
unchanged into both successors.
"""
from collections import defaultdict

from .bdd import BDD
from .cfg import cfg_of
from .expr import (DUAL_OF, VARIANTS, try_branch_subject, fna_of, is_float_ty, is_int_ty, mk_bin, mk_not, show, subst, walk)

LOG_MACRO_CRATES = ("tracing", "log", "tracing_core")

INT_RANGE = {
    "i8": (-2**7, 2**7 - 1), "i16": (-2**15, 2**15 - 1), "i32": (-2**31, 2**31 - 1), "i64": (-2**63, 2**63 - 1),
    "i128": (-2**127, 2**127 - 1), "isize": (-2**63, 2**63 - 1),
    "u8": (0, 2**8 - 1), "u16": (0, 2**16 - 1), "u32": (0, 2**32 - 1), "u64": (0, 2**64 - 1),
    "u128": (0, 2**128 - 1), "usize": (0, 2**64 - 1),
}


def is_log_mac(node):
    m = node.get("mac")
    if not m:
        return False
    return m.split("::", 1)[0] in LOG_MACRO_CRATES


class FormulaSpace:
    """A BDD manager plus the atom normalisation shared by path analyses and free-standing predicate spaces."""

    def __init__(self, bdd=None, names=None):
        self.bdd = bdd or BDD()
        self.axioms = self.bdd.TRUE
        self.tracked = set()
        self.duals = {}
        self._names = names or {}

    def atom(self, e):
        return self.bdd.var(e)

    def names(self):
        return self._names

    def theory(self):
        """Axioms plus what is true of the atoms whatever the program does: `x == c1` and `x == c2` exclude each other."""
        b = self.bdd
        n = len(b.vars)
        if getattr(self, "_theory_n", None) == (n, self.axioms):
            return self._theory
        groups = {}
        for a in b.vars:
            if isinstance(a, tuple) and a and a[0] == "bin" and a[1] == "Eq":
                for (x, c) in ((a[2], a[3]), (a[3], a[2])):
                    if c[0] == "const" and x[0] != "const" and c[1] is not None:
                        groups.setdefault(x, []).append((c[1], a))
        th = self.axioms
        # one value has one variant: `x is A` and `x is B` exclude each other
        isg = {}
        for a in b.vars:
            if isinstance(a, tuple) and a and a[0] == "is":
                isg.setdefault(a[1], []).append(a)
        for x, lst in isg.items():
            for i in range(len(lst)):
                for j in range(i + 1, len(lst)):
                    if lst[i][2] != lst[j][2]:
                        th = b.AND(th, b.NOT(b.AND(b.var(lst[i]), b.var(lst[j]))))
        for x, lst in groups.items():
            for i in range(len(lst)):
                for j in range(i + 1, len(lst)):
                    if lst[i][0] != lst[j][0]:
                        th = b.AND(th, b.NOT(b.AND(b.var(lst[i][1]), b.var(lst[j][1]))))
        self._theory_n = (n, self.axioms)
        self._theory = th
        return th

    def entails(self, pc, f):
        b = self.bdd
        return b.AND(b.AND(self.theory(), pc), b.NOT(f)) == b.FALSE

    def equivalent(self, f, g):
        return self.entails(f, g) and self.entails(g, f)

    def sat(self, f):
        return self.bdd.AND(self.theory(), f) != self.bdd.FALSE

    def show_atom(self, a):
        nm = self.names()
        if a and a[0] == "is":
            return "%s is %s" % (show(a[1], nm), a[2])
        if a and a[0] == "localbool":
            return "%s@bb%d" % (nm.get(a[1], "_%d" % a[1]), a[2])
        return show(a, nm)

    def show(self, f, limit=10):
        return self.bdd.to_str(f, self.show_atom, limit)

    def atoms_of(self, f):
        return self.bdd.atoms(f)

    def counterexample(self, pc, f):
        """One assignment (as a readable string) satisfying pc & !f, or None."""
        b = self.bdd
        g = b.AND(b.AND(self.theory(), pc), b.NOT(f))
        m = b.any_sat(g)
        if m is None:
            return None
        return " & ".join(("" if v else "!") + self.show_atom(b.vars[i]) for i, v in sorted(m.items()))

    def is_atom(self, e):
        """Formula for `subject is variant`; the second variant of a two-variant enum is the negation of the first."""
        if e[2] in ("Continue", "Break"):
            t = try_branch_subject(e[1])
            if t is not None:
                # `x?`: branch(x) is Continue exactly when x is Some / Ok
                f = self.is_atom(("is", t[0], t[1]))
                return f if e[2] == "Continue" else self.bdd.NOT(f)
        first = DUAL_OF.get(e[2])
        if first is not None:
            return self.bdd.NOT(self.atom(("is", e[1], first)))
        return self.atom(e)

    def lit(self, e):
        """Formula of a bool-valued expression built by a rule (same normalisation as extracted atoms)."""
        return self.formula(e, (0, 0))

    def find(self, pred):
        """[(atom expr, formula)] of existing atoms satisfying pred."""
        out = []
        for a in list(self.bdd.vars):
            try:
                if pred(a):
                    out.append((a, self.bdd.var(a)))
            except Exception:
                pass
        return out

    def import_formula(self, other, f, mapping):
        """Rebuild formula f (from space `other`) here, rewriting atoms with `mapping(expr) -> expr|None`."""
        memo = {}
        ob = other.bdd
        for k, v in other.duals.items():
            k2 = subst(k, mapping)
            v2 = (subst(v[0], mapping), v[1])
            self.duals.setdefault(k2, v2)

        def rec(n):
            if n <= 1:
                return n
            r = memo.get(n)
            if r is not None:
                return r
            v, lo, hi = ob.nodes[n]
            a = ob.vars[v]
            a2 = subst(a, mapping)
            if a2 and a2[0] == "is":
                fa = self.is_atom(a2)
            elif a2 and a2[0] == "localbool":
                fa = self.atom(("imported",) + a2 + (getattr(getattr(other, "fn", None), "stable", ""),))
            else:
                fa = self.formula(a2, (0, 0)) if a2[0] in ("bin", "not", "const", "call") else self.atom(a2)
            r = self.bdd.ITE(fa, rec(hi), rec(lo))
            memo[n] = r
            return r
        g = rec(f)
        # exhaustiveness axioms travel with the formula
        if other.axioms != ob.TRUE:
            self.axioms = self.bdd.AND(self.axioms, rec(other.axioms))
        return g

    # ------------------------------------------------------------------ boolean formulas
    def formula(self, e, point, env=None, pc=None):
        """BDD of a bool-valued expression."""
        b = self.bdd
        t = e[0]
        if t == "const":
            if e[1] is True:
                return b.TRUE
            if e[1] is False:
                return b.FALSE
            return self.atom(e)
        if t == "not":
            return b.NOT(self.formula(e[1], point, env, pc))
        if t == "var" and e[1] in self.tracked and env is not None and e[1] in env:
            T, F = env[e[1]]
            if b.AND(T, F) == b.FALSE:
                # exact under the current path condition (PC == T | F): x <=> T
                return T
            return self.atom(("localbool", e[1], point[0]))
        if t == "bin":
            op, x, y, ty = e[1], e[2], e[3], e[4]
            if ty == "bool":
                fx = self.formula(x, point, env, pc)
                fy = self.formula(y, point, env, pc)
                if op == "BitAnd":
                    return b.AND(fx, fy)
                if op == "BitOr":
                    return b.OR(fx, fy)
                if op in ("BitXor", "Ne"):
                    return b.OR(b.AND(fx, b.NOT(fy)), b.AND(b.NOT(fx), fy))
                if op == "Eq":
                    return b.NOT(b.OR(b.AND(fx, b.NOT(fy)), b.AND(b.NOT(fx), fy)))
            if op in ("Lt", "Le", "Eq", "Ne"):
                return self._cmp(op, x, y, ty)
        return self.atom(e)

    def _cmp(self, op, x, y, ty):
        b = self.bdd
        isint = is_int_ty(ty or "")
        if op == "Ne":
            return b.NOT(self._cmp("Eq", x, y, ty))
        if op == "Eq":
            if repr(x) > repr(y):
                x, y = y, x
            return self.atom(("bin", "Eq", x, y, ty))
        if isint:
            lo, hi = INT_RANGE[ty]
            if op == "Le":
                # x <= y  ==  !(y < x)
                return b.NOT(self._cmp("Lt", y, x, ty))
            # op == Lt ; canonical form keeps a constant on the right
            if x[0] == "const" and isinstance(x[1], int) and not isinstance(x[1], bool):
                c = x[1]
                if c >= hi:
                    return b.FALSE
                # c < y  ==  !(y < c+1)
                return b.NOT(self._cmp("Lt", y, ("const", c + 1, x[2]), ty))
            if y[0] == "const" and isinstance(y[1], int) and not isinstance(y[1], bool):
                if y[1] <= lo:
                    return b.FALSE
                if y[1] == lo + 1:
                    # x < lo+1  ==  x == lo   (for unsigned: `x < 1`, `!(0 < x)` and `x == 0` are one atom)
                    return self._cmp("Eq", x, ("const", lo, y[2]), ty)
            return self.atom(("bin", "Lt", x, y, ty))
        return self.atom(("bin", op, x, y, ty))


class PathA(FormulaSpace):
    """Path-condition analysis of one function body.

    avoid: blocks treated as deleted (for SKIP queries: "reaches X without passing S").
    """

    def __init__(self, world, fn, avoid=(), bdd=None, entry=0):
        self.world = world
        self.fn = fn
        self.fa = fna_of(world, fn)
        self.cfg = cfg_of(fn)
        FormulaSpace.__init__(self, bdd, fn.names)
        self.avoid = set(avoid)
        self.entry = entry      # region entry: path conditions are relative to reaching this block
        self.atom_keys = {}     # var index -> mem keys
        self.pc_in = {}
        self.bool_env = {}      # block -> {local: (T, F)} on entry
        self.tracked = set(l for l in self.fa.multi if fn.locals[l]["ty"] == "bool")
        self._edge_cond = {}
        self._run()

    # ------------------------------------------------------------------ atoms
    def atom(self, e):
        b = self.bdd
        n = len(b.vars)
        v = b.var(e)
        if len(b.vars) != n:
            self.atom_keys[n] = self.fa.mem_keys(e)
        return v

    # ------------------------------------------------------------------ small pure predicates are transparent
    def formula(self, e, point, env=None, pc=None):
        if isinstance(e, tuple) and e and e[0] == "call" and len(e) > 4 and e[3] is None:
            f = self._inline_predicate(e) if e[4] else self._std_predicate(e, point, env, pc)
            if f is not None:
                return f
        return FormulaSpace.formula(self, e, point, env, pc)

    def _std_predicate(self, e, point, env, pc):
        """bool-valued std combinators whose meaning is a formula over their arguments: Option::is_some_and / is_none_or / map_or,
        Result::is_ok_and / is_err_and (closure argument), Range / RangeInclusive::contains with explicit bounds."""
        path, args = e[1], e[2]
        b = self.bdd
        last = path.rsplit("::", 1)[-1]
        try:
            # x.is_some() / x.is_none() / r.is_ok() / r.is_err() are the same atoms as `match` / `if let` on x
            if "option::Option::<T>::" in path and last in ("is_some", "is_none") and len(args) == 1:
                none = self.is_atom(("is", args[0], "None"))
                return none if last == "is_none" else b.NOT(none)
            if "result::Result::<T, E>::" in path and last in ("is_ok", "is_err") and len(args) == 1:
                okf = self.is_atom(("is", args[0], "Ok"))
                return okf if last == "is_ok" else b.NOT(okf)
            if ("option::Option::<T>::" in path and last in ("is_some_and", "is_none_or", "map_or")) or \
                    ("result::Result::<T, E>::" in path and last in ("is_ok_and", "is_err_and")):
                subj = args[0]
                cl = args[-1]
                if not (cl[0] == "agg" and cl[1] == "closure"):
                    return None
                variant = {"is_some_and": "Some", "is_none_or": "Some", "map_or": "Some", "is_ok_and": "Ok", "is_err_and": "Err"}[last]
                adt = "core::option::Option" if "option::Option" in path else "core::result::Result"
                payload = ("field", ("as", subj, variant), adt, "0")
                inner = self._closure_formula(cl, payload)
                if inner is None:
                    return None
                has = self.is_atom(("is", subj, variant))
                if last in ("is_some_and", "is_ok_and", "is_err_and"):
                    return b.AND(has, inner)
                if last == "is_none_or":
                    return b.OR(b.NOT(has), inner)
                d = args[1]
                if d[0] == "const" and isinstance(d[1], bool):
                    return b.OR(b.AND(has, inner), b.AND(b.NOT(has), b.TRUE if d[1] else b.FALSE))
                return None
            if last == "contains" and ("ops::RangeInclusive" in path or "ops::Range::" in path or "range::RangeInclusive" in path or "range::Range::" in path):
                r, x = args[0], args[1]
                lo = hi = None
                incl = "Inclusive" in path
                r0 = r
                while isinstance(r0, tuple) and r0 and r0[0] == "old":
                    r0 = r0[1]
                if r0[0] == "call" and r0[1].endswith("RangeInclusive::<Idx>::new") and len(r0[2]) == 2:
                    lo, hi = r0[2]
                elif r0[0] == "agg" and r0[1] == "adt" and "ops::range::Range" in str(r0[2]) and len(r0[3]) == 2:
                    lo, hi = r0[3]
                if lo is None:
                    return None
                ty = lo[2] if lo[0] == "const" else (hi[2] if hi[0] == "const" else None)
                if ty is None:
                    return None
                ge = b.NOT(self._cmp("Lt", x, lo, ty))
                le = self._cmp("Le", x, hi, ty) if incl else self._cmp("Lt", x, hi, ty)
                return b.AND(ge, le)
        except Exception:
            return None
        return None

    def _closure_formula(self, cl, payload):
        """Return formula of a pure bool closure applied to `payload` (its single argument), captures substituted."""
        cf = self.world.fns.get(cl[2])
        if cf is None or cf.locals[0]["ty"] != "bool" or len(cf.blocks) > 60 or cl[2] in _inline_stack or len(_inline_stack) >= 3:
            return None
        from .effects import effects_of
        eff = effects_of(self.world)
        if eff.W(cf.id) or eff.WW(cf.id):
            return None
        _inline_stack.append(cl[2])
        try:
            cpa = patha_of(self.world, cf)
            rt = cpa.ret_true()
            if not cpa.equivalent(cpa.ret_false(), cpa.bdd.NOT(rt)):
                return None
            caps = cl[3]
            for a in cpa.atoms_of(rt):
                for x in walk(a):
                    if x[0] in ("var", "unknown", "resume", "localbool", "imported"):
                        return None
                    if x[0] == "call" and x[3] is not None:
                        return None
                    if x[0] == "upvar" and not (0 <= x[1] < len(caps)):
                        return None
                    if x[0] == "param" and x[1] != 2:
                        return None

            def mapping(x):
                if isinstance(x, tuple) and x:
                    if x[0] == "param" and x[1] == 2:
                        return payload
                    if x[0] == "upvar":
                        return caps[x[1]]
                    if x[0] == "old":
                        return subst(x[1], mapping)
                return None
            return self.import_formula(cpa, rt, mapping)
        except Exception:
            return None
        finally:
            _inline_stack.pop()

    def _inline_predicate(self, e):
        """A call of a small, effect-free, bool-returning workspace helper that no rule refers to by name is replaced by the
        helper's own return formula (so extracting a condition into a function, or not, reads the same)."""
        stable = e[4]
        if stable.rsplit("::", 1)[-1] in named_in_rules():
            return None
        callee = self.world.fn(stable)
        if callee is not None and callee.kind == "closure" and len(e[2]) == 2:
            # a local closure called directly, `pred(x)`: its return formula over the argument, captures substituted
            cl = e[2][0]
            while isinstance(cl, tuple) and cl and cl[0] in ("old", "deref"):
                cl = cl[1]
            tup = e[2][1]
            while isinstance(tup, tuple) and tup and tup[0] == "old":
                tup = tup[1]
            if cl[0] == "upvar" and self.fa.is_closure:
                # the called closure is itself captured by this one (`xs.iter().any(|x| pred(x) && ..)`): its captures are
                # captures of a capture, named ("upcap", k, i) and resolved by whoever imports this closure's formula
                nup = (max(callee.upvar_names) + 1) if callee.upvar_names else 0
                cl = ("agg", "closure", callee.id, tuple(("upcap", cl[1], i) for i in range(nup)), ())
            if cl[0] == "agg" and cl[1] == "closure" and cl[2] == callee.id and tup[0] == "agg" and tup[1] == "tuple" and len(tup[3]) == 1:
                return self._closure_formula(cl, tup[3][0])
            return None
        if callee is None or callee.kind not in ("fn", "method") or callee.locals[0]["ty"] != "bool" or len(callee.blocks) > 60:
            return None
        if callee.argc != len(e[2]) or stable == self.fn.stable or stable in _inline_stack or len(_inline_stack) >= 3:
            return None
        from .effects import effects_of
        eff = effects_of(self.world)
        if eff.W(callee.id) or eff.WW(callee.id):
            return None
        _inline_stack.append(stable)
        try:
            cpa = patha_of(self.world, callee)
            rt = cpa.ret_true()
            rf = cpa.ret_false()
            if not cpa.equivalent(rf, cpa.bdd.NOT(rt)):
                return None
            for a in cpa.atoms_of(rt):
                for x in walk(a):
                    if x[0] in ("var", "upvar", "unknown", "resume", "localbool", "imported"):
                        return None
                    if x[0] == "call" and x[3] is not None:
                        return None
            args = e[2]

            def mapping(x):
                if isinstance(x, tuple) and x and x[0] == "param" and 1 <= x[1] <= len(args):
                    return args[x[1] - 1]
                if isinstance(x, tuple) and x and x[0] == "old":
                    return subst(x[1], mapping)
                return None
            return self.import_formula(cpa, rt, mapping)
        except Exception:
            return None
        finally:
            _inline_stack.pop()

    def _hit(self, evkeys, akeys):
        for k in evkeys:
            if k in akeys:
                return True
            if k[0] == "adt":
                for kk in akeys:
                    if kk[0] == "f" and kk[1] == k[1]:
                        return True
        return False

    def _kill(self, f, evkeys):
        if f <= 1 or not evkeys:
            return f
        vis = []
        for vi in self.bdd.support(f):
            ak = self.atom_keys.get(vi)
            if ak and self._hit(evkeys, ak):
                vis.append(vi)
        if not vis:
            return f
        return self.bdd.exists(f, frozenset(vis))

    # ------------------------------------------------------------------ propagation
    def _topo(self):
        cfg = self.cfg
        back = set(cfg.back_edges())
        indeg = defaultdict(int)
        region = cfg.live if self.entry == 0 else cfg.reach_from(self.entry, self.avoid)
        live = [b for b in sorted(region) if b not in self.avoid]
        liveset = set(live)
        for a in live:
            for s in cfg.succ[a]:
                if s in liveset and (a, s) not in back:
                    indeg[s] += 1
        order = []
        ready = [b for b in live if indeg[b] == 0]
        while ready:
            x = ready.pop()
            order.append(x)
            for s in cfg.succ[x]:
                if s in liveset and (x, s) not in back:
                    indeg[s] -= 1
                    if indeg[s] == 0:
                        ready.append(s)
        return order, back

    def _loop_kill_keys(self, head):
        keys = set()
        for blk in self.cfg.loop_body(head):
            for (_i, ek) in self.fa.events[blk]:
                keys |= ek
        return keys

    def _run(self):
        b = self.bdd
        cfg = self.cfg
        fn = self.fn
        order, back = self._topo()
        heads = set(h for (_t, h) in back)
        incoming = defaultdict(list)   # block -> [(cond, env_out)]
        incoming[self.entry].append((b.TRUE, {}))
        self.order = order
        for blk in order:
            inc = incoming.get(blk, [])
            if not inc:
                pc = b.FALSE
            else:
                pc = b.FALSE
                for (c, _e) in inc:
                    pc = b.OR(pc, c)
            env = {}
            for l in self.tracked:
                T = b.FALSE
                F = b.FALSE
                known = True
                for (c, e) in inc:
                    if l in e:
                        T = b.OR(T, e[l][0])
                        F = b.OR(F, e[l][1])
                    else:
                        known = False
                if known and inc:
                    env[l] = (T, F)
            if blk in heads:
                lk = self._loop_kill_keys(blk)
                pc = self._kill(pc, lk)
                env = {l: (self._kill(T, lk), self._kill(F, lk)) for l, (T, F) in env.items()}
                for l in list(env):
                    # a tracked local assigned inside the loop is not known at the head
                    if ("l", l) in lk:
                        del env[l]
            self.pc_in[blk] = pc
            self.bool_env[blk] = dict(env)
            # walk the block
            blkd = fn.blocks[blk]
            events = dict()
            for (i, ek) in self.fa.events[blk]:
                events.setdefault(i, set()).update(ek)
            cur = pc
            nst = len(blkd["stmts"])
            for si in range(nst + 1):
                if si < nst:
                    s = blkd["stmts"][si]
                    if s["k"] == "assign" and not s["p"]["proj"] and s["p"]["l"] in self.tracked:
                        val = self.fa.val_rvalue(s["rv"], (blk, si))
                        f = self.formula(val, (blk, si), env, cur)
                        env[s["p"]["l"]] = (b.AND(cur, f), b.AND(cur, b.NOT(f)))
                        ek = events.get(si, set()) - {("l", s["p"]["l"])}
                    else:
                        ek = events.get(si)
                else:
                    t = blkd["term"]
                    ek = events.get(si)
                    if t["k"] == "call" and not t["dest"]["proj"] and t["dest"]["l"] in self.tracked:
                        # handled after the kill below
                        pass
                if ek:
                    cur = self._kill(cur, ek)
                    env = {l: (self._kill(T, ek), self._kill(F, ek)) for l, (T, F) in env.items()}
                    for l in list(env):
                        if ("l", l) in ek:
                            del env[l]
            t = blkd["term"]
            if t["k"] == "call" and not t["dest"]["proj"] and t["dest"]["l"] in self.tracked:
                val = self.fa._val_call(t, (blk, nst), 0)
                f = self.formula(val, (blk, nst), env, cur)
                env[t["dest"]["l"]] = (b.AND(cur, f), b.AND(cur, b.NOT(f)))
            # edges
            for (succ, cond) in self._edges(blk, t, cur, env):
                self._edge_cond[(blk, succ)] = b.OR(self._edge_cond.get((blk, succ), b.FALSE), cond)
                if (blk, succ) in back or succ in self.avoid:
                    continue
                e2 = {l: (b.AND(T, cond), b.AND(F, cond)) for l, (T, F) in env.items()}
                incoming[succ].append((cond, e2))

    def _edges(self, blk, t, pc, env):
        b = self.bdd
        cfg = self.cfg
        k = t["k"]
        if k != "switch":
            return [(s, pc) for s in cfg.succ[blk]]
        if is_log_mac(t):
            return [(s, pc) for s in cfg.succ[blk]]
        nst = len(self.fn.blocks[blk]["stmts"])
        point = (blk, nst)
        val = self.fa.val_operand(t["d"], point)
        ty = t["ty"]
        vals, other = cfg.feasible_switch_values(blk)
        out = []
        if ty == "bool":
            f = self.formula(val, point, env, pc)
            for (v, d) in vals:
                out.append((d, b.AND(pc, f if v != 0 else b.NOT(f))))
            if other is not None:
                # `otherwise` of a bool switch is the value not listed
                listed = set(v for v, _ in vals)
                if listed == {0}:
                    out.append((other, b.AND(pc, f)))
                elif listed == {1}:
                    out.append((other, b.AND(pc, b.NOT(f))))
                else:
                    out.append((other, pc))
            return self._merge(out)
        # enum discriminant or integer value
        if val[0] == "discr":
            subject = val[1]
            names = dict(VARIANTS.get(subject, ()))
            mk = lambda v: ("is", subject, names.get(v, v))
        else:
            subject = val
            mk = lambda v: ("bin", "Eq", val, ("const", v, ty), ty) if repr(val) <= repr(("const", v, ty)) else\
                ("bin", "Eq", ("const", v, ty), val, ty)
        is_enum = val[0] == "discr"
        nvar = len(VARIANTS.get(subject, ())) if is_enum else 0
        mkf = (lambda v: self.is_atom(mk(v))) if is_enum else (lambda v: self.atom(mk(v)))
        if is_enum and nvar == 2:
            # two-variant enum: one atom, whatever the shape of the switch
            allv = dict(VARIANTS[subject])
            listed = dict(vals)
            for (v, d) in vals:
                out.append((d, b.AND(pc, mkf(v))))
            if other is not None:
                rest = [v for v in allv if v not in listed]
                c = b.FALSE
                for v in rest:
                    c = b.OR(c, mkf(v))
                out.append((other, b.AND(pc, c)))
            return self._merge(out)
        if other is None and len(vals) == 2 and not is_enum:
            (v0, d0), (v1, d1) = vals
            a0 = self.atom(mk(v0))
            self.duals[mk(v1)] = (mk(v0), False)
            out.append((d0, b.AND(pc, a0)))
            out.append((d1, b.AND(pc, b.NOT(a0))))
            return self._merge(out)
        if other is None and len(vals) == 1:
            return [(vals[0][1], pc)]
        atoms = [mkf(v) for (v, _d) in vals]
        for i, (v, d) in enumerate(vals):
            c = atoms[i]
            for j, a in enumerate(atoms):
                if j != i:
                    c = b.AND(c, b.NOT(a))
            out.append((d, b.AND(pc, c)))
        if other is not None:
            c = b.TRUE
            for a in atoms:
                c = b.AND(c, b.NOT(a))
            out.append((other, b.AND(pc, c)))
        else:
            # exhaustive: at least one holds
            any_ = b.FALSE
            for a in atoms:
                any_ = b.OR(any_, a)
            self.axioms = b.AND(self.axioms, any_)
        return self._merge(out)

    def _merge(self, out):
        m = {}
        order = []
        for (d, c) in out:
            if d in m:
                m[d] = self.bdd.OR(m[d], c)
            else:
                m[d] = c
                order.append(d)
        return [(d, m[d]) for d in order]

    # ------------------------------------------------------------------ queries
    def pc_block(self, blk):
        return self.pc_in.get(blk, self.bdd.FALSE)

    def pc_at(self, blk, idx):
        """Path condition immediately before statement `idx` of block (idx = len(stmts) for the terminator)."""
        pc = self.pc_in.get(blk, self.bdd.FALSE)
        for (i, ek) in sorted(self.fa.events[blk], key=lambda x: x[0]):
            if i < idx:
                pc = self._kill(pc, ek)
        return pc

    def env_at(self, blk, idx):
        """Tracked bool locals' (T, F) formulas immediately before statement idx of blk."""
        b = self.bdd
        env = dict(self.bool_env.get(blk, {}))
        blkd = self.fn.blocks[blk]
        cur = self.pc_in.get(blk, b.FALSE)
        events = {}
        for (i, ek) in self.fa.events[blk]:
            events.setdefault(i, set()).update(ek)
        for si in range(min(idx, len(blkd["stmts"]))):
            s = blkd["stmts"][si]
            ek = events.get(si)
            if s["k"] == "assign" and not s["p"]["proj"] and s["p"]["l"] in self.tracked:
                val = self.fa.val_rvalue(s["rv"], (blk, si))
                f = self.formula(val, (blk, si), env, cur)
                env[s["p"]["l"]] = (b.AND(cur, f), b.AND(cur, b.NOT(f)))
                ek = (ek or set()) - {("l", s["p"]["l"])}
            if ek:
                cur = self._kill(cur, ek)
                env = {l: (self._kill(T, ek), self._kill(F, ek)) for l, (T, F) in env.items()}
                for l in list(env):
                    if ("l", l) in ek:
                        del env[l]
        return env, cur

    def value_formula(self, operand, blk, idx):
        """BDD (relative to PC) of a bool operand evaluated just before statement idx of blk."""
        env, cur = self.env_at(blk, idx)
        val = self.fa.val_operand(operand, (blk, idx))
        return self.formula(val, (blk, idx), env, cur)

    def edge_cond(self, a, c):
        return self._edge_cond.get((a, c), self.bdd.FALSE)

    # return-value formulas ------------------------------------------------------
    def ret_true(self):
        """Formula under which a bool function returns true (over atoms of its own context)."""
        b = self.bdd
        res = b.FALSE
        for r in self.cfg.returns:
            if r not in self.pc_in:
                continue
            nst = len(self.fn.blocks[r]["stmts"])
            env, cur = self.env_at(r, nst)
            val = self.fa.val_local(0, (r, nst))
            f = self.formula(val, (r, nst), env, cur)
            res = b.OR(res, b.AND(cur, f))
        return res

    def ret_false(self):
        b = self.bdd
        res = b.FALSE
        for r in self.cfg.returns:
            if r not in self.pc_in:
                continue
            nst = len(self.fn.blocks[r]["stmts"])
            env, cur = self.env_at(r, nst)
            val = self.fa.val_local(0, (r, nst))
            f = self.formula(val, (r, nst), env, cur)
            res = b.OR(res, b.AND(cur, b.NOT(f)))
        return res

    def pc_return(self):
        b = self.bdd
        res = b.FALSE
        for r in self.cfg.returns:
            if r in self.pc_in:
                res = b.OR(res, self.pc_at(r, len(self.fn.blocks[r]["stmts"])))
        return res

_pa_cache = {}
_inline_stack = []
_named = []


def named_in_rules():
    """Identifiers that occur in the rule sources: helpers the rules speak about by name stay opaque atoms."""
    if not _named:
        import glob
        import os
        import re
        here = os.path.dirname(os.path.abspath(__file__))
        toks = set()
        for p in glob.glob(os.path.join(here, "rules", "*.py")) + [os.path.join(here, "linkpred.py"), os.path.join(here, "ctx.py")]:
            with open(p) as fh:
                toks.update(re.findall(r"[A-Za-z_][A-Za-z0-9_]*", fh.read()))
        _named.append(toks)
    return _named[0]


def patha_of(world, fn):
    k = (world.uid, fn.id)
    r = _pa_cache.get(k)
    if r is None:
        r = PathA(world, fn)
        _pa_cache[k] = r
    return r


# ------------------------------------------------------------------ site finders

def call_sites(fn, pred):
    """[(bb, term)] of calls whose callee record satisfies pred(callee dict)."""
    out = []
    for (bb, t) in fn.calls():
        f = t["f"]
        if "id" in f and pred(f):
            out.append((bb, t))
    return out


def calls_to(fn, stable=None, path_contains=None):
    def pred(f):
        if stable is not None and f.get("stable") != stable:
            return False
        if path_contains is not None and path_contains not in f["path"]:
            return False
        return True
    return call_sites(fn, pred)


def field_stores(fn, adt, field):
    """[(bb, si, stmt)] of direct stores to a place ending in adt.field."""
    out = []
    for bi, b in enumerate(fn.blocks):
        if b["cleanup"]:
            continue
        for si, s in enumerate(b["stmts"]):
            if s["k"] != "assign":
                continue
            proj = s["p"]["proj"]
            if proj and proj[-1]["k"] == "field" and proj[-1].get("adt") == adt and proj[-1]["n"] == field:
                out.append((bi, si, s))
    return out
