"""C05 - a NAK is charged once, and only to a link that carried the packet.

D1 at most one charge per NAK number (CFG shape of attribute_nak, who-may-call);
D2 only a holder is charged (the congestion charge is guarded by a successful removal from the link's own log);
D3 the charge is exactly one loss count (saturating +1), window := max(window - 100, 1000), one removal;
D4 tracker validity predicate, slot index and slot overwrite;
D5 who records ownership (the forwarder only, never the probe path), with which values;
D6 a tracker hit naming a vanished link falls back to the holder scan.
"""
from ..absint import AbsInt, Entry, Num
from ..ctx import CONN, is_call, is_field, sname, some_of
from ..expr import show, walk
from ..pathcond import calls_to, field_stores
from . import C06

from ..roles import upvar_index  # noqa: E402

LEVEL = "proof"
ATTR = "srtla_send::sender::packet_handler::attribute_nak"
PCE = "srtla_send::sender::packet_handler::process_connection_events::{closure#0}"
FWD = "srtla_send::sender::packet_handler::forward_via_connection::{closure#0}"
TR = "srtla_send::sender::sequence::SequenceTracker"
TE = "srtla_send::sender::sequence::SequenceTrackingEntry"
CC = C06.CC
HN = CONN + "::handle_nak"


def d1_once(ctx):
    f = ctx.fn(ATTR, "D1")
    if not f:
        return
    cfg = ctx.cfg(f)
    pa = ctx.pa(f)
    sites = calls_to(f, stable=HN)
    ctx.chk.floor("D1", "handle_nak sites in attribute_nak", len(sites), 2)
    hit = [(bb, t) for (bb, t) in sites if not cfg.in_cycle(bb)]
    scan = [(bb, t) for (bb, t) in sites if cfg.in_cycle(bb)]
    ok = len(hit) == 1 and len(scan) == 1 and len(sites) == 2
    ctx.chk.ob("D1", "one tracker-hit charge site (straight line) and one fallback charge site (loop)", ok,
               "%d outside a loop, %d inside" % (len(hit), len(scan)), key="D1:site-shape")
    if not ok:
        return
    hb, sb = hit[0][0], scan[0][0]
    ctx.chk.ob("D1", "a tracker hit never falls through to the fallback scan", not cfg.can_reach(hb, sb),
               "tracker-hit block bb%d, scan block bb%d" % (hb, sb), key="D1:never-both")
    # the fallback scan is entered only when the tracker has no usable record: get() is None, or no link has that id
    gcall = calls_to(f, stable=TR + "::get")
    pcall = calls_to(f, path_contains="Iterator>::position")
    if len(gcall) == 1 and len(pcall) == 1:
        gv = pa.fa._val_call(gcall[0][1], (gcall[0][0], len(f.blocks[gcall[0][0]]["stmts"])), 0)
        pv = pa.fa._val_call(pcall[0][1], (pcall[0][0], len(f.blocks[pcall[0][0]]["stmts"])), 0)
        miss = pa.bdd.OR(pa.is_atom(("is", gv, "None")), pa.is_atom(("is", pv, "None")))
        pcs = pa.pc_block(sb)
        ok = pa.entails(pcs, miss)
        ctx.chk.ob("D1", "while the tracker names a present link, no other link can be charged (the scan needs a tracker miss)", ok,
                   "" if ok else "the holder scan is reachable with %s" % pa.counterexample(pcs, miss), key="D1:scan-only-on-tracker-miss")
    else:
        ctx.chk.missing("D1", "attribute_nak: tracker get / position calls", "%d / %d" % (len(gcall), len(pcall)))
    # the scan continues only after a charge that returned false
    head, body = cfg.innermost_loop_of(sb)
    call_atom = pa.atom(pa.fa._val_call(scan[0][1], (sb, len(f.blocks[sb]["stmts"])), 0))
    for (t, h) in cfg.back_edges():
        if h != head:
            continue
        ec = pa.edge_cond(t, h)
        ctx.chk.ob("D1", "the fallback scan goes on only if the link did not hold the packet", pa.entails(ec, pa.bdd.NOT(call_atom)),
                   "back edge condition: %s" % pa.show(ec, 4), key="D1:backedge-only-if-not-charged")
    # tracker hit charges the link the tracker names
    t = hit[0][1]
    v = pa.fa.val_operand(t["args"][0], (hb, len(f.blocks[hb]["stmts"])))
    ok = False
    detail = show(v, f.names)
    if v[0] == "index" and v[1] == ("param", 1):
        pos = v[2]
        if pos[0] == "field" and pos[1][0] == "as" and is_call(pos[1][1], name_contains="Iterator>::position"):
            pc_ = pos[1][1]
            it, cl = pc_[2][0], pc_[2][1]
            full = is_call(it, name_contains="<impl [T]>::iter") and it[2] == (("param", 1),)
            cid = cl[3][0] if cl[0] == "agg" and cl[3] else None
            named = cid is not None and cid[0] == "field" and cid[1][0] == "as" and is_call(cid[1][1], stable=TR + "::get") \
                and cid[1][1][2][1] == ("param", 3)
            clf = ctx.w.fns.get(cl[2]) if cl[0] == "agg" else None
            rt_ok = False
            if clf is not None:
                cpa = ctx.pa(clf)
                rt = cpa.ret_true()
                want = cpa.lit(("bin", "Eq", ("field", ("param", 2), CONN, "conn_id"), ("upvar", 0), "u64"))
                rt_ok = cpa.equivalent(rt, want)
            ok = full and named and rt_ok
            detail += " ; closure matches conn_id == tracker id: %s" % rt_ok
    ctx.chk.ob("D1", "a tracker hit charges exactly the link whose conn_id the tracker returned for this NAK", ok, detail[:400], key="D1:hit-charges-named-link")
    # both sites charge the NAKed number itself
    for (bb, tt) in sites:
        a = pa.fa.val_operand(tt["args"][1], (bb, len(f.blocks[bb]["stmts"])))
        ctx.chk.ob("D1", "charge is for the NAKed sequence number", a == ("cast", "i32", ("param", 3), "u32"), show(a, f.names), key="D1:charged-seq", loc=tt.get("loc"))
    ctx.WHO_CALLS("D1", HN, {ATTR}, floor=2)
    ctx.WHO_CALLS("D1", ATTR, {PCE}, floor=1)
    pce = ctx.fn(PCE, "D1")
    if pce:
        fa = ctx.fa(pce)
        cfgp = ctx.cfg(pce)
        for (bb, tt) in calls_to(pce, stable=ATTR):
            a = fa.val_operand(tt["args"][2], (bb, len(pce.blocks[bb]["stmts"])))
            src = [x for x in walk(a) if is_field(x, "nak_numbers")]
            ctx.chk.ob("D1", "attribute_nak is called once per received NAK number", bool(src) and cfgp.in_cycle(bb),
                       "argument %s" % show(a, pce.names)[:200], key="D1:once-per-nak", loc=tt.get("loc"))


def d2_holder_only(ctx):
    f = ctx.fn(HN, "D2")
    if not f:
        return
    pa = ctx.pa(f)
    ctx.WHO_CALLS("D2", CC + "::handle_nak", {HN}, floor=1)
    rm = calls_to(f, path_contains="HashMap::<K, V, S, A>::remove")
    ctx.chk.ob("D2", "exactly one removal from the link's own log", len(rm) == 1, "%d remove sites" % len(rm), key="D2:one-remove")
    if len(rm) != 1:
        return
    rb, rt = rm[0]
    rv = pa.fa._val_call(rt, (rb, len(f.blocks[rb]["stmts"])), 0)
    okargs = is_field(rv[2][0], "packet_log", CONN) and rv[2][1] == ("param", 2)
    ctx.chk.ob("D2", "the removal is packet_log.remove(&seq)", okargs, show(rv, f.names), key="D2:remove-args")
    found = [fm for (a, fm) in some_of(pa, lambda x: x == rv)]
    if not found:
        ctx.chk.missing("D2", "handle_nak: is_some(remove(..)) test", "")
        return
    FOUND = found[0]
    for (bb, t) in calls_to(f, stable=CC + "::handle_nak"):
        ctx.GUARD("D2", f, bb, len(f.blocks[bb]["stmts"]), [("the link held the packet", FOUND)], "congestion charge", key="D2:charge-guarded-by-found")
    # every store of the function is under `found` (an unknown NAK changes nothing)
    for bi, blk in enumerate(f.blocks):
        if blk["cleanup"]:
            continue
        for si, s in enumerate(blk["stmts"]):
            if s["k"] == "assign" and s["p"]["proj"] and s["p"]["proj"][0]["k"] == "deref" and any(e["k"] == "field" for e in s["p"]["proj"]):
                ctx.GUARD("D2", f, bi, si, [("the link held the packet", FOUND)], "store to self.%s" % s["p"]["proj"][-1].get("n"),
                          key="D2:store-guarded-by-found:%s" % s["p"]["proj"][-1].get("n"))
    # return value is `found`
    rvs = [pa.fa.val_local(0, (r, len(f.blocks[r]["stmts"]))) for r in ctx.cfg(f).returns]
    ok = rvs and pa.equivalent(pa.ret_true(), FOUND)  # any control shape: returns true exactly when the packet was held
    ctx.chk.ob("D2", "handle_nak reports whether it charged", bool(ok), "returns %s" % [show(v, f.names)[:100] for v in rvs], key="D2:returns-found")


def d3_the_charge(ctx):
    f = ctx.fn(CC + "::handle_nak", "D3")
    if not f:
        return
    ai = AbsInt(ctx.w)
    IMAX = 2**31 - 1
    e = Entry().sym("w", 1000, 60000).sym("n", -2**31, IMAX)
    e.pointee(2, Num("i32", 1000, 60000, False, ("s", "w")))
    e.pointee(1, Num("i32", -2**31, IMAX, False, ("s", "n")), (("f", "nak_count"),))
    ai.run(f, e)
    wcell = (ai.top_frame, 2, ("deref",))
    ncell = (ai.top_frame, 1, ("deref", ("f", "nak_count")))
    ws = [s for s in ai.stores if s.cell == wcell]
    ns = [s for s in ai.stores if s.cell == ncell]
    want_w = ("max", ("-", ("s", "w"), ("c", 100)), ("c", 1000))
    ok = len(ws) == 1 and isinstance(ws[0].value, Num) and ws[0].value.sym is not None and \
        ai.symenv.le(ws[0].value.sym, want_w) and ai.symenv.le(want_w, ws[0].value.sym)
    ctx.chk.ob("D3", "one window store: max(window - 100, 1000)", ok, "stores %s" % [repr(s.value) for s in ws], key="D3:window-charge")
    want_n = ("min", ("+", ("s", "n"), ("c", 1)), ("c", IMAX))
    ok = len(ns) == 1 and isinstance(ns[0].value, Num) and ns[0].value.sym is not None and \
        ai.symenv.le(ns[0].value.sym, want_n) and ai.symenv.le(want_n, ns[0].value.sym)
    ctx.chk.ob("D3", "one loss count: nak_count := saturating_add(nak_count, 1)", ok, "stores %s" % [repr(s.value) for s in ns], key="D3:nak-count-charge")
    # the window store is unconditional in the charge function
    pa = ctx.pa(f)
    for s in ws:
        ctx.chk.ob("D3", "the window decrement is applied on every charge", pa.pc_at(s.bb, s.si) == pa.bdd.TRUE, "PC = %s" % pa.show(pa.pc_at(s.bb, s.si)), key="D3:window-charge-unconditional")
    ctx.CONST("D3", "srtla_protocol::constants::WINDOW_DECR", 100)
    # in-flight slot: resync after the removal
    h = ctx.fn(HN, "D3")
    if h:
        fa = ctx.fa(h)
        st = field_stores(h, CONN, "in_flight_packets")
        ok = len(st) == 1
        if ok:
            v = fa.val_rvalue(st[0][2]["rv"], (st[0][0], st[0][1]))
            ok = v[0] == "cast" and v[1] == "i32" and is_call(v[2], name_contains="::len") and is_field(v[2][2][0], "packet_log", CONN)
        ctx.chk.ob("D3", "one in-flight slot: in_flight := packet_log.len() after the removal", ok, "", key="D3:in-flight-resync")


def d4_tracker_validity(ctx):
    ctx.CONST("D4", "srtla_send::sender::sequence::SEQUENCE_TRACKING_MAX_AGE_MS", 5000)
    size = ctx.const("srtla_send::sender::sequence::SEQ_TRACKING_SIZE", "D4")
    mask = ctx.const("srtla_send::sender::sequence::SEQ_TRACKING_MASK", "D4")
    if size is not None and mask is not None:
        ctx.chk.ob("D4", "tracker size is a power of two and the mask is size - 1", size > 0 and size & (size - 1) == 0 and mask == size - 1,
                   "size %d mask %d" % (size, mask), key="D4:mask")
    ex = ctx.fn(TE + "::is_expired", "D4")
    if ex:
        pa = ctx.pa(ex)
        want = pa.lit(("bin", "Lt", ("const", 5000, "u64"),
                       ("call", "core::num::<impl u64>::saturating_sub", (("param", 2), ("field", ("param", 1), TE, "timestamp_ms")), None, None), "u64"))
        rt = pa.ret_true()
        ctx.chk.ob("D4", "expired iff now - timestamp > 5000", pa.equivalent(rt, want), "RT = %s" % pa.show(rt), key="D4:is-expired")
    iv = ctx.fn(TE + "::is_valid", "D4")
    if iv:
        pa = ctx.pa(iv)
        rt = pa.ret_true()
        b = pa.bdd
        c1 = b.NOT(pa.lit(("bin", "Eq", ("const", 0, "u64"), ("field", ("param", 1), TE, "conn_id"), "u64")))
        c2 = pa.lit(("bin", "Eq", ("field", ("param", 1), TE, "seq"), ("param", 2), "u32"))
        ex_atoms = pa.find(lambda a: is_call(a, stable=TE + "::is_expired") and a[2] == (("param", 1), ("param", 3)))
        ok = bool(ex_atoms) and pa.equivalent(rt, b.AND(b.AND(c1, c2), b.NOT(ex_atoms[0][1])))
        ctx.chk.ob("D4", "valid iff conn_id != 0 & same sequence number & not expired", ok, "RT = %s" % pa.show(rt), key="D4:is-valid")
    g = ctx.fn(TR + "::get", "D4")
    if g:
        pa = ctx.pa(g)
        fa = pa.fa
        somes = []
        for bi, blk in enumerate(g.blocks):
            for si, s in enumerate(blk["stmts"]):
                if s["k"] == "assign" and s["p"]["l"] == 0 and not s["p"]["proj"] and s["rv"]["k"] == "agg" and s["rv"].get("vn") == "Some":
                    somes.append((bi, si, s))
        ok = len(somes) == 1
        detail = ""
        if ok:
            bi, si, s = somes[0]
            v = fa.val_rvalue(s["rv"], (bi, si))
            pay = v[3][0]
            detail = show(pay, g.names)
            idx_ok = pay[0] == "field" and pay[3] == "conn_id" and pay[1][0] == "index" and _is_slot(pay[1][2])
            pc = pa.pc_at(bi, si)
            va = pa.find(lambda a: is_call(a, stable=TE + "::is_valid") and a[2][0] == pay[1] and a[2][1] == ("param", 2) and a[2][2] == ("param", 3))
            ok = idx_ok and bool(va) and pa.entails(pc, va[0][1])
        ctx.chk.ob("D4", "get returns entries[seq & mask].conn_id only under is_valid(entry, seq, now)", ok, detail[:300], key="D4:get")
    ins = ctx.fn(TR + "::insert", "D4")
    if ins:
        fa = ctx.fa(ins)
        pa = ctx.pa(ins)
        whole = [a for a in ctx.eff.whole_writes.get(TE, []) if a.fn.id == ins.id]
        ok = len(whole) == 1
        detail = ""
        if ok:
            a = whole[0]
            s = ins.blocks[a.bb]["stmts"][a.si]
            v = fa.val_rvalue(s["rv"], (a.bb, a.si))
            detail = show(v, ins.names)
            # the target is the slot itself, written through a held `&mut entries[i]` or as `entries[i] = ..`
            pr = s["p"]["proj"]
            tgt = fa.val_place({"l": s["p"]["l"], "proj": pr[:-1]}, (a.bb, a.si))
            if pr and pr[-1]["k"] == "index":
                tgt = ("index", fa.val_place({"l": s["p"]["l"], "proj": pr[:-1]}, (a.bb, a.si)), fa.val_local(pr[-1]["l"], (a.bb, a.si)))
                if not any(is_field(x, "entries") for x in walk(tgt[1])):
                    tgt = ("unknown",)
            ok = v[0] == "agg" and v[4] == ("conn_id", "timestamp_ms", "seq") and v[3] == (("param", 3), ("param", 4), ("param", 2)) \
                and tgt[0] == "index" and _is_slot(tgt[2]) and pa.pc_at(a.bb, a.si) == pa.bdd.TRUE
        ctx.chk.ob("D4", "insert overwrites slot seq & mask with (conn_id, time, seq), unconditionally", ok, detail[:300], key="D4:insert")


def _is_slot(e):
    """(seq as usize) & MASK  with seq = param 2"""
    if e[0] == "call" and "index" in e[1]:
        return False
    if e[0] == "bin" and e[1] == "BitAnd":
        ops = (e[2], e[3])
        has_seq = any(o == ("cast", "usize", ("param", 2), "u32") for o in ops)
        has_mask = any(o[0] == "const" and o[1] == 16383 for o in ops) or any(o[0] == "constdef" for o in ops)
        return has_seq and has_mask
    return False


def d5_who_records(ctx):
    ctx.WHO_CALLS("D5", TR + "::insert", {FWD}, floor=1)
    ctx.WHO_CALLS("D5", TR + "::remove_connection", {"srtla_send::sender::connections::apply_connection_changes::{closure#0}"}, floor=1)
    ctx.WHO_WRITES("D5", TR, "entries", {TR + "::insert", TR + "::remove_connection"}, floor=2, allow_agg_in={TR + "::new"})
    f = ctx.fn(FWD, "D5")
    if not f:
        return
    pa = ctx.pa(f)
    si_ = [i for i in [upvar_index(f, "seq")] if i is not None]
    for (bb, t) in calls_to(f, stable=TR + "::insert"):
        nst = len(f.blocks[bb]["stmts"])
        args = [pa.fa.val_operand(a, (bb, nst)) for a in t["args"]]
        a_seq, a_id, a_t = args[1], args[2], args[3]
        sel = [i for i in [upvar_index(f, "sel_idx")] if i is not None]
        tm = [i for i in [upvar_index(f, "packet_time_ms")] if i is not None]
        ok_seq = bool(si_) and a_seq == ("field", ("as", ("upvar", si_[0]), "Some"), "core::option::Option", "0")
        ok_id = bool(sel) and is_field(a_id, "conn_id", CONN) and a_id[1][0] == "index" and a_id[1][2] == ("upvar", sel[0])
        if a_id[0] == "old":
            inner = a_id[1]
            ok_id = bool(sel) and is_field(inner, "conn_id", CONN) and inner[1][0] == "index" and inner[1][2] == ("upvar", sel[0])
        ok_t = bool(tm) and a_t == ("upvar", tm[0])
        ctx.chk.ob("D5", "ownership record = (seq, connections[sel_idx].conn_id, packet time)", ok_seq and ok_id and ok_t,
                   "args %s" % [show(a, f.names)[:80] for a in args[1:]], key="D5:insert-values", loc=t.get("loc"))
        some = pa.find(lambda a: a[0] == "is" and bool(si_) and a[1] == ("upvar", si_[0]))
        need = None
        for (a, fm) in some:
            need = fm if a[2] == "Some" else pa.bdd.NOT(fm)
        ctx.chk.ob("D5", "recorded only for data packets (seq is Some)", need is not None and pa.entails(pa.pc_block(bb), need), "", key="D5:insert-guard")
        # conn_id is read before the queueing call can change anything: conn_id is never written
    ws = [a for a in ctx.eff.writers_of(CONN, "conn_id", ("store", "callstore", "mutborrow"))]
    ctx.chk.ob("D5", "conn_id is never reassigned", not ws, "; ".join(a.fn.stable for a in ws[:3]), key="D5:conn-id-immutable")


def d6_vanished_link_falls_back(ctx):
    f = ctx.fn(ATTR, "D6")
    if not f:
        return
    cfg = ctx.cfg(f)
    sites = calls_to(f, stable=HN)
    scan = [bb for (bb, t) in sites if cfg.in_cycle(bb)]
    pos = calls_to(f, path_contains="Iterator>::position")
    if len(pos) != 1 or len(scan) != 1:
        ctx.chk.missing("D6", "attribute_nak: position / scan sites", "")
        return
    # the block testing the position result: some successor avoids the hit site and reaches the scan
    pb = pos[0][1]["t"]
    hit = [bb for (bb, t) in sites if not cfg.in_cycle(bb)]
    ok = cfg.can_reach(pb, scan[0], avoid=hit)
    ctx.chk.ob("D6", "no link with the tracked id: the holder scan still runs", ok, "", key="D6:position-none-reaches-scan")
    g = calls_to(f, stable=TR + "::get")
    if len(g) == 1:
        ok = cfg.can_reach(g[0][1]["t"], scan[0], avoid=hit + [pos[0][0]])
        ctx.chk.ob("D6", "tracker miss: the holder scan runs", ok, "", key="D6:miss-reaches-scan")


RULES = [d1_once, d2_holder_only, d3_the_charge, d4_tracker_validity, d5_who_records, d6_vanished_link_falls_back]


def run(ctx):
    ctx.chk.not_decided = ["'the sender still remembers' is decided as the validity predicate D4 (same sequence number, age <= 5000 ms, "
                           "slot not overwritten), not as a timed history"]
    ctx.run_rules(RULES)
