"""Fact loading: the JSON written by /verif/driver (mirfacts) -> Python objects.

A *world* is one closed set of crate units that is linked together: the shell
(`srtla_send`, either its `lib` or its `bin` build) plus `srtla_core` and
`srtla_protocol` (and `network_sim` for the lib world).  Function ids are
`crate::DefPath` strings and are unique within a world.
"""
import json
import os
import struct


class Fn:
    __slots__ = ("d", "id", "stable", "kind", "parent", "loc", "blocks", "locals", "argc",
                 "unit", "names", "debug", "_calls", "crate", "witnesses", "unsafe_block",
                 "unsafe_fn", "pretty", "vis", "upvar_names", "promoted")

    def __init__(self, d, unit):
        self.d = d
        self.id = d["id"]
        self.stable = d["stable"]
        self.pretty = d["pretty"]
        self.kind = d["kind"]
        self.parent = d["parent"]
        self.loc = d["loc"]
        self.blocks = d["blocks"]
        self.locals = d["locals"]
        self.argc = d["argc"]
        self.unit = unit
        self.crate = unit.crate
        self.debug = d["debug"]
        self.witnesses = d.get("witnesses")
        self.promoted = d.get("promoted", [])
        self.unsafe_block = d["unsafe_block"]
        self.unsafe_fn = d["unsafe_fn"]
        self.vis = d["vis"]
        self.names = {}
        for dbg in self.debug:
            p = dbg["p"]
            if not p["proj"]:
                self.names.setdefault(p["l"], dbg["name"])
        # closure / coroutine captures: `debug name => (*_1).k` gives capture k its source name
        self.upvar_names = {}
        for dbg in self.debug:
            p = dbg["p"]
            if p["l"] == 1 and p["proj"]:
                fields = [e for e in p["proj"] if e["k"] == "field"]
                if len(fields) == 1 and all(e["k"] in ("field", "deref") for e in p["proj"]):
                    self.upvar_names.setdefault(fields[0]["i"], dbg["name"])
        if self.upvar_names:
            self.names["__upvars__"] = self.upvar_names
        self._calls = None

    @property
    def file(self):
        return self.loc.rsplit(":", 1)[0]

    def local_ty(self, l):
        return self.locals[l]["ty"]

    def name_of(self, l):
        return self.names.get(l)

    def calls(self):
        """[(bb, term)] for every Call terminator in non-cleanup blocks."""
        if self._calls is None:
            out = []
            for i, b in enumerate(self.blocks):
                if b["cleanup"]:
                    continue
                t = b["term"]
                if t["k"] == "call":
                    out.append((i, t))
            self._calls = out
        return self._calls

    def __repr__(self):
        return "<Fn %s>" % self.stable


class Unit:
    def __init__(self, path):
        with open(path) as f:
            d = json.load(f)
        self.path = path
        self.crate = d["crate"]
        self.unit = d["unit"]
        self.config = d.get("config", "")
        self.src_hash = d.get("src_hash", "")
        self.rustc_args = d.get("rustc_args", [])
        self.debug_assertions = d.get("debug_assertions")
        self.overflow_checks = d.get("overflow_checks")
        self.adts = {a["id"]: a for a in d["adts"]}
        self.consts = {c["id"]: c for c in d["consts"]}
        self.fns = {}
        for fd in d["fns"]:
            fn = Fn(fd, self)
            self.fns[fn.id] = fn
        self.name = "%s-%s" % (self.crate, self.unit)
        self.stolen = d.get("stolen", 0)


class World:
    """A linked set of units. Lookup by id or by stable name."""

    _counter = [0]

    def __init__(self, name, units):
        World._counter[0] += 1
        self.uid = World._counter[0]     # identity for analysis caches (never reused, unlike id())
        self.name = name
        self.units = units
        self.fns = {}
        self.adts = {}
        self.consts = {}
        self.by_stable = {}
        for u in units:
            for k, v in u.fns.items():
                self.fns[k] = v
                self.by_stable.setdefault(v.stable, []).append(v)
            self.adts.update(u.adts)
            self.consts.update(u.consts)
        self.local_crates = set(u.crate for u in units)

    def fn(self, stable):
        """Exactly one function with this stable name, else None."""
        l = self.by_stable.get(stable, [])
        if len(l) == 1:
            return l[0]
        return None

    def fns_matching(self, pred):
        return [f for f in self.fns.values() if pred(f)]

    def closures_of(self, fn):
        return sorted([f for f in self.fns.values() if f.parent == fn.id], key=lambda f: f.id)

    def const(self, cid):
        c = self.consts.get(cid)
        if c is None:
            return None
        return const_value(c)

    def adt_fields(self, adt_id, variant=0):
        a = self.adts.get(adt_id)
        if not a:
            return None
        return [f["name"] for f in a["variants"][variant]["fields"]]


def const_value(c):
    """Python value of an evaluated scalar constant record / const operand."""
    if "val" in c:
        return c["val"]
    if "fbits" in c:
        if c.get("fw") == 64:
            return struct.unpack("<d", struct.pack("<Q", c["fbits"]))[0]
        if c.get("fw") == 32:
            return struct.unpack("<f", struct.pack("<I", c["fbits"]))[0]
    if "str" in c:
        return c["str"]
    if "bytes" in c:
        return bytes.fromhex(c["bytes"])
    return None


def load_worlds(facts_dir, with_sim=True):
    def p(n):
        return os.path.join(facts_dir, n + ".json")
    core = Unit(p("srtla_core-lib"))
    proto = Unit(p("srtla_protocol-lib"))
    lib = Unit(p("srtla_send-lib"))
    binu = Unit(p("srtla_send-bin"))
    units_lib = [lib, core, proto]
    if with_sim and os.path.exists(p("network_sim-lib")):
        units_lib.append(Unit(p("network_sim-lib")))
    return [World("lib", units_lib), World("bin", [binu, core, proto])]


class PromotedFn:
    """A promoted constant body dressed up as a function (straight-line, no parameters)."""

    def __init__(self, owner, idx):
        d = owner.promoted[idx]
        self.id = "%s::{promoted#%d}" % (owner.id, idx)
        self.stable = "%s::{promoted#%d}" % (owner.stable, idx)
        self.kind = "promoted"
        self.parent = owner.id
        self.loc = owner.loc
        self.blocks = d["blocks"]
        self.locals = d["locals"]
        self.argc = 0
        self.unit = owner.unit
        self.crate = owner.crate
        self.names = {}
        self.debug = []
        self.upvar_names = {}
        self.unsafe_block = False
        self.unsafe_fn = False
        self.promoted = []
        self._calls = None

    calls = Fn.calls
    local_ty = Fn.local_ty
    name_of = Fn.name_of
