"""C07 - the registration handshake follows the two-phase SRTLA protocol.

D1 one REG1 slot: every REG1 is built next to `pending_reg2_idx := Some(idx)` and a deadline 4 s ahead, and only when the slot is free
   (driver, immediate-NGP) or already names this very uplink (housekeeping re-send);
D2 the driver emits REG1 only with nothing registered (active_connections == 0, target chosen, throttle elapsed), and the count it reads
   was recomputed from the links just before;
D3 REG2 acceptance: the id is adopted only from the uplink REG1 went to, only from a full-length frame, bytes [2, 258); the slot is freed
   and exactly one broadcast round is armed; the round is emitted once per arming;
D4 id provenance: every REG1 / registration REG2 carries self.srtla_id (the probe REG2 is the one listed exception);
D5 connected only on REG3 on that uplink (shared with C08.D4); the event is produced for type 0x9202 only (C09.D1);
D6 REG_ERR cancels the pending attempt on every path;
D7 an unanswered REG1 is abandoned at the 4 s deadline, first thing in housekeeping;
D8 every registration frame leaves on the uplink the manager named: driver REG1 on connections[sends.reg1.0], the re-sent REG1 / REG2 on
   the loop's own link i, the immediate REG1 on the link the REG_NGP arrived on, the broadcast on every element of the whole slice.
"""
from ..ctx import CONN, is_call, is_field, sname, some_of
from ..expr import show, strip_old, walk
from ..pathcond import PathA, calls_to, field_stores
from . import C08, C09

from ..roles import upvar_index  # noqa: E402

LEVEL = "other"
R = "srtla_core::registration::SrtlaRegistrationManager"
S = ("param", 1)
B1 = "srtla_protocol::builders::create_reg1_packet"
B2 = "srtla_protocol::builders::create_reg2_packet"
DRV = R + "::reg_driver_pending_sends"
HKC = C08.HKC


def fld(n):
    return ("field", S, R, n)


def d1_one_reg1_slot(ctx):
    ctx.WHO_CALLS("D1", B1, {DRV, R + "::build_reg1_for"}, floor=2)
    ctx.WHO_WRITES("D1", R, "pending_reg2_idx", {DRV, R + "::build_reg1_for", R + "::handle_reg2", R + "::handle_reg_err", R + "::clear_pending_if_timed_out"}, floor=5,
                   allow_agg_in={R + "::new"})
    for st in (DRV, R + "::build_reg1_for"):
        f = ctx.fn(st, "D1")
        if not f:
            continue
        pa = ctx.pa(f)
        cfg = ctx.cfg(f)
        for (bb, t) in calls_to(f, stable=B1):
            # same path: slot := Some(idx) and deadline := now + REG2_TIMEOUT*1000
            slot = [(b_, i_, s_) for (b_, i_, s_) in field_stores(f, R, "pending_reg2_idx") if cfg.dominates(bb, b_) or b_ == bb]
            dl = [(b_, i_, s_) for (b_, i_, s_) in field_stores(f, R, "pending_timeout_at_ms") if cfg.dominates(bb, b_) or b_ == bb]
            oks = bool(slot) and all(pa.fa.val_rvalue(s_["rv"], (b_, i_))[0] == "agg" and pa.fa.val_rvalue(s_["rv"], (b_, i_))[2].endswith("::Some") for (b_, i_, s_) in slot)
            okd = False
            for (b_, i_, s_) in dl:
                v = pa.fa.val_rvalue(s_["rv"], (b_, i_))
                if v[0] == "bin" and v[1] == "Add":
                    parts = (v[2], v[3])
                    ms = [x for x in parts if x[0] == "bin" and x[1] == "Mul" and ("const", 1000, "u64") in (x[2], x[3]) and ("const", 4, "u64") in (x[2], x[3])] or \
                        [x for x in parts if x == ("const", 4000, "u64")]
                    okd = bool(ms) and any(x[0] == "param" for x in parts)
            # nothing returns between the REG1 and the two stores without them: the stores post-dominate the build
            pd = bool(slot) and bool(dl) and any(cfg.postdominates(b_, bb) for (b_, i_, s_) in slot) and any(cfg.postdominates(b_, bb) for (b_, i_, s_) in dl)
            ctx.chk.ob("D1", "%s: a REG1 is always recorded in the slot with a deadline 4000 ms ahead" % sname(st), oks and okd and pd, "", key="D1:reg1-recorded:%s" % st, loc=t.get("loc"))
    # guards
    d = ctx.fn(DRV, "D1")
    if d:
        pa = ctx.pa(d)
        free = pa.is_atom(("is", fld("pending_reg2_idx"), "None"))
        isn = [(x, pa.bdd.NOT(fm)) for (x, fm) in some_of(pa, lambda x: x == fld("pending_reg2_idx"))]
        for (bb, t) in calls_to(d, stable=B1):
            ok = pa.entails(pa.pc_block(bb), free) or (bool(isn) and pa.entails(pa.pc_block(bb), isn[0][1]))
            ctx.chk.ob("D1", "the driver sends REG1 only with the slot free", ok, "PC = %s" % pa.show(pa.pc_block(bb))[:300], key="D1:driver-slot-free", loc=t.get("loc"))
    im = ctx.fn(R + "::reg1_if_ngp_immediate", "D1")
    if im:
        pa = ctx.pa(im)
        isn = [(x, pa.bdd.NOT(fm)) for (x, fm) in some_of(pa, lambda x: x == fld("pending_reg2_idx"))]
        for (bb, t) in calls_to(im, stable=R + "::build_reg1_for"):
            ok = bool(isn) and pa.entails(pa.pc_block(bb), isn[0][1])
            idx = pa.fa.val_operand(t["args"][1], (bb, len(im.blocks[bb]["stmts"])))
            ctx.chk.ob("D1", "the immediate REG1 (answer to REG_NGP) needs the slot free and goes to the answering uplink", ok and idx == ("param", 2),
                       "PC = %s" % pa.show(pa.pc_block(bb))[:300], key="D1:immediate-slot-free", loc=t.get("loc"))
    ctx.WHO_CALLS("D1", R + "::build_reg1_for", {R + "::reg1_if_ngp_immediate", HKC}, floor=2)
    hk = ctx.fn(HKC, "D1")
    if hk:
        pa = ctx.pa(hk)
        for (bb, t) in calls_to(hk, stable=R + "::build_reg1_for"):
            nst = len(hk.blocks[bb]["stmts"])
            idx = pa.fa.val_operand(t["args"][1], (bb, nst))
            pc = pa.pc_block(bb)
            # pending_reg2_idx() is Some(idx') with idx' == i
            eq = pa.find(lambda a: a[0] == "bin" and a[1] == "Eq" and idx in (a[2], a[3]) and any(is_call(x, stable=R + "::pending_reg2_idx") for x in walk(a)))
            ok = bool(eq) and pa.entails(pc, eq[0][1])
            ctx.chk.ob("D1", "housekeeping re-sends REG1 only on the uplink that already owns the slot", ok, "PC = %s" % pa.show(pc, 2)[:300], key="D1:resend-same-uplink", loc=t.get("loc"))


def d2_driver_guards(ctx):
    d = ctx.fn(DRV, "D2")
    if d:
        pa = ctx.pa(d)
        b = pa.bdd
        none_reg = pa.lit(("bin", "Eq", ("const", 0, "usize"), fld("active_connections"), "usize"))
        tgt = b.NOT(pa.is_atom(("is", fld("reg1_target_idx"), "None")))
        thr = b.NOT(pa.lit(("bin", "Lt", ("param", 3), fld("reg1_next_send_at_ms"), "u64")))
        for (bb, t) in calls_to(d, stable=B1):
            pc = pa.pc_block(bb)
            for label, fm in (("no uplink is registered (active_connections == 0)", none_reg), ("a REG1 target is chosen", tgt), ("the retry throttle has elapsed", thr)):
                ctx.chk.ob("D2", "the driver emits REG1 only when %s" % label, pa.entails(pc, fm), "PC = %s" % pa.show(pc)[:300], key="D2:driver-guard:%s" % label.split(" (")[0].replace(" ", "-"), loc=t.get("loc"))
        ctx.chk.floor("D2", "REG1 build sites in the driver", len(calls_to(d, stable=B1)), 1)
    hk = ctx.fn(HKC, "D2")
    if hk:
        cfg = ctx.cfg(hk)
        ua = calls_to(hk, stable=R + "::update_active_connections")
        dr = calls_to(hk, stable=DRV)
        ok = len(ua) == 1 and len(dr) == 1 and cfg.dominates(ua[0][0], dr[0][0])
        if ok:
            # no write to `connected` between the recount and the driver
            between = cfg.reach_from(ua[0][1]["t"]) & set(b_ for b_ in range(cfg.n) if cfg.can_reach(b_, dr[0][0]))
            wr = [a for a in ctx.eff.writers_of(CONN, "connected", ("store",)) if a.fn.id == hk.id and a.bb in between]
            for (bb, t) in hk.calls():
                if bb in between and "id" in t["f"]:
                    for cid in ctx.eff._callee_ids(t["f"]):
                        if (CONN, "connected") in ctx.eff.W(cid):
                            wr.append(t)
            ok = not wr
        ctx.chk.ob("D2", "housekeeping recounts the registered uplinks right before driving registration", ok, "", key="D2:recount-before-driver")
    ua = ctx.fn(R + "::update_active_connections", "D2")
    if ua:
        fa = ctx.fa(ua)
        st = field_stores(ua, R, "active_connections")
        ok = len(st) == 1
        if ok:
            v = fa.val_rvalue(st[0][2]["rv"], (st[0][0], st[0][1]))
            cnt = [x for x in walk(v) if is_call(x, name_contains="Iterator>::count")]
            ok = bool(cnt) and any(is_call(x, name_contains="Iterator::filter") for x in walk(cnt[0]))
            if ok:
                flt = [x for x in walk(cnt[0]) if is_call(x, name_contains="Iterator::filter")][0]
                cl = flt[2][1]
                clf = ctx.w.fns.get(cl[2]) if cl[0] == "agg" else None
                okc = False
                if clf is not None:
                    cpa = ctx.pa(clf)
                    okc = cpa.equivalent(cpa.ret_true(), cpa.lit(("field", ("param", 2), CONN, "connected")))
                ok = okc and is_call(flt[2][0], name_contains="<impl [T]>::iter") and flt[2][0][2] == (("param", 2),)
        ctx.chk.ob("D2", "active_connections := number of links with connected == true", ok, "", key="D2:active-count")


def d3_reg2_acceptance(ctx):
    ctx.WHO_WRITES("D3", R, "srtla_id", {R + "::handle_reg2"}, floor=1, allow_agg_in={R + "::new"})
    f = ctx.fn(R + "::handle_reg2", "D3")
    if not f:
        return
    pa = ctx.pa(f)
    b = pa.bdd
    cps = [(bb, t) for (bb, t) in f.calls() if t["f"].get("path", "").endswith("<impl [T]>::copy_from_slice")]
    ok = len(cps) == 1
    if ok:
        bb, t = cps[0]
        nst = len(f.blocks[bb]["stmts"])
        dst = strip_old(pa.fa.val_operand(t["args"][0], (bb, nst)))
        src = strip_old(pa.fa.val_operand(t["args"][1], (bb, nst)))
        pc = pa.pc_block(bb)
        full = b.NOT(pa.lit(("bin", "Lt", ("call", "core::slice::<impl [T]>::len", (("param", 3),), None, None), ("bin", "Add", ("const", 2, "usize"), ("const", 256, "usize"), "usize"), "usize")))
        full2 = b.NOT(pa.lit(("bin", "Lt", ("call", "core::slice::<impl [T]>::len", (("param", 3),), None, None), ("const", 258, "usize"), "usize")))
        lens = [a for a in pa.atoms_of(pc) if a[0] == "bin" and a[1] == "Lt" and is_call(a[2], name_contains="::len") and a[2][2] == (("param", 3),)]
        len_ok = any(_cval(a[3]) == 258 and pa.entails(pc, b.NOT(pa.atom(a))) for a in lens)
        same = pa.find(lambda a: is_call(a, name_contains="PartialEq") and fld("pending_reg2_idx") in a[2] and
                       any(x[0] == "agg" and x[2].endswith("::Some") and x[3] == (("param", 2),) for x in a[2]))
        own_ok = bool(same) and pa.entails(pc, same[0][1])
        dst_ok = any(x == fld("srtla_id") for x in walk(dst))
        rng = [x for x in walk(src) if x[0] == "agg" and "ops::range::Range" in str(x[2])]
        src_ok = bool(rng) and _cval(rng[0][3][0]) == 2 and _cval(rng[0][3][1]) == 258 and any(x == ("param", 3) for x in walk(src))
        ctx.chk.ob("D3", "the id is adopted only from a frame of at least 258 bytes", len_ok, "PC = %s" % pa.show(pc)[:300], key="D3:full-length-id")
        ctx.chk.ob("D3", "the id is adopted only from the uplink the REG1 was sent on", own_ok, "PC = %s" % pa.show(pc)[:300], key="D3:reg2-from-reg1-uplink")
        ctx.chk.ob("D3", "the adopted id is bytes [2, 258) of the REG2", dst_ok and src_ok, "src %s" % show(src, f.names)[:160], key="D3:id-bytes")
        # same path: slot freed, one broadcast armed
        cfg = ctx.cfg(f)
        slot = [(b_, i_, s_) for (b_, i_, s_) in field_stores(f, R, "pending_reg2_idx") if cfg.dominates(bb, b_)]
        arm = [(b_, i_, s_) for (b_, i_, s_) in field_stores(f, R, "broadcast_reg2_pending") if cfg.dominates(bb, b_)]
        oks = len(slot) == 1 and pa.fa.val_rvalue(slot[0][2]["rv"], (slot[0][0], slot[0][1]))[2].endswith("::None") and \
            len(arm) == 1 and pa.fa.val_rvalue(arm[0][2]["rv"], (arm[0][0], arm[0][1])) == ("const", True, "bool")
        ctx.chk.ob("D3", "accepting the REG2 frees the slot and arms one broadcast round", oks, "", key="D3:accept-effects")
        # a REG2 that is not accepted (short, or from another uplink) changes nothing: every store of handle_reg2 is on the accepted path
        stray = []
        for a in ctx.eff.writes_by_fn(f) if hasattr(ctx.eff, "writes_by_fn") else []:
            pass
        for bi, blk in enumerate(f.blocks):
            if blk["cleanup"]:
                continue
            for si, st in enumerate(blk["stmts"]):
                if st["k"] == "assign" and st["p"]["proj"] and any(e["k"] == "field" and e.get("adt") == R for e in st["p"]["proj"]) and not (cfg.dominates(bb, bi)):
                    stray.append((st["p"]["proj"][-1].get("n"), st.get("loc")))
        ctx.chk.ob("D3", "a REG2 that is not accepted leaves the manager untouched (no store outside the accepted path: a stray REG2 cannot move the REG1 deadline)", not stray,
                   "stores outside the accepted path: %s" % stray[:4], key="D3:rejected-reg2-changes-nothing")
    else:
        ctx.chk.ob("D3", "handle_reg2 copies the id at one site", False, "%d" % len(cps), key="D3:copy-site")
    # broadcast flag: true only in handle_reg2, false only at the emission
    ctx.WHO_WRITES("D3", R, "broadcast_reg2_pending", {R + "::handle_reg2", DRV}, floor=2, allow_agg_in={R + "::new"})
    d = ctx.fn(DRV, "D3")
    if d:
        dpa = ctx.pa(d)
        flag = dpa.lit(fld("broadcast_reg2_pending"))
        b2 = calls_to(d, stable=B2)
        fs = field_stores(d, R, "broadcast_reg2_pending")
        ok = len(b2) == 1 and len(fs) == 1 and dpa.equivalent(dpa.pc_block(b2[0][0]), flag) and dpa.fa.val_rvalue(fs[0][2]["rv"], (fs[0][0], fs[0][1])) == ("const", False, "bool") and \
            ctx.cfg(d).dominates(b2[0][0], fs[0][0]) and not ctx.cfg(d).in_cycle(b2[0][0])
        ctx.chk.ob("D3", "an armed broadcast is emitted by the next driver pass whatever else holds (exactly under the flag), once, and disarms the flag", ok,
                   "PC(broadcast) = %s" % (dpa.show(dpa.pc_block(b2[0][0]))[:200] if len(b2) == 1 else "?"), key="D3:one-broadcast-round")


def _cval(e):
    from ..tables import _const
    return _const(e)


def d4_id_provenance(ctx):
    eff = ctx.eff
    for bst, allowed_exc in ((B1, set()), (B2, {CONN + "::probe_reg2_packet"})):
        f = ctx.w.fn(bst)
        if f is None:
            ctx.chk.missing("D4", bst, "")
            continue
        n = 0
        for (caller, bb, t) in eff.callers_of(f.id):
            if "::tests" in caller.stable:
                continue
            n += 1
            fa = ctx.fa(caller)
            v = strip_old(fa.val_operand(t["args"][0], (bb, len(caller.blocks[bb]["stmts"]))))
            own = v == ("field", ("param", 1), R, "srtla_id")
            ok = own or caller.stable in allowed_exc
            ctx.chk.ob("D4", "%s in %s carries the adopted id (self.srtla_id)" % (sname(bst), sname(caller.stable)), ok, "argument %s" % show(v, caller.names)[:100],
                       key="D4:id-provenance:%s:%s" % (bst, caller.stable), loc=t.get("loc"))
        ctx.chk.floor("D4", "callers of %s" % sname(bst), n, 2)


def d5_connected_only_on_reg3(ctx):
    C08.d4_clean_rejoin(ctx)
    C09.d1_exact_dispatch(ctx)
    ctx.WHO_WRITES("D5", CONN, "connected", {C09.PUP, CONN + "::reset_core_state"}, floor=2, allow_agg_in={CONN + "::new_registering"})
    # the connection that becomes connected is the one the packet arrived on
    h = ctx.fn(C09.HUP, "D5")
    if h:
        fa = ctx.fa(h)
        for (bb, t) in calls_to(h, stable="srtla_send::sender::uplink_recv::process_uplink_packet"):
            nst = len(h.blocks[bb]["stmts"])
            conn = fa.val_operand(t["args"][0], (bb, nst))
            idx = fa.val_operand(t["args"][1], (bb, nst))
            ok = conn[0] == "index" and conn[2] == idx and any(is_call(x, name_contains="Iterator>::position") for x in walk(idx))
            pos = [x for x in walk(idx) if is_call(x, name_contains="Iterator>::position")]
            okc = False
            if pos:
                cl = pos[0][2][1]
                clf = ctx.w.fns.get(cl[2]) if cl[0] == "agg" else None
                if clf is not None:
                    cpa = ctx.pa(clf)
                    okc = cpa.equivalent(cpa.ret_true(), cpa.lit(("bin", "Eq", ("field", ("param", 2), CONN, "conn_id"), ("upvar", 0), "u64")))
                    okc = okc and any(is_field(x, "conn_id") for x in walk(cl[3][0]))
            ctx.chk.ob("D5", "the link that handles a datagram (and may become connected) is the one whose conn_id the reader tagged it with", ok and okc,
                       "conn %s" % show(conn, h.names)[:140], key="D5:arrival-link", loc=t.get("loc"))


def d6_reg_err_cancels(ctx):
    f = ctx.fn(R + "::handle_reg_err", "D6")
    if not f:
        return
    pa = ctx.pa(f)
    cfg = ctx.cfg(f)
    st = field_stores(f, R, "pending_reg2_idx")
    ok = len(st) == 1 and pa.fa.val_rvalue(st[0][2]["rv"], (st[0][0], st[0][1]))[2].endswith("::None") and not cfg.returns_reachable_avoiding({st[0][0]})
    ctx.chk.ob("D6", "REG_ERR frees the REG1 slot on every path", ok, "", key="D6:reg-err-cancels")
    ctx.WHO_CALLS("D6", R + "::handle_reg_err", {R + "::process_registration_packet"}, floor=1)


def d7_timeout(ctx):
    ctx.CONST("D7", "srtla_protocol::constants::REG2_TIMEOUT", 4)
    ctx.WHO_WRITES("D7", R, "pending_timeout_at_ms", {DRV, R + "::build_reg1_for", R + "::handle_reg2", R + "::handle_reg_err", R + "::clear_pending_if_timed_out",
                    R + "::start_probing", R + "::check_probing_complete"},   # start-up RTT probing borrows the field for its own 2 s wait: armed once before the
                   # event loop (D7:probing-before-loop), cleared when probing completes (D7:probing-clear-only-while-probing); no REG1 target exists until then
                   floor=7, allow_agg_in={R + "::new"})
    cp = ctx.w.fn(R + "::check_probing_complete")
    if cp is not None:
        cpa = ctx.pa(cp)
        okc = True
        nst = 0
        from ..ctx import bool_branches
        ccfg = ctx.cfg(cp)
        brs = bool_branches(cp, cpa.fa, lambda v: any(is_field(x, "probing_state", R) for x in walk(v)))
        for (bb, si, st) in field_stores(cp, R, "pending_timeout_at_ms"):
            nst += 1
            # (the body stores probing_state := Complete right before, which retires the atom: tie the store to the taken branch)
            okc = okc and any((ccfg.dominates(tt, bb) and not ccfg.dominates(ff, bb)) or (ccfg.dominates(ff, bb) and not ccfg.dominates(tt, bb)) for (sb, tt, ff) in brs)
        ctx.chk.ob("D7", "check_probing_complete touches the deadline field only after its own `still probing` test", okc and nst >= 1, "", key="D7:probing-clear-only-while-probing")
    # ... which is safe only because no REG1 can be outstanding while the probes are: a REG_NGP that arrives during the probe wait
    # (first, duplicate or unsolicited) is consumed by the probing phase and never selects a REG1 target
    ng = ctx.w.fn(R + "::handle_reg_ngp")
    if ng is None:
        ctx.chk.missing("D7", R + "::handle_reg_ngp", "")
    else:
        npa = ctx.pa(ng)
        wait = npa.find(lambda a: (is_call(a, name_contains="PartialEq") and any(is_field(x, "probing_state", R) for x in walk(a)) and "WaitingForProbes" in repr(a)) or
                        (a[0] == "is" and is_field(a[1], "probing_state", R) and a[2] == "WaitingForProbes"))
        sts = [(bb, si, st) for bi_ in [0] for (bb, si, st) in
               [(bb, si, st) for bb, blk in enumerate(ng.blocks) if not blk["cleanup"] for si, st in enumerate(blk["stmts"])
                if st["k"] == "assign" and st["p"]["proj"] and st["p"]["proj"][0]["k"] == "deref" and st["p"]["l"] == 1]]
        if len(wait) != 1 or not sts:
            ctx.chk.missing("D7", "handle_reg_ngp: the `waiting for probes` test / its stores", "%d atoms, %d stores" % (len(wait), len(sts)))
        else:
            a0 = wait[0][0]
            W_ = wait[0][1] if (a0[0] == "is" or a0[1].endswith("::eq")) else npa.bdd.NOT(wait[0][1])
            for (bb, si, st) in sts:
                fldn = st["p"]["proj"][-1].get("n")
                ctx.chk.ob("D7", "handle_reg_ngp stores %s only when the probe wait is over" % fldn, npa.entails(npa.pc_at(bb, si), npa.bdd.NOT(W_)),
                           "PC = %s" % npa.show(npa.pc_at(bb, si), 3)[:200], key="D7:ngp-consumed-while-probing:%s" % fldn, loc=st.get("loc"))
    sp = ctx.w.fn(R + "::start_probing")
    if sp is not None:
        callers = [(c, bb) for (c, bb, t) in ctx.eff.callers_of(sp.id) if "::tests" not in c.stable]
        ok = len(callers) == 1 and not ctx.cfg(callers[0][0]).in_cycle(callers[0][1])
        ctx.chk.ob("D7", "start_probing (which borrows the deadline field) runs once, outside the event loop", ok, "%s" % [sname(c.stable) for (c, bb) in callers], key="D7:probing-before-loop")
    f = ctx.fn(R + "::clear_pending_if_timed_out", "D7")
    if f:
        pa = ctx.pa(f)
        b = pa.bdd
        st = [(bb, si, s) for (bb, si, s) in field_stores(f, R, "pending_reg2_idx") if pa.fa.val_rvalue(s["rv"], (bb, si))[2].endswith("::None")]
        ok = len(st) == 1
        if ok:
            pc = pa.pc_at(st[0][0], st[0][1])
            due = b.NOT(pa.lit(("bin", "Lt", ("param", 2), fld("pending_timeout_at_ms"), "u64")))
            armed = b.NOT(pa.lit(("bin", "Eq", ("const", 0, "u64"), fld("pending_timeout_at_ms"), "u64")))
            pend = b.NOT(pa.is_atom(("is", fld("pending_reg2_idx"), "None")))
            ok = pa.equivalent(pc, b.AND(pend, b.AND(armed, due)))
            ctx.chk.ob("D7", "the pending REG1 is abandoned exactly when its (non-zero) deadline has passed", ok, "PC = %s" % pa.show(pc), key="D7:abandon-at-deadline")
        else:
            ctx.chk.ob("D7", "clear_pending_if_timed_out frees the slot at one site", False, "%d" % len(st), key="D7:abandon-at-deadline")
    hk = ctx.fn(HKC, "D7")
    if hk:
        cfg = ctx.cfg(hk)
        c = calls_to(hk, stable=R + "::clear_pending_if_timed_out")
        others = [bb for (bb, t) in hk.calls() if "id" in t["f"] and t["f"].get("crate") in ctx.w.local_crates and t["f"].get("stable") != R + "::clear_pending_if_timed_out"]
        ok = len(c) == 1 and all(cfg.dominates(c[0][0], o) for o in others)
        ctx.chk.ob("D7", "the deadline check is the first thing every housekeeping pass does", ok, "", key="D7:first-in-housekeeping")


def _sock_link(e):
    """X for a socket expression derived from `conn_io.get(&X.conn_id)`."""
    for x in walk(e):
        if is_call(x, name_contains="HashMap") and x[1].endswith("::get") and len(x[2]) == 2 and is_field(strip_old(x[2][1]), "conn_id", CONN):
            return strip_old(x[2][1])[1]
    return None


def d8_frames_leave_on_named_uplink(ctx):
    from ..ctx import every_iteration_reaches, full_slice_element
    SEND = "BatchUdpSocket::send"
    n = 0
    hk = ctx.fn(HKC, "D8")
    if hk:
        fa = ctx.fa(hk)
        up = [i for i in [upvar_index(hk, "connections")] if i is not None]
        CONNS = ("upvar", up[0]) if up else None
        if CONNS is None:
            ctx.chk.missing("D8", "handle_housekeeping captures `connections`", "")
        for (bb, t) in hk.calls():
            if not t["f"].get("path", "").endswith(SEND) or CONNS is None:
                continue
            nst = len(hk.blocks[bb]["stmts"])
            sock = fa.val_operand(t["args"][0], (bb, nst))
            pay = fa.val_operand(t["args"][1], (bb, nst))
            link = _sock_link(sock)
            srcs = [x for x in walk(pay) if is_call(x, stable=R + "::build_reg1_for") or is_call(x, stable=R + "::build_reg2")]
            drv = [x for x in walk(pay) if is_call(x, stable=DRV)]
            if srcs:
                n += 1
                idx = strip_old(srcs[0][2][1])
                # link = pair.1 and idx = pair.0 of the same `connections.iter_mut().enumerate()` item
                ok = link is not None and full_slice_element(link, CONNS) is not None and link[0] == "field" and link[3] == "1" and \
                    idx[0] == "field" and idx[3] == "0" and idx[1] == link[1]
                ctx.chk.ob("D8", "housekeeping re-sends %s for index i on link i's own socket" % sname(srcs[0][4]), ok,
                           "socket of %s, index %s" % (show(link, hk.names)[:120], show(idx, hk.names)[:120]), key="D8:resend-socket:%s" % srcs[0][4], loc=t.get("loc"))
            elif drv and any(is_field(x, "reg1") for x in walk(pay)):
                n += 1
                ok = False
                l = link
                if l is not None and l[0] == "field" and l[1][0] == "as" and is_call(l[1][1], name_contains="<impl [T]>::get_mut"):
                    sl, i = l[1][1][2]
                elif l is not None and l[0] == "index":
                    sl, i = l[1], l[2]
                else:
                    sl = i = None
                if i is not None:
                    i = strip_old(i)
                    # i == (sends.reg1 as Some).0.0, the packet == (sends.reg1 as Some).0.1 of the same driver call
                    p_ = strip_old(pay)
                    ok = strip_old(sl) == CONNS and i[0] == "field" and i[3] == "0" and p_[0] == "field" and p_[3] == "1" and p_[1] == i[1] and \
                        is_field(i[1][1][1], "reg1") and is_call(i[1][1][1][1], stable=DRV)
                ctx.chk.ob("D8", "the driver's REG1 leaves on connections[idx] for the idx the driver recorded in the slot", ok,
                           "socket of %s" % show(link, hk.names)[:160], key="D8:driver-reg1-socket", loc=t.get("loc"))
            elif drv and any(is_field(x, "broadcast_reg2") for x in walk(pay)):
                n += 1
                ok = link is not None and full_slice_element(link, CONNS) is not None
                det = "socket of %s" % show(link, hk.names)[:160]
                if ok:
                    ok, det = every_iteration_reaches(ctx.w, hk, fa, link, bb, lambda a: a[0] == "is" and is_call(a[1], name_contains="HashMap") and _sock_link(a[1]) == link)
                ctx.chk.ob("D8", "the REG2 broadcast goes to every element of the whole connection slice (skipping only links without an I/O handle)", ok,
                           det, key="D8:broadcast-all-uplinks", loc=t.get("loc"))
    hu = ctx.fn(C09.HUP, "D8")
    if hu:
        fa = ctx.fa(hu)
        for (bb, t) in hu.calls():
            if not t["f"].get("path", "").endswith(SEND):
                continue
            nst = len(hu.blocks[bb]["stmts"])
            sock = fa.val_operand(t["args"][0], (bb, nst))
            pay = fa.val_operand(t["args"][1], (bb, nst))
            if not any(is_field(x, "reg1_send") for x in walk(pay)):
                continue
            n += 1
            link = _sock_link(sock)
            pu = [x for x in walk(pay) if is_call(x, stable="srtla_send::sender::uplink_recv::process_uplink_packet")]
            ok = bool(pu) and link is not None and link == strip_old(pu[0][2][0]) and link[0] == "index" and link[2] == strip_old(pu[0][2][1])
            ctx.chk.ob("D8", "the immediate REG1 leaves on the uplink whose REG_NGP produced it", ok, "socket of %s" % show(link, hu.names)[:160], key="D8:immediate-reg1-socket", loc=t.get("loc"))
    ctx.chk.floor("D8", "registration frame send sites", n, 5)
    # nobody else transmits a registration frame: the builders' results flow only to these sites
    ctx.WHO_CALLS("D8", R + "::build_reg2", {HKC}, floor=1)
    ctx.WHO_CALLS("D8", DRV, {HKC}, floor=1)
    ctx.WHO_CALLS("D8", R + "::reg1_if_ngp_immediate", {C08.PUP}, floor=1)


RULES = [d1_one_reg1_slot, d2_driver_guards, d3_reg2_acceptance, d4_id_provenance, d5_connected_only_on_reg3, d6_reg_err_cancels, d7_timeout, d8_frames_leave_on_named_uplink]


def run(ctx):
    ctx.chk.not_decided = ["reachable-state exploration under adversarial packet order (late REG2 after the deadline, duplicates): D1-D7 are the inductive guards that make each step safe",
                           "'abandoned so that a new attempt can start' as progress (liveness)"]
    ctx.run_rules(RULES)
