"""C08 - failed uplinks are detected, retried forever, and rejoin cleanly.

D1 who may tear a link down, and under which guard (failed send / timed out and due for a retry);
D2 never because of a routing penalty: the liveness predicate reads only {connected, last_received, conn_timeout_ms, reconnection.*};
   for a connected link it is exactly `now - last_received >= conn_timeout_ms` ("never earlier");
D3 retry spacing and cap: back-off delay in [5000, 120000]; retry predicate = 1 s cadence during initial registration (after the
   grace deadline), back-off afterwards; every attempt is stamped before the reconnect;
D4 clean rejoin: REG3 clears pre-registration state before `connected := true`; zero in-flight, cleared log, Warming phase;
   both reset paths restore the default window (C06.D2);
D5 survivors: teardown works on one `&mut SrtlaConnection`, never on the slice;
D6 the *configured* timeout is the one applied: every housekeeping pass refreshes the per-link copy from the configuration
   before the liveness test that decides a teardown.
"""
from ..absint import AbsInt, Entry, Num
from ..ctx import full_slice_element, is_awaited_result_of, CONN, bool_branches, is_call, is_field, is_iter_next, result_arms, sname
from ..expr import show, strip_old, walk
from ..pathcond import calls_to, field_stores
from . import C01

LEVEL = "other"
RS = "srtla_core::connection::reconnection::ReconnectionState"
HK = "srtla_send::sender::housekeeping::handle_housekeeping"
HKC = HK + "::{closure#0}"
RU = "srtla_send::sender::connections::reconnect_uplink"
RUC = RU + "::{closure#0}"
PUP = "srtla_send::sender::uplink_recv::process_uplink_packet::{closure#0}"


def d1_who_tears_down(ctx):
    ctx.WHO_CALLS("D1", CONN + "::mark_for_recovery", {C01.FWDC, C01.PROBEC, C01.FLUSHC, HKC}, floor=5)
    ctx.WHO_CALLS("D1", CONN + "::reset_for_reconnect", {RUC}, floor=1)
    ctx.WHO_CALLS("D1", RU, {HKC}, floor=1)
    ctx.WHO_CALLS("D1", CONN + "::reset_core_state", {CONN + "::mark_for_recovery", CONN + "::reset_for_reconnect"}, floor=2)
    # packet_handler sites: only on the Err arm of a batch send on that link
    for st in (C01.FWDC, C01.PROBEC, C01.FLUSHC):
        f = ctx.fn(st, "D1")
        if not f:
            continue
        pa = ctx.pa(f)
        cfg = ctx.cfg(f)
        arms = result_arms(f, pa.fa, lambda e: is_awaited_result_of(e, C01.SCB))
        err_blocks = [a["Err"] for (sbb, a) in arms if "Err" in a]
        for (mb, mt) in calls_to(f, stable=CONN + "::mark_for_recovery"):
            ok = any(cfg.dominates(e, mb) for e in err_blocks)
            ctx.chk.ob("D1", "%s: teardown only after a failed batch send" % sname(st), ok, "Err arms at %s, teardown at bb%d" % (err_blocks, mb),
                       key="D1:teardown-needs-send-error:%s" % st, loc=mt.get("loc"))
    # housekeeping sites: is_timed_out & should_attempt_reconnect on that link
    hk = ctx.fn(HKC, "D1")
    if hk:
        pa = ctx.pa(hk)
        sites = calls_to(hk, stable=CONN + "::mark_for_recovery") + calls_to(hk, stable=RU)
        ctx.chk.floor("D1", "teardown sites in housekeeping", len(sites), 3)
        cfg = ctx.cfg(hk)
        for (bb, t) in sites:
            nst = len(hk.blocks[bb]["stmts"])
            link = pa.fa.val_operand(t["args"][0], (bb, nst))
            # the tests mutate-sensitive state (record_reconnect_attempt runs in between), so tie the site to the
            # taken branches by dominance rather than by a still-valid atom
            for stn, label in ((CONN + "::is_timed_out", "is_timed_out(link)"), (CONN + "::should_attempt_reconnect", "should_attempt_reconnect(link)")):
                brs = bool_branches(hk, pa.fa, lambda v: is_call(v, stable=stn) and v[2][0] == link)
                ok = any(cfg.dominates(tt, bb) and not cfg.dominates(ff, bb) for (sb, tt, ff) in brs)
                ctx.chk.ob("D1", "housekeeping teardown (%s) only under %s" % (sname(t["f"]["stable"]), label), ok, "%d tests of it on this link" % len(brs),
                           key="D1:hk-teardown-guard:%s:%s" % (t["f"]["stable"], label), loc=t.get("loc"))


def d2_liveness_predicate(ctx):
    f = ctx.fn(CONN + "::is_timed_out", "D2")
    if not f:
        return
    allowed = {(CONN, "connected"), (CONN, "last_received"), (CONN, "conn_timeout_ms"), (CONN, "reconnection"),
               (RS, "connection_established_ms"), (RS, "startup_grace_deadline_ms")}
    ctx.EFFECT_R_SUBSET("D2", f, lambda k: k in allowed, "{connected, last_received, conn_timeout_ms, reconnection.*} (no stall / weak / loss / CC / window state)")
    pa = ctx.pa(f)
    b = pa.bdd
    C = pa.find(lambda a: is_field(a, "connected", CONN))
    if len(C) != 1:
        ctx.chk.missing("D2", "is_timed_out: connected test", "")
        return
    rt = pa.ret_true()
    lr = ("field", ("param", 1), CONN, "last_received")
    some = b.NOT(pa.is_atom(("is", lr, "None")))
    age = pa.lit(("bin", "Lt", ("call", "core::num::<impl u64>::saturating_sub", (("param", 2), ("field", ("as", lr, "Some"), "core::option::Option", "0")), None, None),
                  ("field", ("param", 1), CONN, "conn_timeout_ms"), "u64"))
    want = b.AND(some, b.NOT(age))
    got = b.simplify(b.AND(rt, C[0][1]), C[0][1])
    ok = pa.equivalent(b.AND(C[0][1], rt), b.AND(C[0][1], want))
    ctx.chk.ob("D2", "a connected link is timed out iff it has received something and now - last_received >= conn_timeout_ms (never earlier)", ok,
               "connected: RT = %s" % pa.show(got), key="D2:connected-timeout-exact")


def d3_retry_spacing(ctx):
    bd = ctx.fn(RS + "::backoff_delay", "D3")
    if bd:
        ai = AbsInt(ctx.w)
        ret, _ = ai.run(bd, Entry())
        ok = isinstance(ret, Num) and ret.lo >= 5000 and ret.hi <= 120000
        ctx.chk.ob("D3", "back-off delay within [5000, 120000] ms for every failure count", ok, "returns %r" % (ret,), key="D3:backoff-range")
        bad = [o for o in ai.obligations if not o.ok]
        ctx.chk.ob("D3", "back-off arithmetic cannot overflow / shift out of range", not bad, "; ".join("%s %s" % (o.kind, o.detail) for o in bad[:3]), key="D3:backoff-no-overflow")
    for n, v in (("BASE_RECONNECT_DELAY_MS", 5000), ("MAX_BACKOFF_DELAY_MS", 120000), ("MAX_BACKOFF_COUNT", 5)):
        ctx.CONST("D3", "srtla_core::connection::reconnection::" + n, v)
    sa = ctx.fn(RS + "::should_attempt_reconnect", "D3")
    if sa:
        pa = ctx.pa(sa)
        b = pa.bdd
        rt = pa.ret_true()
        S = ("param", 1)
        est0 = pa.lit(("bin", "Eq", ("const", 0, "u64"), ("field", S, RS, "connection_established_ms"), "u64"))
        last0 = pa.lit(("bin", "Eq", ("const", 0, "u64"), ("field", S, RS, "last_reconnect_attempt_ms"), "u64"))
        since = ("call", "core::num::<impl u64>::saturating_sub", (("param", 2), ("field", S, RS, "last_reconnect_attempt_ms")), None, None)
        sec = b.NOT(pa.lit(("bin", "Lt", since, ("const", 1000, "u64"), "u64")))
        grace = pa.lit(("bin", "Lt", ("field", S, RS, "startup_grace_deadline_ms"), ("param", 2), "u64"))
        bo = pa.find(lambda a: a[0] == "bin" and a[1] == "Lt" and a[2] == since and is_call(a[3], stable=RS + "::backoff_delay"))
        want_init = b.AND(grace, b.OR(last0, sec))
        ok1 = pa.equivalent(b.AND(est0, rt), b.AND(est0, want_init))
        ctx.chk.ob("D3", "initial registration: retry only after the grace deadline, and >= 1000 ms after the previous attempt", ok1,
                   "RT | never established = %s" % pa.show(b.simplify(b.AND(est0, rt), est0)), key="D3:initial-cadence")
        ok2 = bool(bo) and pa.equivalent(b.AND(b.NOT(est0), rt), b.AND(b.NOT(est0), b.OR(last0, b.NOT(bo[0][1]))))
        ctx.chk.ob("D3", "afterwards: retry only >= backoff_delay() (>= 5000 ms) after the previous attempt", ok2,
                   "RT | established = %s" % pa.show(b.simplify(b.AND(b.NOT(est0), rt), b.NOT(est0))), key="D3:backoff-cadence")
    ra = ctx.fn(RS + "::record_attempt", "D3")
    if ra:
        pa = ctx.pa(ra)
        st = field_stores(ra, RS, "last_reconnect_attempt_ms")
        ok = len(st) == 1 and pa.fa.val_rvalue(st[0][2]["rv"], (st[0][0], st[0][1])) == ("param", 3) and pa.pc_at(st[0][0], st[0][1]) == pa.bdd.TRUE
        ctx.chk.ob("D3", "every attempt is stamped with the current time", ok, "", key="D3:attempt-stamped")
    # the spacing rests on the stamp: it is only ever set to a current time (a store of 0 would read as "never tried" and allow an
    # immediate retry), and only by the attempt recorder and the full reset
    ctx.WHO_WRITES("D3", RS, "last_reconnect_attempt_ms", {RS + "::record_attempt", CONN + "::reset_for_reconnect"}, floor=2,
                   allow_agg_in={"<" + RS + " as core::default::Default>::default", "<" + RS + " as core::clone::Clone>::clone", CONN + "::new_registering"})
    for a in ctx.eff.writers_of(RS, "last_reconnect_attempt_ms", ("store",)):
        fa_ = ctx.fa(a.fn)
        st_ = a.fn.blocks[a.bb]["stmts"][a.si]
        v_ = fa_.val_rvalue(st_["rv"], (a.bb, a.si))
        okv = v_[0] == "param" or (v_[0] not in ("const",) and any(x[0] == "param" for x in walk(v_)))
        ctx.chk.ob("D3", "%s stores a caller-supplied time into the retry stamp (never a constant)" % sname(a.fn.stable), okv, "stored %s" % show(v_, a.fn.names)[:80],
                   key="D3:retry-stamp-is-a-time:%s" % a.fn.stable, loc=a.loc)
    hk = ctx.fn(HKC, "D3")
    if hk:
        cfg = ctx.cfg(hk)
        rec = calls_to(hk, stable=CONN + "::record_reconnect_attempt")
        tear = calls_to(hk, stable=RU) + calls_to(hk, stable=CONN + "::mark_for_recovery")
        ok = len(rec) == 1 and all(cfg.dominates(rec[0][0], bb) for (bb, t) in tear)
        ctx.chk.ob("D3", "housekeeping stamps the attempt before every teardown / reconnect", ok, "", key="D3:stamp-before-teardown")


def d4_clean_rejoin(ctx):
    f = ctx.fn(PUP, "D4")
    if f:
        cfg = ctx.cfg(f)
        fa = ctx.fa(f)
        pa = ctx.pa(f)
        clr = calls_to(f, stable=CONN + "::clear_pre_registration_state")
        trues = [(bb, si, s) for (bb, si, s) in field_stores(f, CONN, "connected") if s["rv"]["k"] == "use" and s["rv"]["o"].get("val") is True]
        ctx.chk.floor("D4", "connected := true stores in process_uplink_packet", len(trues), 1)
        for (bb, si, s) in trues:
            ok = len(clr) == 1 and (cfg.dominates(clr[0][0], bb))
            same = len(clr) == 1 and fa.val_operand(clr[0][1]["args"][0], (clr[0][0], len(f.blocks[clr[0][0]]["stmts"]))) == \
                fa.val_place({"l": s["p"]["l"], "proj": s["p"]["proj"][:-1]}, (bb, si))
            ctx.chk.ob("D4", "REG3: pre-registration state is cleared before the link becomes connected", ok and same, "", key="D4:clear-before-connected", loc=s.get("loc"))
            # only on Reg3
            r3 = [pa.is_atom(("is", a[1], "Reg3")) for a in pa.bdd.vars if a[0] == "is" and a[2] in ("RegNgp", "Reg2", "Reg3", "RegErr") and
                  any(is_call(x, name_contains="process_registration_packet") for x in walk(a[1]))]
            ok3 = bool(r3) and pa.entails(pa.pc_at(bb, si), r3[0])
            ctx.chk.ob("D4", "a link becomes connected only on a REG3 event", ok3, "PC = %s" % pa.show(pa.pc_at(bb, si), 3)[:300], key="D4:connected-only-on-reg3", loc=s.get("loc"))
    c = ctx.fn(CONN + "::clear_pre_registration_state", "D4")
    if c:
        pa = ctx.pa(c)
        fa = pa.fa
        z = field_stores(c, CONN, "in_flight_packets")
        okz = len(z) == 1 and fa.val_rvalue(z[0][2]["rv"], (z[0][0], z[0][1])) == ("const", 0, "i32") and pa.pc_at(z[0][0], z[0][1]) == pa.bdd.TRUE
        ph = field_stores(c, CONN, "phase")
        okp = len(ph) == 1 and fa.val_rvalue(ph[0][2]["rv"], (ph[0][0], ph[0][1]))[2].endswith("LinkPhase::Warming") and pa.pc_at(ph[0][0], ph[0][1]) == pa.bdd.TRUE
        clears = [1 for (bb, t) in c.calls() if t["f"].get("path", "").endswith("::clear") and pa.pc_block(bb) == pa.bdd.TRUE]
        ctx.chk.ob("D4", "rejoin accounting: in_flight := 0, log cleared, phase := Warming, unconditionally", okz and okp and bool(clears), "", key="D4:clean-accounting")
    rc = ctx.fn(CONN + "::reset_core_state", "D4")
    if rc:
        fa = ctx.fa(rc)
        w = field_stores(rc, CONN, "window")
        v = fa.val_rvalue(w[0][2]["rv"], (w[0][0], w[0][1])) if w else None
        ai = AbsInt(ctx.w)
        ai.run(rc, Entry())
        cell = (ai.top_frame, 1, ("deref", ("f", "window")))
        ex = ai.exit_mem.get(cell)
        ctx.chk.ob("D4", "every teardown restores the default window 20000", isinstance(ex, Num) and ex.lo == ex.hi == 20000, "exit %r" % (ex,), key="D4:default-window")


def d5_survivors(ctx):
    for st in (CONN + "::mark_for_recovery", CONN + "::reset_for_reconnect", CONN + "::reset_core_state"):
        f = ctx.fn(st, "D5")
        if f:
            ctx.chk.ob("D5", "%s works on one connection (&mut self), not on the set" % sname(st), f.argc >= 1 and "SrtlaConnection" in f.locals[1]["ty"] and "[" not in f.locals[1]["ty"],
                       f.locals[1]["ty"], key="D5:single-connection:%s" % st)
    ru = ctx.fn(RUC, "D5")
    if ru:
        W = ctx.eff.W(ru.id)
        ctx.chk.ob("D5", "reconnect_uplink has no access to other links", not any("[" in l["ty"] and "SrtlaConnection" in l["ty"] for l in ru.locals[1:3]), "", key="D5:reconnect-single")


def d6_configured_timeout_applied(ctx):
    to = ctx.fn(CONN + "::is_timed_out", "D6")
    if not to:
        return
    if (CONN, "conn_timeout_ms") not in ctx.eff.R(to.id):
        ctx.chk.ob("D6", "the liveness test reads the configuration directly", True, "", key="D6:reads-config")
        return
    writers = set(a.fn.id for a in ctx.eff.writers_of(CONN, "conn_timeout_ms", ("store", "callstore", "mutborrow")))
    # production call sites of handle_housekeeping (each decides teardowns through is_timed_out)
    hk = ctx.fn(HK, "D6")
    if not hk:
        return
    sites = [(c, bb, t) for (c, bb, t) in ctx.eff.callers_of(hk.id) if "::tests::" not in c.stable]
    ctx.chk.floor("D6", "production call sites of handle_housekeeping", len(sites), 2)
    for (caller, bb, t) in sites:
        cfg = ctx.cfg(caller)
        fa = ctx.fa(caller)
        found = None
        why = "no refresh of conn_timeout_ms dominates this housekeeping pass"
        enclosing = set(h for h in cfg.loop_heads() if bb in cfg.loop_body(h))
        for (rb, rt) in caller.calls():
            f = rt["f"]
            ids = ctx.eff._callee_ids(f) if "id" in f else []
            if not any((i in writers) or (ctx.eff.reachable(i) & writers and i != hk.id and len(ctx.eff.reachable(i)) < 12) for i in ids):
                continue
            # the refresh must be in a loop over all connections whose head dominates the housekeeping call, in the same event-loop iteration
            loop = cfg.innermost_loop_of(rb)
            if loop is None:
                why = "refresh at bb%d is not applied to every link" % rb
                continue
            head, body = loop
            if bb in body:
                continue
            if not cfg.dominates(head, bb):
                why = "refresh loop (bb%d) does not dominate the housekeeping call" % head
                continue
            outer = set(h for h in cfg.loop_heads() if head in cfg.loop_body(h) and h != head)
            if not enclosing <= outer:
                why = "refresh loop (bb%d) runs once before the event loop, not on every housekeeping tick" % head
                continue
            nst = len(caller.blocks[rb]["stmts"])
            link = fa.val_operand(rt["args"][0], (rb, nst))
            val = fa.val_operand(rt["args"][-1], (rb, nst))
            from_cfg = any(is_field(x, "conn_timeout_ms") and "ConfigSnapshot" in str(x[2]) for x in walk(val)) or \
                any(is_call(x, name_contains="conn_timeout") for x in walk(val))
            all_links = full_slice_element(link) is not None
            if from_cfg and all_links:
                found = (rb, val)
            else:
                why = "refresh at bb%d: value %s, link %s" % (rb, show(val, caller.names)[:80], show(link, caller.names)[:80])
        ctx.chk.ob("D6", "the per-link timeout copy is refreshed from the configuration before this housekeeping pass", found is not None,
                   ("refresh value %s" % show(found[1], caller.names)[:120]) if found else
                   why + " ; is_timed_out compares against SrtlaConnection.conn_timeout_ms, whose only other writer is apply_stall_gate (routing a client datagram): "
                   "with --conn-timeout-ms 30000 and no stream yet, housekeeping tears a silent link down after the built-in 5000 ms",
                   key="D6:housekeeping-arm:no-refresh-before-is_timed_out", loc=t.get("loc"))
    # the configured value is clamped (C18.D4) and the built-in default is the documented one
    ctx.CONST("D6", "srtla_core::config_snapshot::CONN_TIMEOUT_MS", 5000)


def d7_backoff_does_not_accumulate(ctx):
    """Necessary for 'connected again within 30 s once the path delivers': while the socket can be re-created, the retry
    gap must stay short.  A successful reconnect_uplink leaves reconnect_failure_count == 0, so the next retry is due after
    backoff_delay() = 5000 ms; the count (and the back-off up to 120 s) grows only across failed socket re-creations."""
    ru = ctx.fn(RUC, "D7")
    if not ru:
        return
    cfg = ctx.cfg(ru)
    fa = ctx.fa(ru)
    FC = (RS, "reconnect_failure_count")
    zeroing = []
    for (bb, t) in ru.calls():
        f = t["f"]
        if "id" not in f:
            continue
        for cid in ctx.eff._callee_ids(f):
            g = ctx.w.fns[cid]
            if g.kind == "coroutine" or FC not in ctx.eff.W(cid):
                continue
            ai = AbsInt(ctx.w)
            try:
                ai.run(g, Entry())
            except Exception:
                continue
            cells = [c for c in ai.exit_mem if c != ("$facts",) and c[0] == ai.top_frame and c[2] and c[2][-1] == ("f", "reconnect_failure_count")]
            vals = [ai.exit_mem[c] for c in cells]
            if vals and all(isinstance(v, Num) and v.lo == v.hi == 0 for v in vals):
                zeroing.append((bb, g.stable))
    oks = []
    for bi, blk in enumerate(ru.blocks):
        if blk["cleanup"]:
            continue
        for si, s_ in enumerate(blk["stmts"]):
            if s_["k"] == "assign" and s_["p"]["l"] == 0 and not s_["p"]["proj"] and s_["rv"]["k"] == "agg" and s_["rv"].get("vn") == "Ok":
                oks.append(bi)
    ok = bool(oks) and bool(zeroing) and all(any(cfg.dominates(zb, ob) for (zb, _n) in zeroing) for ob in oks)
    # nothing after the reset bumps the count again
    if ok:
        last = max(zb for (zb, _n) in zeroing if all(cfg.dominates(zb, ob) for ob in oks)) if any(all(cfg.dominates(zb, ob) for ob in oks) for (zb, _n) in zeroing) else None
        if last is not None:
            after = cfg.reach_strict(last)
            for (bb, t) in ru.calls():
                if bb in after and "id" in t["f"]:
                    for cid in ctx.eff._callee_ids(t["f"]):
                        if FC in ctx.eff.W(cid) and not any(n == ctx.w.fns[cid].stable for (_b, n) in zeroing):
                            ok = False
    ctx.chk.ob("D7", "a successful socket re-creation resets the back-off (failure count 0 => next retry after 5000 ms), so the retry gap cannot grow "
               "towards 120 s while the local side is able to reconnect", ok,
               "zeroing calls on the success path: %s ; Ok exits at %s" % (sorted(set(n for (_b, n) in zeroing)), oks), key="D7:reconnect-success-resets-backoff")
    hk = ctx.fn(HKC, "D7")
    if hk:
        # the count is bumped once per attempt, before the reconnect (record_reconnect_attempt), and nowhere else in housekeeping
        ws = sorted(set(a.fn.stable for a in ctx.eff.writers_of(RS, "reconnect_failure_count", ("store", "callstore", "mutborrow"))))
        ctx.chk.ob("D7", "the failure count is written only by record_attempt / mark_success / reset_for_reconnect", set(ws) <= {RS + "::record_attempt", RS + "::mark_success", CONN + "::reset_for_reconnect"},
                   "%s" % ws, key="D7:failure-count-writers")


def d2c_handshake_replies_do_not_stamp_liveness(ctx):
    """A torn-down link is retried when is_timed_out says so, and for a disconnected link that is `never heard | heard too long
    ago`: a REG_NGP / REG2 / REG_ERR reply must therefore not refresh last_received (only REG3 and ordinary traffic do), or a
    half-finished handshake postpones the next attempt by a whole timeout."""
    f = ctx.fn(PUP, "D2")
    if not f:
        return
    pa = ctx.pa(f)
    b = pa.bdd
    reg = [a for a in pa.bdd.vars if a[0] == "is" and a[2] == "None" and is_call(strip_old(a[1]), name_contains="process_registration_packet")]
    r3 = [a for a in pa.bdd.vars if a[0] == "is" and a[2] == "Reg3" and any(is_call(x, name_contains="process_registration_packet") for x in walk(a[1]))]
    if len(reg) != 1 or len(r3) != 1:
        ctx.chk.missing("D2", "process_uplink_packet: registration event tests", "%d / %d" % (len(reg), len(r3)))
        return
    allowed = b.OR(pa.atom(reg[0]), pa.atom(r3[0]))
    n = 0
    for (bb, si, s) in field_stores(f, CONN, "last_received"):
        v = pa.fa.val_rvalue(s["rv"], (bb, si))
        if not (v[0] == "agg" and str(v[2]).endswith("::Some")):
            continue
        n += 1
        pc = pa.pc_at(bb, si)
        ctx.chk.ob("D2", "the liveness clock is stamped only by REG3 or by a datagram that is not a handshake reply", pa.entails(pc, allowed), "PC = %s" % pa.show(pc, 3)[:300],
                   key="D2:handshake-replies-do-not-stamp", loc=s.get("loc"))
    ctx.chk.floor("D2", "last_received := Some(..) stores in process_uplink_packet", n, 1)


def d3b_every_pass_retries_every_link(ctx):
    """"retries continue indefinitely": the retry decision (is_timed_out & should_attempt_reconnect) is made for every link on every
    housekeeping pass - the test sits on the element of a loop over the whole connection slice, the loop has no early exit, and no
    return precedes it (a global "all links failed" exit in front of the loop would stop the retries of an established session)."""
    from ..ctx import loop_of_element
    from ..expr import strip_old
    from ..roles import upvar_index
    hk = ctx.fn(HKC, "D3")
    if not hk:
        return
    fa = ctx.fa(hk)
    cfg = ctx.cfg(hk)
    ui = upvar_index(hk, "connections")
    tests = calls_to(hk, stable=CONN + "::should_attempt_reconnect")
    if len(tests) != 1 or ui is None:
        ctx.chk.missing("D3", "handle_housekeeping: the should_attempt_reconnect test / the connection slice", "%d test(s)" % len(tests))
        return
    tb, tt = tests[0]
    link = strip_old(fa.val_operand(tt["args"][0], (tb, len(hk.blocks[tb]["stmts"]))))
    ok = full_slice_element(link, ("upvar", ui)) is not None
    lp = loop_of_element(hk, fa, link) if ok else None
    ctx.chk.ob("D3", "the retry test is made on the element of a loop over the whole connection slice", ok and lp is not None, show(link, hk.names)[:100], key="D3:retry-loop-over-all-links")
    if not lp:
        return
    ctx.chk.ob("D3", "the retry loop has no early exit (a failure on one link cannot end the pass)", not lp["exits"], "exits %s" % lp["exits"][:3], key="D3:retry-loop-no-early-exit")
    pre = [r for r in cfg.returns if not cfg.dominates(lp["none"], r)]
    ctx.chk.ob("D3", "no return precedes the retry loop (every housekeeping pass reaches it)", not pre and not cfg.returns_reachable_avoiding({lp["head"]}),
               "returns not after the loop: %s" % pre, key="D3:retry-loop-always-reached")


def d2d_hearing_anything_refreshes_liveness(ctx):
    """"torn down only when it has heard nothing for the configured timeout": what counts as hearing is every datagram that is not
    a handshake reply, on every path of the receive handler (an early return for, say, a keepalive echo without an RTT sample would
    let an idle but healthy link time out)."""
    from . import C09
    C09.liveness_stamp(ctx, rule="D2")


def d2b_connected_links_have_a_receive_stamp(ctx):
    """Detection rests on it: a connected link is timed out iff it has a receive stamp older than the timeout (D2), so every
    `connected := true` must come with `last_received := Some(..)` and every `last_received := None` with a disconnect."""
    from . import C10
    C10.connected_implies_received(ctx, "D2")


RULES = [d3b_every_pass_retries_every_link, d2d_hearing_anything_refreshes_liveness, d2b_connected_links_have_a_receive_stamp, d2c_handshake_replies_do_not_stamp_liveness, d7_backoff_does_not_accumulate, d1_who_tears_down, d2_liveness_predicate, d3_retry_spacing, d4_clean_rejoin, d5_survivors, d6_configured_timeout_applied]


def run(ctx):
    ctx.chk.not_decided = ["'connected again within 30 s' beyond its structural precondition D7 (short retry gap while the socket can be re-created), 'retries continue indefinitely', "
                           "'surviving uplinks keep carrying': timed liveness over fault schedules involving the receiver and tokio timers",
                           "REG_ERR clears last_received (an explicit rejection by the receiver): reported, not flagged"]
    ctx.run_rules(RULES)
