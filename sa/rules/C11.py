"""C11 - enhanced selection is stable, hysteretic and respects its gates.

D1 hysteresis: `return Some(last)` exactly under  last given & best != Some(last) & current_score recorded & best_score < current * 1.10;
   the value returned is the previous index; every other exit returns the best index; current_score is recorded, per link, exactly
   when the link is the previous one AND passed every skip (timed out / unschedulable / stall-gated / over its cap while an
   unconstrained link exists) - so the previous link is left only if it was skipped or beaten by >= 1.10x; the recorded score is
   the very score that competes for best;
D2 gates: the best-candidate update is reached only for links that passed every skip, under a strict `>`; the unconstrained
   predicate is the documented conjunction over the whole slice; gate factor = 0.02 iff any_unconstrained & (weak | loss_degraded),
   else 1.0; warming weight 0.8 (shared table C03.D6);
D3 score = base * [quality] * cap * gate with base = get_score() as f64 * phase_weight(), quality present iff the quality flag;
   the flag handed in by the dispatcher is config.effective_quality_enabled() and the dispatcher passes its own slice / last index / time;
D4 determinism: no clock / RNG is reachable from select_connection_idx - the decision is a function of its arguments; the quality cache
   stamps the caller's time, so a second call at the same time re-uses the value just computed;
D5 factor ranges (abstract interpretation with NaN tracking, for every field value): quality multiplier in [0.35, 1.1*1.03], RTT bonus in
   [1, 1.03], soft cap in [0.1, 1], none NaN; the cached multiplier keeps the range (closed writer set); in-flight cap >= 1 when defined.
"""
from .. import dtable, roles
from ..absint import AbsInt, Entry, Num
from ..ctx import CONN, full_slice_element, is_call, is_field, loop_of_element, sname
from ..expr import show, strip_old, walk
from ..pathcond import PathA, calls_to, field_stores
from . import C03

LEVEL = "other"
ENH = C03.ENH
SEL = "srtla_core::selection::select_connection_idx"
Q = "srtla_core::selection::quality::"
E = "srtla_core::selection::enhanced::"
CQ = "srtla_core::connection::CachedQuality"


class Loop:
    """The scoring loop of the enhanced selector, analysed per iteration."""

    def __init__(self, ctx, f):
        self.ok = False
        self.why = ""
        self.f = f
        fa = ctx.fa(f)
        sc = calls_to(f, stable=CONN + "::get_score")
        cfg0 = ctx.cfg(f)
        # the scoring site is the last one of an iteration (no other get_score call can follow it before the loop head)
        heads = set(cfg0.loop_heads())
        sc = [x for x in sc if not any(y[0] != x[0] and y[0] in cfg0.reach_strict(x[0], heads) for y in sc)]
        if len(sc) != 1:
            self.why = "%d candidate get_score call sites" % len(sc)
            return
        bb, t = sc[0]
        link = strip_old(fa.val_operand(t["args"][0], (bb, len(f.blocks[bb]["stmts"]))))
        if full_slice_element(link, ("param", 1)) is None:
            self.why = "the scored link is not the element of a whole-slice loop over `conns`"
            return
        self.link = link
        lp = loop_of_element(f, fa, link)
        if lp is None:
            self.why = "loop not recognised"
            return
        self.lp = lp
        self.pa = pa = PathA(ctx.w, f, entry=lp["some"])
        self.score_bb = bb
        b = pa.bdd
        # skip atoms
        L = link
        self.TO = self._one(lambda a: is_call(a, stable=CONN + "::is_timed_out") and a[2][0] == L and a[2][1] == ("param", 3))
        self.SCH = self._one(lambda a: is_call(a, stable=CONN + "::is_schedulable") and a[2][0] == L)
        self.SG = self._one(lambda a: a == ("field", L, CONN, "stall_gated"))
        self.CAP = self._one(lambda a: is_call(a, stable=E + "in_flight_cap_exceeded") and a[2][0] == L)
        self.WEAK = self._one(lambda a: a == ("field", L, CONN, "weak"))
        self.LOSS = self._one(lambda a: a == ("field", L, CONN, "loss_degraded"))
        anyc = C03.any_closures(ctx, f)
        self.any_closure = anyc[0] if len(anyc) == 1 else None
        self.ANY = None
        if self.any_closure is not None:
            v = C03.any_call_value(ctx, f, self.any_closure)
            r = pa.find(lambda a: strip_old(a) == strip_old(v)) if v is not None else []
            if not r:
                r = pa.find(lambda a: is_call(a, name_contains="Iterator>::any") or is_call(a, name_contains="Iterator::any"))
            self.ANY = r[0][1] if len(r) == 1 else None
        miss = [n for n in ("TO", "SCH", "SG", "CAP", "ANY") if getattr(self, n) is None]
        if miss:
            self.why = "skip tests not found: %s" % miss
            return
        self.ADMIT = b.AND(b.AND(b.NOT(self.TO), self.SCH), b.AND(b.NOT(self.SG), b.NOT(b.AND(self.ANY, self.CAP))))
        self.idx = ("field", L[1], L[2], "0") if L[0] == "field" and L[3] == "1" else None
        self.ok = True

    def _one(self, pred):
        r = self.pa.find(pred)
        return r[0][1] if len(r) == 1 else None


def _loop(ctx, rule):
    f = ctx.fn(ENH, rule)
    if not f:
        return None
    key = ("C11", ctx.w.uid)
    lp = _loop.cache.get(key)
    if lp is None:
        lp = Loop(ctx, f)
        _loop.cache[key] = lp
    if not lp.ok:
        ctx.chk.missing(rule, "enhanced selector: scoring loop and its skip tests", lp.why)
        return None
    return lp


_loop.cache = {}


def _roles(ctx, f):
    """(current_score, best_score, best_idx, score) of the enhanced selector, found by what they do (sa/roles.py)."""
    best = roles.running_extreme(ctx.w, f, None, tys=("f64",), hint="best_score")
    bidx = roles.result_local(ctx.w, f, hint="best_idx")
    cur = roles.option_latch(ctx.w, f, "f64", hint="current_score")
    score = roles.assigned_from(ctx.w, f, best, hint="score") if best is not None else None
    return cur, best, bidx, score


def score_rows(ctx):
    """Decision table of the competing score of one link: [(condition, sorted factor kinds, literal factors)] or (None, why)."""
    f = ctx.w.fn(ENH)
    if f is None:
        return None, "enhanced selector not found"
    key = ("C11rows", ctx.w.uid)
    if key in _loop.cache:
        return _loop.cache[key]
    lp = _loop.cache.get(("C11", ctx.w.uid))
    if lp is None:
        lp = Loop(ctx, f)
        _loop.cache[("C11", ctx.w.uid)] = lp
    res = (None, lp.why)
    if lp.ok:
        cur, best, bidx, score = _roles(ctx, f)
        pa = lp.pa
        L = lp.link
        use = None
        if score is not None:
            for (bb2, si2, s2) in _uses(f, score, lp.lp["body"]):
                use = (bb2, si2)
                break
        if use is None:
            res = (None, "the competing score (the value stored into the running best) was not found")
        else:
            try:
                rows = dtable.expand(pa, pa.fa.val_local(score, use), pa.pc_at(*use), {lp.lp["switch"]})
                out = []
                for (c, x) in rows:
                    kinds, consts = [], []
                    for t in _factors(x, []):
                        if is_call(t, stable=CONN + "::phase_weight") and t[2][0] == L:
                            kinds.append("phase")
                        elif t[0] == "cast" and is_call(strip_old(t[2]), stable=CONN + "::get_score") and strip_old(t[2])[2][0] == L:
                            kinds.append("base")
                        elif is_call(t, stable=E + "cc_soft_cap_multiplier") and t[2][0] == L:
                            kinds.append("cap")
                        elif is_call(t, stable=CONN + "::get_cached_quality_multiplier") and t[2][0] == L and t[2][1] == ("param", 3):
                            kinds.append("quality")
                        elif t[0] == "const" and isinstance(t[1], float):
                            consts.append(t[1])
                        else:
                            kinds.append("?:" + show(t, f.names)[:40])
                    out.append((c, sorted(kinds), sorted(consts)))
                res = (out, "")
            except dtable.NotEvaluable as e:
                res = (None, "decision table not evaluable: %s" % e)
    _loop.cache[key] = res
    return res


def d1_hysteresis(ctx):
    ctx.CONST("D1", E + "SWITCH_THRESHOLD", 1.10)
    lp = _loop(ctx, "D1")
    if not lp:
        return
    f, pa, b = lp.f, lp.pa, lp.pa.bdd
    cur, best, bidx, score = _roles(ctx, f)
    if None in (cur, best, bidx, score):
        ctx.chk.missing("D1", "enhanced selector: running best score / best index / competing score / record of the previous link's score",
                        "found: %s" % {"previous-score record": cur, "running best": best, "result index": bidx, "competing score": score})
        return
    # --- per iteration: where current_score is recorded
    n = 0
    for d in pa.fa.defs.get(cur, []):
        if d[2] != "assign" or d[0] not in lp.lp["body"]:
            continue
        v = pa.fa.val_rvalue(d[3], (d[0], d[1]))
        if not (v[0] == "agg" and v[2].endswith("::Some")):
            ctx.chk.ob("D1", "inside the loop current_score is only ever set to Some(score)", False, show(v, f.names)[:80], key="D1:current-score-store-shape")
            continue
        n += 1
        pc = pa.pc_at(d[0], d[1])
        # the `Some(i) == last_idx` test
        eq = [a for a in pa.atoms_of(pc) if is_call(a, name_contains="PartialEq") and any(strip_old(x) == ("param", 2) for x in a[2]) and
              any(x[0] == "agg" and x[2].endswith("::Some") and strip_old(x[3][0]) == lp.idx for x in [strip_old(y) for y in a[2]])]
        ok = len(eq) == 1 and pa.equivalent(pc, b.AND(lp.ADMIT, pa.atom(eq[0])))
        ctx.chk.ob("D1", "current_score is recorded exactly when the link is the previous one and passed every skip (incl. the in-flight cap while an unconstrained link exists)", ok,
                   "per link: %s" % pa.show(pc, 4)[:400], key="D1:current-score-iff-previous-and-admitted")
        sv = strip_old(v[3][0])
        ok = sv[0] == "var" and sv[1] == score or sv == strip_old(pa.fa.val_local(score, (d[0], d[1])))
        ctx.chk.ob("D1", "the recorded score is this link's competing score", ok, show(sv, f.names)[:100], key="D1:current-score-is-score")
    ctx.chk.floor("D1", "current_score := Some(..) stores in the loop", n, 1)
    # --- after the loop: the early return
    paf = ctx.pa(f)
    bf = paf.bdd
    cfg = ctx.cfg(f)
    rets = []
    for bi, blk in enumerate(f.blocks):
        if blk["cleanup"]:
            continue
        for si, s in enumerate(blk["stmts"]):
            if s["k"] == "assign" and s["p"]["l"] == 0 and not s["p"]["proj"]:
                rets.append((bi, si, s, paf.fa.val_rvalue(s["rv"], (bi, si))))
    stay = [r for r in rets if r[3][0] == "agg"]
    other = [r for r in rets if r[3][0] != "agg"]
    ok = len(stay) == 1 and len(other) >= 1
    ctx.chk.ob("D1", "one `return Some(last)` site; every other exit returns best_idx", ok and all(strip_old(r[3]) == strip_old(paf.fa.val_local(bidx, (r[0], r[1]))) or
               (r[3][0] == "var" and r[3][1] == bidx) for r in other), "%d / %d" % (len(stay), len(other)), key="D1:exits")
    if len(stay) == 1:
        bi, si, s, v = stay[0]
        last = strip_old(v[3][0])
        oklast = last == ("field", ("as", ("param", 2), "Some"), "core::option::Option", "0")
        ctx.chk.ob("D1", "the hysteresis exit returns the previous index", v[2].endswith("::Some") and oklast, show(v, f.names)[:80], key="D1:stay-returns-last", loc=s.get("loc"))
        # relative to the end of the loop
        par = PathA(ctx.w, f, entry=lp.lp["none"])
        br = par.bdd
        pc = par.pc_at(bi, si)
        last_some = br.NOT(par.is_atom(("is", ("param", 2), "None")))
        cur_some = [fm for (a, fm) in par.find(lambda a: a[0] == "is" and a[1][0] == "var" and a[1][1] == cur)]
        ne = par.find(lambda a: is_call(a, name_contains="PartialEq") and any(x[0] == "var" and x[1] == bidx for x in [strip_old(y) for y in a[2]]) and
                      any(x[0] == "agg" and x[2].endswith("::Some") and strip_old(x[3][0]) == last for x in [strip_old(y) for y in a[2]]))
        lt = par.find(lambda a: a[0] == "bin" and a[1] == "Lt" and a[2][0] == "var" and a[2][1] == best and a[3][0] == "bin" and a[3][1] == "Mul" and
                      any(x == ("const", 1.1, "f64") for x in (a[3][2], a[3][3])) and
                      any(strip_old(x) == ("field", ("as", ("var", cur, x[1][1][2]) if False else x[1][1], "Some"), "core::option::Option", "0") if (x[0] == "field" and x[1][0] == "as" and x[1][1][0] == "var" and x[1][1][1] == cur) else False
                          for x in (a[3][2], a[3][3])))
        ok = len(cur_some) == 1 and len(ne) == 1 and len(lt) == 1
        if ok:
            a0 = par.find(lambda a: a[0] == "is" and a[1][0] == "var" and a[1][1] == cur)[0][0]
            cs = cur_some[0] if a0[2] == "Some" else br.NOT(cur_some[0])
            neq = br.NOT(ne[0][1]) if ne[0][0][1].endswith("::eq") else ne[0][1]
            want = br.AND(br.AND(last_some, neq), br.AND(cs, lt[0][1]))
            ok = par.equivalent(pc, want)
        ctx.chk.ob("D1", "stay on the previous link iff it is not the best, it was scored, and best_score < current * 1.10", ok, "after the loop: %s" % par.show(pc, 4)[:300],
                   key="D1:stay-condition", loc=s.get("loc"))


def d2_gates(ctx):
    ctx.CONST("D2", E + "GATED_LINK_PENALTY", 0.02)
    lp = _loop(ctx, "D2")
    if not lp:
        return
    f, pa, b = lp.f, lp.pa, lp.pa.bdd
    cur, best, bidx, score = _roles(ctx, f)
    # best update
    n = 0
    for d in pa.fa.defs.get(bidx, []):
        if d[2] != "assign" or d[0] not in lp.lp["body"]:
            continue
        n += 1
        v = strip_old(pa.fa.val_rvalue(d[3], (d[0], d[1])))
        pc = pa.pc_block(d[0])   # block entry: `best_score = score` in the same block would hide the comparison
        gt = [a for a in pa.atoms_of(pc) if a[0] == "bin" and a[1] == "Lt" and a[2][0] == "var" and a[2][1] == best]
        ok = pa.entails(pc, lp.ADMIT) and len(gt) == 1 and pa.equivalent(pc, b.AND(lp.ADMIT, pa.atom(gt[0])))
        ctx.chk.ob("D2", "a link becomes the best candidate only if it passed every skip (never while over its cap with an unconstrained link around) and strictly beats the best so far",
                   ok, "per link: %s" % pa.show(pc, 4)[:300], key="D2:best-update-admitted")
        okv = v[0] == "agg" and v[2].endswith("::Some") and strip_old(v[3][0]) == lp.idx
        ctx.chk.ob("D2", "the candidate index stored is this link's index", okv, show(v, f.names)[:80], key="D2:best-index-is-link")
        if gt:
            rhs = gt[0][3]
            ok = (rhs[0] == "var" and rhs[1] == score) or strip_old(rhs) == strip_old(pa.fa.val_local(score, (d[0], d[1])))
            ctx.chk.ob("D2", "the comparison is best_score < score (this link's score)", ok, show(gt[0], f.names)[:120], key="D2:compare-is-score")
    ctx.chk.floor("D2", "best_idx stores in the loop", n, 1)
    # unconstrained predicate
    if lp.any_closure is not None:
        c = lp.any_closure
        cpa = ctx.pa(c)
        cb = cpa.bdd
        rt = cpa.ret_true()
        P = ("param", 2)
        def one(pred):
            r = cpa.find(pred)
            return r[0][1] if len(r) == 1 else None
        parts = {
            "connected": one(lambda a: a == ("field", P, CONN, "connected")),
            "timed_out": one(lambda a: is_call(a, stable=CONN + "::is_timed_out") and a[2][0] == P),
            "schedulable": one(lambda a: is_call(a, stable=CONN + "::is_schedulable") and a[2][0] == P),
            "weak": one(lambda a: a == ("field", P, CONN, "weak")),
            "loss": one(lambda a: a == ("field", P, CONN, "loss_degraded")),
            "gated": one(lambda a: a == ("field", P, CONN, "stall_gated")),
            "cap": one(lambda a: is_call(a, stable=E + "in_flight_cap_exceeded") and a[2][0] == P),
        }
        miss = [k for k, v in parts.items() if v is None]
        if miss:
            ctx.chk.ob("D2", "the unconstrained predicate tests connected, timeout, phase, weak, loss, stall gate and cap", False, "not found: %s" % miss, key="D2:unconstrained-predicate")
        else:
            want = cb.TRUE
            for k, pos in (("connected", True), ("timed_out", False), ("schedulable", True), ("weak", False), ("loss", False), ("gated", False), ("cap", False)):
                want = cb.AND(want, parts[k] if pos else cb.NOT(parts[k]))
            ctx.chk.ob("D2", "unconstrained == connected & !timed_out & schedulable & !weak & !loss_degraded & !stall_gated & !over-cap", cpa.equivalent(rt, want),
                       "RT = %s" % cpa.show(rt)[:300], key="D2:unconstrained-predicate")
        v = C03.any_call_value(ctx, f, c)
        src = [x for x in walk(v) if is_call(x, name_contains="<impl [T]>::iter")] if v else []
        ok = bool(src) and strip_old(src[0][2][0]) == ("param", 1) and not any(is_call(x, name_contains=m) for x in walk(v) for m in ("::skip", "::take", "::filter", "::rev"))
        ctx.chk.ob("D2", "`any unconstrained` ranges over the whole slice", ok, "", key="D2:unconstrained-whole-slice")
    # gate factor table: the literal factor of the score product
    rows, why = score_rows(ctx)
    ok = False
    det = why
    if rows is not None and lp.WEAK is not None and lp.LOSS is not None:
        q = b.AND(lp.ANY, b.OR(lp.WEAK, lp.LOSS))
        ok = len(rows) >= 2
        det = ""
        for (c, kinds, consts) in rows:
            lit = 1.0
            for v in consts:
                lit *= v
            if consts in ([0.02], [0.02, 1.0]):
                ok = ok and pa.entails(c, q)
            elif consts in ([], [1.0]):
                ok = ok and pa.entails(c, b.NOT(q))
            else:
                ok = False
            det += "x%s <= %s; " % (consts, pa.show(c, 2)[:80])
    ctx.chk.ob("D2", "gate factor = 0.02 iff an unconstrained link exists and this one is weak or loss-degraded, else 1.0", ok, det[:400], key="D2:gate-factor-table")
    C03.d6_phase_tables(ctx)


def _uses(f, l, body):
    for bi, blk in enumerate(f.blocks):
        if bi not in body or blk["cleanup"]:
            continue
        for si, s in enumerate(blk["stmts"]):
            if s["k"] == "assign":
                txt = repr(s["rv"])
                if ("'l': %d," % l) in txt or ("'l': %d}" % l) in txt:
                    yield (bi, si, s)


def _factors(e, out):
    e = strip_old(e)
    if e[0] == "bin" and e[1] == "Mul":
        _factors(e[2], out)
        _factors(e[3], out)
    else:
        out.append(e)
    return out


def d3_score_formula(ctx):
    lp = _loop(ctx, "D3")
    if lp:
        pa, b = lp.pa, lp.pa.bdd
        rows, why = score_rows(ctx)
        ok = False
        det = why
        if rows is not None:
            eq = pa.find(lambda a: a == ("param", 4))
            ok = len(rows) >= 2 and len(eq) == 1
            det = ""
            for (c, kinds, consts) in rows:
                withq = kinds == sorted(["base", "phase", "quality", "cap"])
                noq = kinds == sorted(["base", "phase", "cap"])
                if withq:
                    ok = ok and len(eq) == 1 and pa.entails(c, eq[0][1])
                elif noq:
                    ok = ok and len(eq) == 1 and pa.entails(c, b.NOT(eq[0][1]))
                else:
                    ok = False
                det += "%s x%s <= %s; " % (kinds, consts, pa.show(c, 2)[:60])
        ctx.chk.ob("D3", "score = get_score() as f64 * phase_weight * [cached quality iff the flag] * soft cap * gate factor, all of this link", ok, det[:400], key="D3:score-formula")
    sel = ctx.fn(SEL, "D3")
    if sel:
        fa = ctx.fa(sel)
        cs = calls_to(sel, stable=ENH)
        ok = len(cs) == 1
        if ok:
            bb, t = cs[0]
            n = len(sel.blocks[bb]["stmts"])
            a = [strip_old(fa.val_operand(x, (bb, n))) for x in t["args"]]
            ok = a[0] == ("param", 1) and a[1] == ("param", 2) and a[2] == ("param", 3) and is_call(a[3], name_contains="effective_quality_enabled") and a[3][2][0] == ("param", 4)
        ctx.chk.ob("D3", "the dispatcher hands its own slice, previous index and time to the enhanced selector, with config.effective_quality_enabled()", ok, "", key="D3:dispatcher-arguments")
    eq = ctx.fn("srtla_core::config_snapshot::ConfigSnapshot::effective_quality_enabled", "D3")
    if eq:
        pa = ctx.pa(eq)
        rt = pa.ret_true()
        CS = "srtla_core::config_snapshot::ConfigSnapshot"
        qe = pa.find(lambda a: is_field(a, "quality_enabled", CS))
        cl = pa.find(lambda a: is_call(a, name_contains="is_classic") or (a[0] == "is" and a[2] == "Classic"))
        ok = len(qe) == 1 and (not cl or len(cl) == 1)
        if ok:
            want = qe[0][1] if not cl else pa.bdd.AND(qe[0][1], pa.bdd.NOT(cl[0][1]))
            ok = pa.equivalent(rt, want)
        ctx.chk.ob("D3", "effective_quality_enabled == quality_enabled (and not classic)", ok, "RT = %s" % pa.show(rt)[:200], key="D3:effective-quality-flag")


CLOCKS = ("::now_ms", "Instant::now", "SystemTime::now", "rand::", "thread_rng", "getrandom", "RandomState", "fastrand")


def d4_determinism(ctx):
    sel = ctx.fn(SEL, "D4")
    if sel:
        ctx.REACHES_NOT("D4", sel, lambda p: any(c in p for c in CLOCKS) and "tracing" not in p, "a clock or a random source")
        n = len(ctx.eff.reachable(sel.id))
        ctx.chk.floor("D4", "bodies reachable from select_connection_idx", n, 40)
    g = ctx.fn(CONN + "::get_cached_quality_multiplier", "D4")
    if g:
        pa = ctx.pa(g)
        b = pa.bdd
        st_m = field_stores(g, CQ, "multiplier")
        st_t = field_stores(g, CQ, "last_calculated_ms")
        ok = len(st_m) == 1 and len(st_t) == 1
        if ok:
            vm = strip_old(pa.fa.val_rvalue(st_m[0][2]["rv"], (st_m[0][0], st_m[0][1])))
            vt = strip_old(pa.fa.val_rvalue(st_t[0][2]["rv"], (st_t[0][0], st_t[0][1])))
            fresh = pa.find(lambda a: a[0] == "bin" and a[1] == "Lt" and is_call(strip_old(a[2]), name_contains="saturating_sub") and strip_old(a[2])[2][0] == ("param", 2) and a[3] == ("const", 50, "u64"))
            ok = is_call(vm, name_contains="calculate_quality_multiplier") and vm[2] == (("param", 1), ("param", 2)) and vt == ("param", 2) and len(fresh) == 1
            if ok:
                stale = b.NOT(fresh[0][1])
                ok = pa.equivalent(pa.pc_at(st_m[0][0], st_m[0][1]), stale) and pa.equivalent(pa.pc_at(st_t[0][0], st_t[0][1]), stale)
                # and what is returned is the field
                r = ctx.cfg(g).returns
                rv = strip_old(pa.fa.val_local(0, (r[0], len(g.blocks[r[0]]["stmts"])))) if len(r) == 1 else None
                ok = ok and rv is not None and is_field(rv, "multiplier", CQ)
        ctx.chk.ob("D4", "the quality cache recomputes exactly when >= 50 ms old, stamps the caller's time with the value, and returns the stored value (a repeat call at the same time recomputes nothing)",
                   ok, "", key="D4:cache-idempotent")
    ctx.CONST("D4", "srtla_core::connection::QUALITY_CACHE_INTERVAL_MS", 50)


def _locals_in(obj, out):
    if isinstance(obj, dict):
        if "l" in obj and isinstance(obj["l"], int):
            out.add(obj["l"])
        for v in obj.values():
            _locals_in(v, out)
    elif isinstance(obj, list):
        for v in obj:
            _locals_in(v, out)
    return out


def d4b_score_is_per_link(ctx):
    """A re-run on the same state gives the same answer only if a link's score is a function of that link and of the call's
    arguments: no variable carried from one iteration of the scoring loop to the next may flow into it (data or control).  The
    running best, its index and the previous link's score are carried, but are compared with the score, not used to compute it."""
    f = ctx.fn(ENH, "D4")
    if not f:
        return
    lp = _loop.cache.get(("C11", ctx.w.uid))
    if lp is None:
        lp = Loop(ctx, f)
        _loop.cache[("C11", ctx.w.uid)] = lp
    if not lp.ok:
        ctx.chk.missing("D4", "enhanced selector: scoring loop", lp.why)
        return
    cur, best, bidx, score = _roles(ctx, f)
    if score is None:
        ctx.chk.missing("D4", "enhanced selector: the competing score", "")
        return
    cfg = ctx.cfg(f)
    body = set(lp.lp["body"])
    head = lp.lp["head"]
    defs_in = {}
    defs_out = set()
    for bi, blk in enumerate(f.blocks):
        if blk["cleanup"]:
            continue
        sites = []
        for si, st in enumerate(blk["stmts"]):
            if st["k"] == "assign" and not st["p"]["proj"]:
                sites.append((st["p"]["l"], st["rv"]))
        t = blk["term"]
        if t["k"] == "call" and not t["dest"]["proj"]:
            sites.append((t["dest"]["l"], {"f": t["f"] if "id" not in t["f"] else None, "args": t["args"]}))
        for (l, src) in sites:
            if bi in body:
                defs_in.setdefault(l, []).append((bi, src))
            else:
                defs_out.add(l)
    carried = set(l for l in defs_in if l in defs_out and l > f.argc)
    switches = [(bi, _locals_in(f.blocks[bi]["term"].get("d"), set())) for bi in body if f.blocks[bi]["term"]["k"] == "switch" and not f.blocks[bi]["cleanup"]]
    same_iter = {}
    deps = set()
    work = [score]
    why = {}
    while work:
        l = work.pop()
        for (bi, src) in defs_in.get(l, []):
            used = _locals_in(src, set())
            for (sb, sl) in switches:
                if sb not in same_iter:
                    same_iter[sb] = cfg.reach_from(sb, {head})
                if bi in same_iter[sb] and sb != bi:
                    used |= sl
            for u in used:
                if u not in deps:
                    deps.add(u)
                    why[u] = l
                    work.append(u)
    bad = sorted(l for l in deps if l in carried)
    names = [f.names.get(l, "_%d" % l) if isinstance(f.names, dict) else "_%d" % l for l in bad]
    ctx.chk.floor("D4", "locals the score depends on", len(deps), 5)
    ctx.chk.ob("D4", "a link's score depends on no variable carried over from the links scored before it", not bad,
               "carried into the score: %s (carried locals: %d, dependence set: %d)" % (names, len(carried), len(deps)), key="D4:score-is-per-link")


QLO, QHI = 0.35, 1.1 * 1.03


def d5_factor_ranges(ctx):
    def rng(st, lo, hi, what, key):
        f = ctx.fn(st, "D5")
        if not f:
            return None
        ai = AbsInt(ctx.w)
        ret, _m = ai.run(f, Entry())
        ok = isinstance(ret, Num) and not ret.nan and ret.lo >= lo - 1e-9 and ret.hi <= hi + 1e-9
        ctx.chk.ob("D5", "%s in [%g, %g], never NaN, for every link state" % (what, lo, hi), ok, "returns %r" % (ret,), key="D5:range:%s" % key)
        bad = [o for o in ai.obligations if not o.ok]
        ctx.chk.ob("D5", "%s: no arithmetic panic" % what, not bad, "; ".join("%s %s" % (o.kind, o.detail) for o in bad[:3]), key="D5:no-panic:%s" % key)
        return ai
    rng(Q + "calculate_quality_multiplier", QLO, QHI, "quality multiplier", "quality")
    rng(Q + "calculate_rtt_bonus", 1.0, 1.03, "RTT bonus", "rtt-bonus")
    rng(E + "cc_soft_cap_multiplier", 0.1, 1.0, "soft-cap factor", "soft-cap")
    for n, v in (("PERFECT_CONNECTION_BONUS", 1.1), ("MAX_RTT_BONUS", 1.03), ("MAX_PENALTY", 0.5), ("NAK_BURST_PENALTY", 0.7), ("STARTUP_NAK_PENALTY", 0.98), ("STARTUP_GRACE_PERIOD_MS", 30000)):
        ctx.CONST("D5", Q + n, v)
    ctx.CONST("D5", E + "CC_SOFT_CAP_FLOOR", 0.10)
    # cached value keeps the range
    ctx.WHO_WRITES("D5", CQ, "multiplier", {CONN + "::get_cached_quality_multiplier"}, floor=1,
                   allow_agg_in={"<" + CQ + " as core::default::Default>::default", "<" + CQ + " as core::clone::Clone>::clone"})
    g = ctx.fn(CONN + "::get_cached_quality_multiplier", "D5")
    if g:
        ai = AbsInt(ctx.w)
        e = Entry()
        e.invariant(CQ, "multiplier", lambda: Num("f64", QLO, QHI))
        ret, _m = ai.run(g, e)
        ok = isinstance(ret, Num) and not ret.nan and ret.lo >= QLO - 1e-9 and ret.hi <= QHI + 1e-9
        ctx.chk.ob("D5", "the cached multiplier handed to the score stays in [0.35, 1.133] (inductive over its two writers)", ok, "returns %r" % (ret,), key="D5:range:cached-quality")
    d = ctx.fn("<" + CQ + " as core::default::Default>::default", "D5")
    if d:
        fa = ctx.fa(d)
        ok = False
        for bi, blk in enumerate(d.blocks):
            for si, s in enumerate(blk["stmts"]):
                if s["k"] == "assign" and s["rv"]["k"] == "agg" and s["rv"].get("adt") == CQ:
                    v = fa.val_rvalue(s["rv"], (bi, si))
                    m = dict(zip(v[4], v[3])).get("multiplier")
                    ok = m is not None and m[0] == "const" and QLO <= m[1] <= QHI
        ctx.chk.ob("D5", "the cache starts inside the range", ok, "", key="D5:range:cache-default")
    # in-flight cap >= 1
    f = ctx.fn(E + "in_flight_cap_packets", "D5")
    if f:
        ai = AbsInt(ctx.w)
        ai.run(f, Entry())
        mins = [c for c in ai.calls if c.path.endswith("::min") and c.fn.id == f.id]
        ok = len(mins) >= 1 and all(isinstance(c.args[0], Num) and not c.args[0].nan and c.args[0].lo >= 1.0 for c in mins)
        ctx.chk.ob("D5", "a defined in-flight cap is at least one packet", ok, "%s" % [repr(c.args[0]) for c in mins][:2], key="D5:cap-at-least-one")
        bad = [o for o in ai.obligations if not o.ok]
        ctx.chk.ob("D5", "in-flight cap: no arithmetic panic", not bad, "; ".join("%s %s" % (o.kind, o.detail) for o in bad[:3]), key="D5:no-panic:cap")


RULES = [d1_hysteresis, d2_gates, d3_score_formula, d4_determinism, d4b_score_is_per_link, d5_factor_ranges]


def run(ctx):
    ctx.chk.not_decided = ["absence of oscillation across a changing state; behaviour when the 50 ms cache rolls over between two calls",
                           "float rounding of the score product (comparisons are decided on the extracted formulas)",
                           "that `is_timed_out` / `in_flight_cap_exceeded` evaluated in the first pass and in the loop agree (they read the same unchanged fields; the loop writes only the quality cache)"]
    ctx.run_rules(RULES, core_only=())
