"""C18 - the runtime control protocol is total, well-formed and takes effect.

D1 panic-freedom of dispatch, dispatch_async, Response::to_json, SharedStats::{get,to_json};
D2 error-code sites: the constants, and which body constructs which code under which condition;
D3 one response iff id, for each dispatcher on its own: the formula under which it returns Some(..) is `line not empty & (unparsable | has id)`;
   every parsed right-version request reaches a method handler, id or not; how every Response is built (version, exactly one of result/error, id source);
D4 clamp and echo: every value that reaches the conn_timeout atomic lies in [1000, 60000]; the setter returns what it stored and the handler echoes it;
D5 takes effect: setter -> atomic field -> snapshot() field -> get_status key, same field all along;
D6 the stdin and socket entry points agree (same codes, same handle_method call for non-subscription methods; D3 is decided for each separately).
"""
from ..absint import AbsInt, Entry, Num
from ..ctx import bool_branches, is_call, is_field, result_arms, sname, some_of
from ..expr import show, strip_old, walk
from ..pathcond import PathA, calls_to
from . import panicfree

LEVEL = "other"
C = "srtla_send::control::"
DC = "srtla_send::config::DynamicConfig"
SNAP = "srtla_core::config_snapshot::ConfigSnapshot"
INNER = C + "dispatch_inner"
ASYNC = C + "dispatch_async::{closure#0}"
HM = C + "handle_method"
EO = C + "ErrorObject"
RESP = C + "Response"
CODES = {"PARSE_ERROR": -32700, "INVALID_REQUEST": -32600, "METHOD_NOT_FOUND": -32601, "INVALID_PARAMS": -32602, "INTERNAL_ERROR": -32603}


def d1_total(ctx):
    panicfree.panic_free(ctx, "D1", [C + "dispatch", ASYNC, RESP + "::to_json", "srtla_send::stats::SharedStats::to_json", "srtla_send::stats::SharedStats::get"],
                         what=" (control dispatch and serialisation)")


def _error_sites(ctx, fn):
    """[(code, bb, loc, how)] of ErrorObject constructions in fn (struct literal or ErrorObject::new)."""
    fa = ctx.fa(fn)
    out = []
    for bi, blk in enumerate(fn.blocks):
        if blk["cleanup"]:
            continue
        for si, s in enumerate(blk["stmts"]):
            if s["k"] == "assign" and s["rv"]["k"] == "agg" and s["rv"].get("adt") == EO:
                v = fa.val_rvalue(s["rv"], (bi, si))
                code = dict(zip(v[4], v[3])).get("code")
                out.append((code[1] if code and code[0] == "const" else None, bi, s.get("loc"), "literal"))
        t = blk["term"]
        if t["k"] == "call" and t["f"].get("stable") == EO + "::new":
            c = fa.val_operand(t["args"][0], (bi, len(blk["stmts"])))
            out.append((c[1] if c[0] == "const" else None, bi, t.get("loc"), "new"))
    return out


def d2_error_codes(ctx):
    for n, v in CODES.items():
        ctx.CONST("D2", C + n, v)
    eff = ctx.eff
    entry = [ctx.w.fn(INNER), ctx.w.fn(ASYNC)]
    if not all(entry):
        ctx.chk.missing("D2", "dispatch_inner / dispatch_async", "")
        return
    reach = set()
    for e in entry:
        reach |= eff.reachable(e.id)
    table = {}
    for fid in sorted(reach):
        f = ctx.w.fns[fid]
        if not f.stable.startswith(C) or f.stable == EO + "::new":
            continue
        for (code, bb, loc, how) in _error_sites(ctx, f):
            table.setdefault(f.stable, []).append(code)
    ctx.chk.floor("D2", "bodies constructing error objects", len(table), 8)
    # which body may construct which code
    for st, codes in sorted(table.items()):
        base = st.split("::{closure")[0]
        if st in (INNER, ASYNC) or (base in (INNER, C + "dispatch_async") and "{closure" in st):
            want = {-32700, -32600}  # where each may be built is decided below
        elif st == HM:
            want = {-32601}
        elif base == HM:
            want = {-32602, -32603}
        elif base == C + "parse_mode":
            want = {-32602}
        elif base in (C + "handle_subscribe", C + "handle_unsubscribe"):
            want = {-32602}
        else:
            want = set()
        ok = set(codes) <= want and None not in codes
        ctx.chk.ob("D2", "%s constructs only %s" % (sname(st), sorted(want)), ok, "constructs %s" % sorted(codes, key=repr), key="D2:codes-by-body:%s" % st)
    # conditions, for each dispatcher on its own and whatever its control shape: a -32700 is built only where the line failed to parse,
    # a -32600 only where the version member is not "2.0" (sites inside a closure count at the call that receives the closure)
    from ..ctx import ok_of
    for e in entry:
        pa = ctx.pa(e)
        fa = pa.fa
        bd = pa.bdd
        parsed = ok_of(pa, lambda x: is_call(x, name_contains="from_str"))
        ver = pa.find(lambda a_: is_call(a_, name_contains="PartialEq") and any(is_field(x, "jsonrpc") for x in walk(a_)) and
                      any(x[0] == "const" and x[1] == "2.0" for x in walk(a_)))
        if not parsed or len(ver) != 1:
            ctx.chk.missing("D2", "%s: atoms `from_str is Ok` / `jsonrpc ==/!= \"2.0\"`" % sname(e.stable), "%d/%d" % (len(parsed), len(ver)))
            continue
        P = parsed[0][1]
        wrong = ver[0][1] if ver[0][0][1].endswith("::ne") else bd.NOT(ver[0][1])
        sites = [(code, bb, loc) for (code, bb, loc, _h) in _error_sites(ctx, e)]
        for (bb, t) in e.calls():
            for arg in t["args"]:
                for x in walk(fa.val_operand(arg, (bb, len(e.blocks[bb]["stmts"])))):
                    if x[0] == "agg" and x[1] == "closure" and x[2] in ctx.w.fns:
                        sites += [(code, bb, loc) for (code, _b, loc, _h) in _error_sites(ctx, ctx.w.fns[x[2]])]
        n7 = n6 = 0
        for (code, bb, loc) in sites:
            if bb not in pa.pc_in:
                continue
            pc = pa.pc_block(bb)
            if code == -32700:
                n7 += 1
                ctx.chk.ob("D2", "%s: -32700 only where the line could not be parsed" % sname(e.stable), pa.entails(pc, bd.NOT(P)), "PC = %s" % pa.show(pc, 2)[:200],
                           key="D2:parse-error-site:%s" % e.stable, loc=loc)
            elif code == -32600:
                n6 += 1
                ctx.chk.ob("D2", "%s: -32600 only when jsonrpc != \"2.0\"" % sname(e.stable), pa.entails(pc, bd.AND(P, wrong)), "PC = %s" % pa.show(pc, 2)[:200],
                           key="D2:invalid-request-site:%s" % e.stable, loc=loc)
        ctx.chk.floor("D2", "%s: -32700 sites" % sname(e.stable), n7, 1)
        ctx.chk.floor("D2", "%s: -32600 sites" % sname(e.stable), n6, 1)
    # unknown / reserved methods
    hm = ctx.fn(HM, "D2")
    if hm:
        pa = ctx.pa(hm)
        known = ["set_mode", "set_quality", "set_stall_deselect", "set_conn_timeout", "get_status", "get_stats"]
        atoms = {}
        for a in pa.bdd.vars:
            if is_call(a, name_contains="PartialEq") and a[2] and a[2][0] == ("param", 4):
                for x in walk(a):
                    if x[0] == "const" and isinstance(x[1], str):
                        atoms[x[1]] = pa.atom(a)
        ctx.chk.ob("D2", "handle_method compares the method with every documented name", all(k in atoms for k in known + ["subscribe", "unsubscribe"]),
                   "compared with %s" % sorted(atoms), key="D2:method-names")
        for (code, bb, loc, how) in _error_sites(ctx, hm):
            if code == -32601 and all(k in atoms for k in known):
                pc = pa.pc_block(bb)
                ok = all(pa.entails(pc, pa.bdd.NOT(atoms[k])) for k in known)
                ctx.chk.ob("D2", "-32601 only for a method that is none of the implemented ones", ok, "PC = %s" % pa.show(pc, 2)[:200], key="D2:method-not-found-site", loc=loc)


def d3a_envelope_accepts_any_params(ctx):
    """A request whose `params` (or `id`) has an unexpected JSON shape must still be answered by the method layer (-32602, id echoed):
    the envelope type must not reject it, i.e. params deserialises from any JSON value and id from any value or absence."""
    a = ctx.w.adts.get(C + "Request")
    if not a:
        ctx.chk.missing("D3", C + "Request", "request envelope type not found")
        return
    tys = {f["name"]: f["ty"] for f in a["variants"][0]["fields"]}
    ctx.chk.ob("D3", "the request envelope takes `params` as an arbitrary JSON value (shape errors are the method layer's, with the id)", tys.get("params") == "serde_json::Value",
               "params: %s" % tys.get("params"), key="D3:envelope-params-any-json")
    ctx.chk.ob("D3", "the request envelope takes `id` as an optional arbitrary JSON value", tys.get("id") == "std::option::Option<serde_json::Value>", "id: %s" % tys.get("id"),
               key="D3:envelope-id-any-json")


def d6b_socket_dispatches_the_line_just_read(ctx):
    """The socket entry point answers each line like stdin does only if what it dispatches is the line just read: read_line appends
    to its buffer, so after every completed read the buffer is cleared before the next read_line, and the dispatched text is the
    trimmed buffer."""
    H = "srtla_send::control_socket::handle::{closure#0}"
    h = ctx.fn(H, "D6")
    if not h:
        return
    fa = ctx.fa(h)
    cfg = ctx.cfg(h)
    # a request is one whole line: nothing on the way from the socket to read_line may cut a line short (a byte-limited reader returns
    # a long line in pieces, each of which would be dispatched as a request of its own)
    ctx.REACHES_NOT("D6", h, lambda p: p.endswith("AsyncReadExt::take") or "io::util::take::Take" in p, "a byte-limiting reader adaptor (lines would be dispatched in pieces)")
    reads = [(bb, t) for (bb, t) in h.calls() if t["f"].get("path", "").endswith("AsyncBufReadExt::read_line")]
    if len(reads) != 1:
        ctx.chk.missing("D6", "control_socket::handle: the read_line call", "%d" % len(reads))
        return
    rb, rt = reads[0]
    buf = strip_old(fa.val_operand(rt["args"][1], (rb, len(h.blocks[rb]["stmts"]))))
    clears = [bb for (bb, t) in h.calls() if t["f"].get("path", "").endswith("String::clear") and strip_old(fa.val_operand(t["args"][0], (bb, len(h.blocks[bb]["stmts"])))) == buf]
    arms = [a for (sb, a) in result_arms(h, fa, lambda e: any(is_call(x, name_contains="read_line") for x in walk(e))) if "Ok" in a and "Err" in a]
    ok = len(arms) == 1 and bool(clears) and cfg.in_cycle(rb)
    det = "%d clear site(s)" % len(clears)
    if ok:
        stale = cfg.can_reach(arms[0]["Ok"], rb, avoid=set(clears))
        ok = not stale
        if stale:
            det = "after a completed read the loop can come back to read_line without clearing the buffer"
    ctx.chk.ob("D6", "the socket handler clears its line buffer after every completed read, before reading the next line", ok, det, key="D6:socket-buffer-cleared", loc=rt.get("loc"))
    ds = calls_to(h, stable=C + "dispatch_async")
    ok = len(ds) == 1
    if ok:
        bb, t = ds[0]
        line = strip_old(fa.val_operand(t["args"][-1], (bb, len(h.blocks[bb]["stmts"]))))
        tr = [x for x in walk(line) if is_call(x, name_contains="<impl str>::trim")]
        ok = len(tr) == 1 and any(y == buf for y in walk(tr[0]))
    ctx.chk.ob("D6", "what the socket handler dispatches is the trimmed line buffer", ok, "", key="D6:socket-dispatches-buffer")


def _response_iff_id(ctx, f):
    """For one dispatcher body: the formula under which it returns Some(..), from every store to the return place, must be
    `line not empty & (parse failed | request has an id)` - whatever the control shape (early returns, `req.id.map(..)`, flags)."""
    from ..ctx import ok_of
    pa = ctx.pa(f)
    fa = pa.fa
    b = pa.bdd
    st = f.stable
    empty = pa.find(lambda a: is_call(a, name_contains="str>::is_empty"))
    parsed = ok_of(pa, lambda x: is_call(x, name_contains="from_str"))
    has_id = some_of(pa, lambda x: is_field(x, "id"))
    if not empty or not parsed or not has_id:
        ctx.chk.missing("D3", "%s: atoms `line is empty` / `from_str is Ok` / `req.id is Some`" % sname(st), "%d/%d/%d" % (len(empty), len(parsed), len(has_id)))
        return
    E, P, I = empty[0][1], parsed[0][1], has_id[0][1]
    some = b.FALSE
    n = 0
    evaluable = True
    det = []
    for bi, blk in enumerate(f.blocks):
        if blk["cleanup"] or bi not in pa.pc_in:
            continue
        for si, s_ in enumerate(blk["stmts"]):
            if s_["k"] == "assign" and s_["p"]["l"] == 0 and not s_["p"]["proj"]:
                n += 1
                if s_["rv"]["k"] == "agg" and s_["rv"].get("vn") in ("None", "Some"):
                    if s_["rv"]["vn"] == "Some":
                        some = b.OR(some, pa.pc_at(bi, si))
                else:
                    v = strip_old(fa.val_rvalue(s_["rv"], (bi, si)))
                    fm = _is_some_formula(pa, v)
                    if fm is None:
                        evaluable = False
                        det.append("bb%d: %s" % (bi, show(v, f.names)[:80]))
                    else:
                        some = b.OR(some, b.AND(pa.pc_at(bi, si), fm))
        t = blk["term"]
        if t["k"] == "call" and t["dest"]["l"] == 0 and not t["dest"]["proj"]:
            n += 1
            v = strip_old(fa._val_call(t, (bi, len(blk["stmts"])), 0))
            fm = _is_some_formula(pa, v)
            if fm is None:
                evaluable = False
                det.append("bb%d: %s" % (bi, show(v, f.names)[:80]))
            else:
                some = b.OR(some, b.AND(pa.pc_at(bi, len(blk["stmts"])), fm))
    ctx.chk.floor("D3", "stores to the return place of %s" % sname(st), n, 3)
    if not evaluable:
        ctx.chk.missing("D3", "%s: a return value whose Some-ness is not a formula" % sname(st), "; ".join(det))
        return
    want = b.AND(b.NOT(E), b.OR(b.NOT(P), I))
    some = _awaits_complete(b, some)
    ok = pa.equivalent(some, want)
    ctx.chk.ob("D3", "%s answers exactly when the line is not empty and (it could not be parsed or the request has an id): a notification gets no response, a request gets one" % sname(st),
               ok, "Some under %s" % pa.show(some, 3)[:300], key="D3:response-iff-id:%s" % st)
    # a notification is still applied: every way to the return that avoids all method handlers is an empty line, a parse failure or a wrong version
    handlers = [bb for (bb, t) in f.calls() if t["f"].get("stable") in (HM, C + "handle_subscribe", C + "handle_unsubscribe")]
    hub_len = [bb for (bb, t) in f.calls() if t["f"].get("stable", "").endswith("SubscriptionHub::len")]
    ver = pa.find(lambda a: is_call(a, name_contains="PartialEq") and any(x[0] == "const" and x[1] == "2.0" for x in walk(a)) and any(is_field(x, "jsonrpc") for x in walk(a)))
    if not handlers or not ver:
        ctx.chk.missing("D3", "%s: handler calls / the version test" % sname(st), "%d handlers, %d version atoms" % (len(handlers), len(ver)))
        return
    pa2 = PathA(ctx.w, f, avoid=set(handlers) | set(hub_len))
    skip = pa2.bdd.FALSE
    for r in ctx.cfg(f).returns:
        if r in pa2.pc_in:
            skip = pa2.bdd.OR(skip, pa2.pc_block(r))
    skip = _awaits_complete(pa2.bdd, skip)
    e2 = pa2.find(lambda a: is_call(a, name_contains="str>::is_empty"))
    p2 = ok_of(pa2, lambda x: is_call(x, name_contains="from_str"))
    v2 = pa2.find(lambda a: is_call(a, name_contains="PartialEq") and any(x[0] == "const" and x[1] == "2.0" for x in walk(a)) and any(is_field(x, "jsonrpc") for x in walk(a)))
    okm = bool(e2 and p2 and v2)
    if okm:
        # the version atom is `ne(jsonrpc, "2.0")` or `eq(..)`: take "wrong version" as the side on which Response::err(-32600) is built - here: not (the side that reaches a handler)
        reach = PathA(ctx.w, f)
        okm = False
        for wrong in (v2[0][1], pa2.bdd.NOT(v2[0][1])):
            if pa2.entails(skip, pa2.bdd.OR(pa2.bdd.OR(e2[0][1], pa2.bdd.NOT(p2[0][1])), wrong)) and not pa2.entails(skip, pa2.bdd.OR(e2[0][1], pa2.bdd.NOT(p2[0][1]))):
                okm = True
    ctx.chk.ob("D3", "%s: a request that is parsed and has the right version always reaches a method handler, id or not (a notification is still applied)" % sname(st),
               okm, "handler-free paths: %s" % pa2.show(skip, 3)[:300], key="D3:method-applied-regardless-of-id:%s" % st)


def _awaits_complete(b, fm):
    """Restrict a formula to the case in which every awaited future completes (`poll(..) is Ready`): whether a pending
    handler ever completes is not this clause's subject."""
    for vi in sorted(b.support(fm)):
        a = b.vars[vi]
        if isinstance(a, tuple) and a and a[0] == "is" and a[2] in ("Ready", "Pending"):
            fm = b.restrict(fm, vi, a[2] == "Ready")
    return fm


def _is_some_formula(pa, v):
    """Formula for `v is Some` for an Option value: literal variants, Option::map / and_then-free forms over a subject."""
    b = pa.bdd
    v = strip_old(v)
    if v[0] == "agg" and isinstance(v[2], str):
        if v[2].endswith("::Some"):
            return b.TRUE
        if v[2].endswith("::None"):
            return b.FALSE
    if is_call(v, name_contains="Option::<T>::map") and not is_call(v, name_contains="map_or"):
        inner = _is_some_formula(pa, v[2][0])
        if inner is not None:
            return inner
        return b.NOT(pa.is_atom(("is", strip_old(v[2][0]), "None")))
    if v[0] in ("field", "param", "local", "var", "deref", "call"):
        if v[0] == "call" and not (v[1].endswith("clone") or v[1].endswith("take")):
            return None
        if v[0] == "call":
            return _is_some_formula(pa, v[2][0])
        return b.NOT(pa.is_atom(("is", v, "None")))
    return None


def d3_one_response_iff_id(ctx):
    for st_ in (INNER, ASYNC):
        f_ = ctx.fn(st_, "D3")
        if f_:
            _response_iff_id(ctx, f_)
    f = ctx.fn(INNER, "D3")
    if not f:
        return
    # Response constructors
    for nm, res, err in (("ok", "Some", "None"), ("err", "None", "Some")):
        g = ctx.fn(RESP + "::" + nm, "D3")
        if not g:
            continue
        ga = ctx.fa(g)
        lit = None
        for bi, blk in enumerate(g.blocks):
            for si, s in enumerate(blk["stmts"]):
                if s["k"] == "assign" and s["rv"]["k"] == "agg" and s["rv"].get("adt") == RESP:
                    lit = ga.val_rvalue(s["rv"], (bi, si))
        okc = False
        if lit is not None:
            d = dict(zip(lit[4], lit[3]))
            ver = strip_old(d.get("jsonrpc", ("unknown",)))
            okc = (ver == ("const", "2.0", "&str") or (ver[0] in ("const", "constdef") and "2.0" in str(ver[1]) + str(ver))) and \
                d["result"][0] == "agg" and d["result"][2].endswith("::" + res) and d["error"][0] == "agg" and d["error"][2].endswith("::" + err) and d["id"] == ("param", 1)
        ctx.chk.ob("D3", "Response::%s: jsonrpc \"2.0\", %s, id as given" % (nm, "result only" if nm == "ok" else "error only"), okc,
                   show(lit, g.names)[:200] if lit else "", key="D3:constructor:%s" % nm)
    # every Response in the dispatchers is built by those constructors, with an id derived from the request (Null only on parse failure)
    for st in (INNER, ASYNC):
        e = ctx.fn(st, "D3")
        if not e:
            continue
        ea = ctx.fa(e)
        lits = [1 for blk in e.blocks for s in blk["stmts"] if s["k"] == "assign" and s["rv"]["k"] == "agg" and s["rv"].get("adt") == RESP]
        ctx.chk.ob("D3", "%s builds responses through Response::ok / Response::err only" % sname(st), not lits, "", key="D3:no-literal-response:%s" % st)
        epa = ctx.pa(e)
        arms = result_arms(e, ea, lambda x: strip_old(x)[0] == "call" and "from_str" in strip_old(x)[1])
        err_blocks = [a["Err"] for (sb, a) in arms if "Err" in a]
        ecfg = ctx.cfg(e)
        for (bb, t) in calls_to(e, stable=RESP + "::ok") + calls_to(e, stable=RESP + "::err"):
            idv = ea.val_operand(t["args"][0], (bb, len(e.blocks[bb]["stmts"])))
            from_req = any(is_field(x, "id") for x in walk(idv))
            is_null = any(x[0] == "agg" and x[2].endswith("Value::Null") for x in walk(idv)) and not from_req
            ok = from_req or (is_null and any(ecfg.dominates(eb, bb) for eb in err_blocks))
            ctx.chk.ob("D3", "%s: response id echoes the request id (null only when the line could not be parsed)" % sname(st), ok,
                       "id = %s" % show(idv, e.names)[:120], key="D3:id-echo:%s" % st, loc=t.get("loc"))


def d4_clamp_and_echo(ctx):
    ctx.CONST("D4", "srtla_core::config_snapshot::CONN_TIMEOUT_MS_MIN", 1000)
    ctx.CONST("D4", "srtla_core::config_snapshot::CONN_TIMEOUT_MS_MAX", 60000)
    # every value handed to the conn_timeout atomic
    n = 0
    for st in (DC + "::new", DC + "::from_cli", DC + "::set_conn_timeout_ms"):
        f = ctx.fn(st, "D4")
        if not f:
            continue
        ai = AbsInt(ctx.w)
        ai.run(f, Entry())
        fa = ctx.fa(f)
        # atomic constructions / stores whose value flows into field conn_timeout_ms
        for ev in ai.calls:
            if ev.fn is not f:
                continue
            if ev.path.endswith("Atomic::<u64>::new") or ev.path.endswith("AtomicU64::new") or ev.path.endswith("Atomic::<u64>::store") or ev.path.endswith("AtomicU64::store"):
                t = f.blocks[ev.bb]["term"]
                nst = len(f.blocks[ev.bb]["stmts"])
                is_store = ev.path.endswith("::store")
                tgt = fa.val_operand(t["args"][0], (ev.bb, nst)) if is_store else None
                if is_store and not any(is_field(x, "conn_timeout_ms", DC) for x in walk(tgt)):
                    continue
                if not is_store:
                    # which field of the literal does this atomic initialise?
                    dest = t["dest"]["l"]
                    fld = _field_of_atomic(f, fa, ev.bb, dest)
                    if fld != "conn_timeout_ms":
                        continue
                v = ev.args[1 if is_store else 0]
                n += 1
                ok = isinstance(v, Num) and v.lo >= 1000 and v.hi <= 60000
                ctx.chk.ob("D4", "%s: the stored connection timeout is within [1000, 60000]" % sname(st), ok, "value %r" % (v,), key="D4:timeout-range:%s" % st, loc=ev.loc)
    ctx.chk.floor("D4", "values reaching the conn_timeout atomic", n, 3)
    ctx.WHO_WRITES("D4", DC, "conn_timeout_ms", set(), floor=0, allow_agg_in={DC + "::new", DC + "::from_cli", "<" + DC + " as core::clone::Clone>::clone"})
    s = ctx.fn(DC + "::set_conn_timeout_ms", "D4")
    if s:
        fa = ctx.fa(s)
        rets = [fa.val_local(0, (r, len(s.blocks[r]["stmts"]))) for r in ctx.cfg(s).returns]
        st = [(bb, t) for (bb, t) in s.calls() if t["f"].get("path", "").endswith("::store")]
        ok = len(rets) == 1 and len(st) == 1 and fa.val_operand(st[0][1]["args"][1], (st[0][0], len(s.blocks[st[0][0]]["stmts"]))) == rets[0] and is_call(rets[0], name_contains="::clamp")
        ctx.chk.ob("D4", "the setter returns exactly the value it stored", ok, "returns %s" % [show(v, s.names) for v in rets], key="D4:setter-echo")
    hm = ctx.fn(HM, "D4")
    if hm:
        fa = ctx.fa(hm)
        sites = calls_to(hm, stable=DC + "::set_conn_timeout_ms")
        ok = len(sites) == 1
        if ok:
            # the json "ms" value is built from the setter's return value
            dest = sites[0][1]["dest"]["l"]
            used = False
            for (bb, t) in hm.calls():
                for a in t["args"]:
                    v = fa.val_operand(a, (bb, len(hm.blocks[bb]["stmts"])))
                    if any(is_call(x, stable=DC + "::set_conn_timeout_ms") for x in walk(v)) and ("serde" in t["f"].get("path", "") or "Serialize" in t["f"].get("path", "") or "to_value" in t["f"].get("path", "") or "From" in t["f"].get("path", "") or "from" in t["f"].get("path", "")):
                        used = True
            arg = fa.val_operand(sites[0][1]["args"][1], (sites[0][0], len(hm.blocks[sites[0][0]]["stmts"])))
            ok = used and any((x[0] == "fn" and "as_u64" in x[1]) or is_call(x, name_contains="as_u64") for x in walk(arg))
        ctx.chk.ob("D4", "set_conn_timeout echoes the applied (clamped) value, not the requested one", ok, "", key="D4:handler-echo")
    ctx.WHO_CALLS("D4", DC + "::set_conn_timeout_ms", {HM}, floor=1)


def _field_of_atomic(f, fa, bb, dest):
    """The DynamicConfig field a freshly built atomic ends up in (through Arc::new and the struct literal)."""
    for bi, blk in enumerate(f.blocks):
        for si, s in enumerate(blk["stmts"]):
            if s["k"] == "assign" and s["rv"]["k"] == "agg" and s["rv"].get("adt") == DC:
                v = fa.val_rvalue(s["rv"], (bi, si))
                for name, val in zip(v[4], v[3]):
                    for x in walk(val):
                        if x[0] == "call" and x[3] == (bb,):
                            return name
    return None


FIELDS = [("mode", "set_mode"), ("quality_enabled", "set_quality_enabled"), ("stall_deselect", "set_stall_deselect"), ("conn_timeout_ms", "set_conn_timeout_ms")]
STATUS_KEYS = ["mode", "quality_enabled", "stall_deselect", "stall_min_in_flight", "stall_ack_stale_ms", "conn_timeout_ms"]


def d5_takes_effect(ctx):
    sn = ctx.fn(DC + "::snapshot", "D5")
    if sn:
        fa = ctx.fa(sn)
        lit = None
        for bi, blk in enumerate(sn.blocks):
            for si, s in enumerate(blk["stmts"]):
                if s["k"] == "assign" and s["rv"]["k"] == "agg" and s["rv"].get("adt") == SNAP:
                    lit = fa.val_rvalue(s["rv"], (bi, si))
        ok = lit is not None
        if ok:
            for name, val in zip(lit[4], lit[3]):
                loads = [x for x in walk(val) if x[0] == "call" and x[1].endswith("::load")]
                good = len(loads) == 1 and any(is_field(y, name, DC) for y in walk(loads[0]))
                ctx.chk.ob("D5", "snapshot().%s is loaded from the atomic of the same name" % name, good, show(val, sn.names)[:120], key="D5:snapshot-field:%s" % name)
        ctx.chk.ob("D5", "snapshot() builds a ConfigSnapshot", ok, "", key="D5:snapshot-literal")
    for fld, setter in FIELDS:
        g = ctx.fn(DC + "::" + setter, "D5")
        if not g:
            continue
        fa = ctx.fa(g)
        st = [(bb, t) for (bb, t) in g.calls() if t["f"].get("path", "").endswith("::store")]
        ok = len(st) == 1 and any(is_field(x, fld, DC) for x in walk(fa.val_operand(st[0][1]["args"][0], (st[0][0], len(g.blocks[st[0][0]]["stmts"])))))
        if ok:
            v = fa.val_operand(st[0][1]["args"][1], (st[0][0], len(g.blocks[st[0][0]]["stmts"])))
            ok = any(x == ("param", 2) for x in walk(v))
        ctx.chk.ob("D5", "%s stores its argument into the %s atomic" % (setter, fld), ok, "", key="D5:setter-field:%s" % setter)
    hm = ctx.fn(HM, "D5")
    if hm:
        pa = ctx.pa(hm)
        # each set_* method calls the matching setter under its own method name
        for meth, setter in (("set_mode", "set_mode"), ("set_quality", "set_quality_enabled"), ("set_stall_deselect", "set_stall_deselect"), ("set_conn_timeout", "set_conn_timeout_ms")):
            sites = calls_to(hm, stable=DC + "::" + setter)
            at = None
            for a in pa.bdd.vars:
                if is_call(a, name_contains="PartialEq") and a[2] and a[2][0] == ("param", 4) and any(x[0] == "const" and x[1] == meth for x in walk(a)):
                    at = pa.atom(a)
            ok = len(sites) == 1 and at is not None and pa.entails(pa.pc_block(sites[0][0]), at)
            ctx.chk.ob("D5", "method %s applies %s" % (meth, setter), ok, "", key="D5:method-setter:%s" % meth)
        # get_status emits every snapshot field
        strs = set()
        for blk in hm.blocks:
            for s in blk["stmts"]:
                _collect_strs(s, strs)
            _collect_strs(blk["term"], strs)
        missing = [k for k in STATUS_KEYS if k not in strs]
        reads = set(k[1] for k in ctx.eff.own_r.get(hm.id, set()) if k[0] == SNAP)
        ok = not missing and all(k in reads for k in STATUS_KEYS)
        ctx.chk.ob("D5", "get_status reports every configuration field from one snapshot", ok, "missing keys %s ; snapshot fields read %s" % (missing, sorted(reads)), key="D5:status-fields")


def _collect_strs(node, out):
    if isinstance(node, dict):
        if node.get("k") == "const" and isinstance(node.get("str"), str):
            out.add(node["str"])
        for v in node.values():
            _collect_strs(v, out)
    elif isinstance(node, list):
        for v in node:
            _collect_strs(v, out)


def d6_entry_points_agree(ctx):
    a = ctx.fn(INNER, "D6")
    b = ctx.fn(ASYNC, "D6")
    if not a or not b:
        return

    # handle_method receives the same arguments; in the async path it is the fallback arm of the subscription match
    for f in (a, b):
        fa = ctx.fa(f)
        sites = calls_to(f, stable=HM)
        ok = len(sites) == 1
        if ok:
            bb, t = sites[0]
            args = [fa.val_operand(x, (bb, len(f.blocks[bb]["stmts"]))) for x in t["args"]]
            ok = any(is_field(x, "method") for x in walk(args[3])) and any(is_field(x, "params") for x in walk(args[4]))
        ctx.chk.ob("D6", "%s hands req.method / req.params to handle_method" % sname(f.stable), ok, "", key="D6:handle-method-args:%s" % f.stable)
    # in the socket path, handle_method is skipped only for the three subscription methods with a subscription context
    pa = ctx.pa(b)
    sites = calls_to(b, stable=HM)
    if sites:
        subs = calls_to(b, stable=C + "handle_subscribe") + calls_to(b, stable=C + "handle_unsubscribe")
        names = set()
        for v in pa.bdd.vars:
            if is_call(v, name_contains="PartialEq"):
                for x in walk(v):
                    if x[0] == "const" and isinstance(x[1], str) and x[1] != "2.0":
                        names.add(x[1])
        ctx.chk.ob("D6", "the socket path special-cases only subscribe / unsubscribe / get_subscription_count", names == {"subscribe", "unsubscribe", "get_subscription_count"},
                   "%s" % sorted(names), key="D6:special-cased-methods")
    ctx.WHO_CALLS("D6", HM, {INNER, ASYNC}, floor=2)
    ctx.WHO_CALLS("D6", INNER, {C + "dispatch"}, floor=1)


RULES = [d1_total, d3a_envelope_accepts_any_params, d2_error_codes, d3_one_response_iff_id, d4_clamp_and_echo, d5_takes_effect, d6_entry_points_agree, d6b_socket_dispatches_the_line_just_read]


def run(ctx):
    ctx.chk.not_decided = ["JSON well-formedness of serde's output and totality of serde_json::from_str (trusted dependency)",
                           "linearizability of concurrent setters beyond 'each field is one atomic'"]
    ctx.run_rules(RULES)
