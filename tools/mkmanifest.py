#!/usr/bin/env python3
"""Regenerate /verif/MANIFEST.json from the table below (one entry per claimed property)."""
import json
import os

HERE = os.path.dirname(os.path.dirname(os.path.abspath(__file__)))

BASELINE = ("cd /repo && cargo nextest run --workspace --no-fail-fast --tool-config-file pb:/w/lib/nextest.toml "
            "--profile pb --test-threads 8 --offline || (cd /repo && cargo test --workspace --no-fail-fast --offline)")

TRUSTED = ("Trusted base: rustc nightly's MIR construction and Instance resolution, the mirfacts serialiser, the "
           "analyser's transfer functions / std summaries; non-workspace crates are assumed total and to write "
           "workspace state only through what they are handed. Only cfg(unix) x86-64 Linux builds are analysed.")

# id -> (category, technique, text, design_ref, note)
CLAIMS = {}


def claim(pid, category, technique, text, ref, note=""):
    CLAIMS[pid] = (category, technique, text, ref, note)


claim("C12", "proof",
      "interprocedural effect analysis (transitive field write/read sets over resolved MIR call graph) + path-condition entailment on the guard-off branch",
      "Non-interference and guard-off == baseline are decided for every history at once: the transitive write set "
      "of select_connection_idx over all 48 reachable bodies contains only guard-private routing fields (plus the "
      "timeout copy and the quality cache), no whole-connection overwrite and only element-access foreign APIs; the "
      "!stall_deselect branch provably stores false/0 to flag, pull and both latch stamps for every element and "
      "reaches no update call; the selectors read only `stall_gated` of guard state and run after the gate.",
      "DESIGN.md 5 C12", "")

claim("C03", "other",
      "predicate extraction (BDD path conditions of the selector loops, return formulas of the two `any` closures, stored gate value) + propositional entailment chain",
      "The no-blackout argument is decided as implications between predicates extracted from the code, for all link-state "
      "combinations the predicates admit: gated => any_healthy; HEALTHY => not gated, admitted by both selectors and connected; "
      "cap skip only under any_unconstrained; UNCONSTR => admitted and connected; gate multiplier and phase weights positive; "
      "initial best scores -1 / strict compare; get_score -1 only when disconnected; hysteresis only returns a link scored in this pass. "
      "Found defect F4 (HEALTHY/UNCONSTR lacked `connected`), repaired in /repo.",
      "DESIGN.md 5 C03", "Atoms are independent propositions (passes are sound); reachability of state combinations is not decided.")
claim("C04", "other",
      "reaching-definition analysis of the routing index at the forward site + admission-predicate entailment (BDD) per source + who-may-call",
      "Every source of the index handle_srt_packet routes on is enumerated from the MIR (scheduler result, best-path override) and must "
      "carry ELIG = !timed_out & schedulable & !stall_gated, inside its producer or as a use-site guard; both selectors' scoring predicates "
      "entail ELIG and only scored links' indices are stored/returned; pre-registration forwarding is confined to !has_connected, which is "
      "monotone; the data queue is fed only by the forwarder and the gated probe; connected => last_received.is_some() is kept by every writer (so that is_timed_out can exclude a dead connected link). Found defect F1 (override ignored eligibility), repaired.",
      "DESIGN.md 5 C04", "")
claim("C06", "proof",
      "interval + symbolic abstract interpretation of every writer of `window` (discovered by who-may-write incl. &mut flows), path-sensitive snapshots for the fast-recovery thresholds",
      "Inductive invariant: from window in [1000,60000] every one of the 9 writer bodies exits in [1000,60000] (constructor/reset exactly 20000), "
      "every stored value is symbolically <= the entry value in the NAK writer and >= it in the ACK/recovery writers, fast recovery is entered "
      "only with window <= 2000 and left only with window >= 12000 or in reset, time-based recovery is guarded by !classic, and the writer set "
      "is closed over the whole workspace (pub field).",
      "DESIGN.md 5 C06", "in-flight counts and clocks range over their full types; overflow asserts of the dev profile are discharged from the entry range.")
claim("C10", "other",
      "transitive read-set of the classic selector, value reconstruction of the score and window formulas (symbolic equivalence), mode-dispatch path conditions",
      "The reference algorithm is decided clause by clause: the classic selector reads only capacity/eligibility inputs and no clock/RNG; "
      "score = window / max(1, sat(in_flight+queued)+1) in i32 division, strict > in an ascending scan from -1; window rules min(w+29,60000) under "
      "in_flight*1000 > w, min(w+1,60000) exactly when connected & received, max(w-100,1000); classic writer chosen iff mode is classic; "
      "connected => last_received.is_some() kept by every writer; no time recovery and no route override in classic. Found the classic half of F1, repaired.",
      "DESIGN.md 5 C10", "lock-step equality with an executable reference over histories is not decided.")

claim("C01", "other",
      "value-chain reconstruction of the payload slice, CFG never-both / not-in-cycle / skip-condition path formulas, who-may-mutate tables for the parallel queue vectors, sibling comparison of the Err arms of all batch-send callers",
      "Decided for every path: the slice handed to each forward/probe site is &recv_buf[..n] and is passed through &[u8] parameters unchanged into a whole-slice copy; "
      "the two forward sites exclude each other, neither is in a loop, the forwarder queues once unless the index is out of range; after registration a datagram is "
      "not forwarded only on read error / empty read / empty scheduler answer; queue, sequences and queue_times are only ever pushed, fully drained (zipped in order) or "
      "cleared together; only the two link resets discard queued data; every drained datagram's bytes are offered to the socket and success needs sent >= total; "
      "flush thresholds {4,16,32}, threshold flush guard and converse, timer arm and its skip condition, 15 ms constants; probes only on gated connected other links, "
      "1 in 100 (inductive counter range); every caller of send_connection_batch resets the link on Err. Found defect F3 (timer flush ignored send errors), repaired.",
      "DESIGN.md 5 C01", "Real-time bounds (15 ms, tokio timers) and kernel/NIC behaviour are not decided.")
claim("C02", "other",
      "must-pass-through (resync after every log mutation, with the failed-remove idiom proved by path conditions), guard entailment under `found`, exact early-return formula, closure return formulas, guard-or-repair rule for inserts vs the highwater mark, loop/attribution path conditions in the shell",
      "The representation invariant in_flight == |packet_log| is kept by all 7 mutation sites of the 6 writers (closed writer sets); NAK / SRTLA-ACK effects are all under `found`; "
      "the cumulative ACK has no effect iff ack <= highwater, keeps seq > ack on the slow path, removes highwater+1..=ack on the fast path, and is applied to every link; "
      "every insert is guarded by or repairs `seq > highwater`; arrival link first, then first other holder, then stop; global +1 on every link; registration at flush with the "
      "routed sequence number, which stays paired with its datagram (the batch queue's three parallel vectors are pushed, fully drained and cleared together); both resets empty the log, zero the counter and rewind the mark on every path and both teardown entry points always reach the core reset. Found defect F2 (late-registered sequence leaked by the fast path), repaired.",
      "DESIGN.md 5 C02", "Equality with a set model over histories, 31-bit wrap and |log| < 2^31 are not decided.")
claim("C05", "proof",
      "CFG shape rules (never-both, back-edge-only-if), who-may-call, guard entailment, symbolic abstract interpretation of the charge, exact formula equivalence of the tracker predicates",
      "At most one charge per NAK: the tracker-hit site cannot reach the scan, the scan continues only after a charge that returned false, handle_nak has no other caller and "
      "attribute_nak runs once per NAK number; the congestion charge and every store are under a successful removal from the link's own log; the charge is exactly "
      "saturating +1 loss, max(window-100,1000), one slot; tracker validity == conn_id != 0 & same seq & age <= 5000, slot = seq & (16384-1), insert overwrites all three fields; "
      "only the forwarder records ownership, with (seq, connections[sel_idx].conn_id, packet time); a vanished link falls back to the holder scan.",
      "DESIGN.md 5 C05", "")

claim("C08", "other",
      "who-may-call + dominance of the taken guard branches, transitive read-set and exact return formula of the liveness predicate, interval analysis of the back-off, must-dominate rules for the REG3 arm and for the configuration refresh before each housekeeping pass",
      "Teardown sites are closed (5 + 2) and each is under a failed send, or under is_timed_out & should_attempt_reconnect on that link; is_timed_out reads only "
      "{connected, last_received, conn_timeout_ms, reconnection.*} and for a connected link equals now - last_received >= conn_timeout_ms; back-off in [5000,120000], "
      "1 s initial cadence after the grace deadline, back-off cadence afterwards, every attempt stamped before the teardown; REG3 clears pre-registration state before "
      "connected := true (zero in-flight, cleared log, Warming), resets restore window 20000; the per-link timeout copy is refreshed from the configuration in a full loop "
      "that dominates every housekeeping pass inside the event loop; every datagram that is not a handshake reply refreshes last_received on every path of the receive handler; the retry stamp is only ever set to a current time by the attempt recorder and the full reset; the retry test sits in a whole-slice loop without early exit that every housekeeping pass reaches. Found defect F7 (stale 5 s copy), repaired.",
      "DESIGN.md 5 C08", "Timed liveness ('within 30 s', 'retries forever', survivors' throughput) is not decided.")
claim("C16", "other",
      "interval + symbolic (float) abstract interpretation of tick() against the symbols prev / obs with interval-coefficient products, path-condition guards for the bootstrap branch and the loss latch, sentinel-exclusivity rule for the seed guard",
      "Every target store lies in [100k, 200M]; only the no-RTT branch forces the floor and it returns; per arm: Bootstrap/Holding = prev, Climbing in [prev, prev+6%] and <= max(prev, 2*obs), "
      "BackingOff in [max(85% prev, min(obs, prev)), prev], Drain = 75% prev only under prev_state != Drain, final clamp; latch set only with ewma > 0.55 sustained >= 4000 ms and cleared only "
      "below 0.25, sustain clock reset whenever ewma <= 0.55; the loss average is stamped on every update path, snapped to the sample only by the first update and otherwise moved by (sample - average) * (1 - exp(-dt/tau)); tick_all reaches the per-link garbage collection on every pass and keeps exactly the ids it ticked; the seed guard is falsified by every post-seed store. Found defect F5 (re-seed from the floor), repaired.",
      "DESIGN.md 5 C16", "EWMA numerics and strict positivity of the RTT average are not decided; float comparisons are treated as monotone real arithmetic.")

claim("C09", "other",
      "skip-condition path formulas over the packet-type atoms (with == exclusion theory), value reconstruction of the queued copy, CFG must-reach for delivery, who-may-write for the proof stamp, panic reachability discharged by interval/length abstract interpretation",
      "Exact dispatch: a datagram is not queued for the client only if it is < 2 bytes, a registration reply (exactly REG_NGP/REG2/REG3/REG_ERR), an SRTLA ACK or a keepalive, and none of those is ever queued; "
      "what is queued (and what the ACK fast path sends) is a copy of the whole reader slice; a processed datagram always reaches process_connection_events, whose loop sends every queued element once a "
      "client address is known; every non-registration datagram stamps last_received; delivery proof is stamped only by an earned SRTLA ACK / an answered keepalive and cleared only by the link reset; "
      "all 46 may-panic sites (bounds, slice ranges, copy lengths, unwraps) in the 90 bodies reachable from handle_uplink_packet / drain_packet_queue are discharged.",
      "DESIGN.md 5 C09", "OS delivery of send_to is not decided; overflow asserts (dev profile only) are a thorough-tier obligation.")
claim("C13", "other",
      "guard entailment (BDD path conditions) for engage / release / dwell / pull stores, skip-path formula for dwell continuity, must-dominate + full-slice loop for 'driven on every pass', information-flow (read set of the release predicate vs write sets of broadcast handlers)",
      "The latch engages only under is_stalled | (pulled & proof fully stale) from the un-latched state, and is_stalled == connected & backlog >= min & proof != 0 & stale; the effective window formula and its "
      "ceiling; release only with proof fresh, latched, not stalled and >= 2 x window since the dwell began; every decision with non-fresh proof or a re-engage restarts the dwell; pull then latch are driven for "
      "every link on every guard-on pass; the pull is set only under is_briefly_silent and released only under spoke | !connected. D7 reports the reproduced defect F6 (release predicate reads RTT state that "
      "cross-link ACK handlers write) as a KNOWN-FINDING. Never blind: the C03 gate chain (gated only while a carrier test has a witness; every witness of every carrier test is itself un-gated and admitted by both selectors) is decided under C13 as well.",
      "DESIGN.md 5 C13", "The timed-trace consequences follow by induction from the single-step guards (stated, not derived).")

claim("C07", "other",
      "who-may-write / who-may-call closure of the handshake state, BDD path conditions at every REG1 / id-adoption / abandon site (entailment and exact equivalence), value provenance of builder arguments and of the socket each frame leaves on, per-iteration path formula of the broadcast loop",
      "The single-step guards of the handshake are decided for every manager state and packet: every REG1 build records Some(idx) and a deadline now+4000 on all paths and is built only with the slot free "
      "(driver, immediate) or on the slot's own uplink (re-send); the driver additionally needs active_connections == 0 (recounted from `connected` right before), a chosen target and the throttle; "
      "the id is written only by handle_reg2, under len >= 258 and pending == Some(arrival uplink), from bytes [2,258), freeing the slot and arming one broadcast that the driver emits once and disarms; "
      "every REG1 / registration REG2 builder call takes self.srtla_id; connected := true only in the REG3 arm (type exactly 0x9202) on the link whose conn_id tagged the datagram; REG_ERR frees the slot on "
      "every path; the abandon condition is exactly pending & deadline != 0 & now >= deadline and runs first in housekeeping; each frame leaves on the socket of the uplink the manager named and the broadcast "
      "loop visits the whole slice without early exit; a REG_NGP that arrives during the start-up probe wait never selects a REG1 target (the probing phase may then clear the shared deadline field).",
      "DESIGN.md 5 C07", "Reachable-state exploration under adversarial packet order (the property's bounded-history quantifier) is not performed; the clauses are the inductive step guards. Liveness ('so a new attempt can start') is not decided.")
claim("C15", "proof",
      "panic reachability over the resolved call graph discharged by interval / length / relational abstract interpretation (bounds, slice ranges, copy lengths, arithmetic overflow), loop-guard path conditions for the NAK bound, layout tables extracted from builders and parsers by value reconstruction and compared field by field",
      "Total: every may-panic site (index, slice range, copy_from_slice length, overflow, unwrap) in all decoders, classifier helpers and sender-side builders is discharged for every byte string; "
      "bounded: range pushes are guarded by len < 1000 and single pushes occur at most once per 4 payload bytes; exact layouts: constants (258/2/10/38, type codes), builder tables, parser offsets "
      "(SRT ACK 16..20, NAK top bit, data top bit clear, retransmit bit 2 of byte 4, SRTLA ACK 4-byte header + BE u32s); round trip: builder and parser tables agree on offset, width and endianness of every field.",
      "DESIGN.md 5 C15", "Round trip is decided as table agreement (offset/width/endianness per field), which is necessary and, for these fixed-layout codecs, sufficient up to the correctness of to_be_bytes/from_be_bytes.")
claim("C18", "other",
      "panic reachability + abstract interpretation for totality, construction-site tables of error codes and responses with their path conditions, interval analysis of every value reaching the timeout atomic, field-identity chain setter -> atomic -> snapshot -> status key, per-dispatcher return-value formulas (BDD equivalence) and must-pass-through of the method handlers",
      "All may-panic sites reachable from dispatch / dispatch_async / Response::to_json / SharedStats are discharged (serde_json of the listed infallible value types is the one accepted unwrap); "
      "each error code is built at its enumerated sites under its condition (-32700 only where the line failed to parse, -32600 only for a wrong version), decided per dispatcher from path formulas; each dispatcher returns Some exactly when the line is not empty and (it could not be parsed or the request has an id), and every parsed right-version request reaches a method handler, id or not; every Response has version 2.0, "
      "exactly one of result/error and the request's id; every store to the timeout atomic lies in [1000,60000] and the handler echoes the stored value; each setter's atomic is the one snapshot() and get_status read; "
      "the two entry points call handle_method identically for non-subscription methods; the socket handler dispatches the line it just read.",
      "DESIGN.md 5 C18", "serde_json's parser/serialiser are trusted (external crate); JSON text equality of the two entry points is decided as same construction sites, not as string equality.")

claim("C17", "other",
      "decision-table extraction: the (weak, reason) verdict and the three history values written per link are expanded from their multi-definition locals into guarded alternatives over the body's comparisons (BDD), then the property's clauses are checked as entailments for every combination; loop-shape, who-may-write and value-provenance rules for the plumbing",
      "One classify() pass is decided for every combination of its comparisons: links that are disconnected or below the floor get a literal weak=false and the computed verdict is reached only under connected & total >= 100000 & n > 0, "
      "with total the sum of max(bitrate,0) over exactly the connected links; a delay verdict implies signal now & sat(streak+1) >= 2 and the stored streak is sat(prev+1) under a signal, else 0; under probation > 0 the verdict is "
      "(false, Healthy) and probation' = probation-1; every share-weak verdict is counted until sat(streak+1) >= 15, which always arms probation' = 3 and restarts the count, as does any other verdict; LowShare needs "
      "share < 250/n (entering) or < 750/n (staying) and a previously weak link is released only at >= 750/n; the four maps get an entry per connected link under its conn_id and replace the filter's maps on exit; "
      "the remembered flag is the reported one; conn.weak is stamped from the same-id entry in the housekeeping arm only.",
      "DESIGN.md 5 C17", "The multi-tick statements follow by induction over ticks from these single-step tables (invariants weak_streak <= 14, probation <= 3); the induction is stated in DESIGN.md, not mechanised. Float rounding of the share is not decided.")

claim("C19", "other",
      "loop-shape and per-iteration path formulas for the parser, decision table of its return value, reaching-definition / who-may-call rules for the queued list, transitive write sets of the apply step, container-mutator census over every &mut hand-off to foreign code, closure-predicate comparison (filter == !retain), cross-site comparison of the label templates",
      "Decided on every path: the applied list is appended to at one site inside a plain text.lines() loop without early exit, exactly when the trimmed line parses, and nothing else touches it; Refuse iff it is empty, an unreadable file is refused; "
      "only the Apply arm queues a list and apply_connection_changes is called only with the queued list; applying writes no field of SrtlaConnection / sub-structures / ConnIo and the list and the I/O map are structurally changed only by retain, append, push, remove, insert "
      "in the two reload bodies; the pruning is unconditional, the removed ids are the conn_ids of the whole pre-prune list failing the retain predicate, each reaches both the tracker purge and the I/O-map removal, the routing choice is cleared whenever the list got shorter, "
      "and the tracker purge resets every slot of the id; candidates are the new list de-duplicated minus the pre-reload labels, every candidate is attempted once whenever there is one, link and I/O handle are stored together under the link's conn_id, and the three label templates are byte-identical.",
      "DESIGN.md 5 C19", "Contracts of SmallVec::retain / HashSet / HashMap are trusted; OS-level socket identity and packets in flight on removed links are not decided.")

claim("C11", "other",
      "per-iteration path formulas of the scoring loop (exact equivalence for the current-score and best-candidate updates), post-loop path formula of the hysteresis exit, decision tables for gate factor and score formula, closure return formula of the unconstrained predicate, reachability (no clock / RNG), interval abstract interpretation with NaN tracking for the factor ranges",
      "Decided for every link state and every previous index: the selector returns Some(last) exactly under last given & best != last & current score recorded & best_score < current*1.10, and best_idx otherwise; the current score is recorded exactly for the previous "
      "link when it passed every skip (timed out, unschedulable, stall-gated, over its cap while an unconstrained link exists), and is the competing score; a link becomes best only if it passed every skip and strictly beats the best so far; the unconstrained predicate is the "
      "documented 7-way conjunction over the whole slice; gate factor 0.02 iff unconstrained-exists & (weak | loss_degraded) else 1.0; warming weight 0.8; score = get_score*phase*[quality iff flag]*softcap*gate; the flag is effective_quality_enabled(); no clock or RNG is reachable; "
      "the quality cache stamps the caller's time; quality multiplier in [0.35, 1.133], RTT bonus in [1, 1.03], soft cap in [0.1, 1], none NaN for any field values (NaN RTT / bitrate included), cached value inductively in range, in-flight cap >= 1.",
      "DESIGN.md 5 C11", "Idempotence of a re-run is decided as: function of its arguments + cache re-use at equal time + no variable carried between iterations of the scoring loop flows into a link's score (MIR dependence closure). Oscillation across a changing state and float rounding of the product are not decided.")

claim("C14", "other",
      "builder / parser layout tables (shared with C15), value provenance of the telemetry literal, exact path-condition equivalence for the sample site, interval analysis of the sample argument and of the RTT accessor (NaN tracking), who-may-write / who-may-call closure for the probe flag, must-pass-through pairing rule (cancel / reset => flag lowered), per-iteration path formulas and loop-shape rules for the housekeeping pass",
      "Decided on every path: the 38-byte frame layout and its agreement with the parsers; telemetry = the link's window, in_flight_packets, congestion.nak_count, bitrate/8 read before any write, timestamp = the caller's now; a keepalive sample is taken exactly under probe outstanding & "
      "timestamp parsed & 0 < now-ts <= 10000 and both callers hand update_estimate a value in [1,10000]; the flag is raised only by record_keepalive_sent (only while building a keepalive) and every site that zeroes the probe stamp and every link reset lowers it on all paths; "
      "get_smooth_rtt_ms >= 0 and never NaN; per pass every link of the whole slice is visited without early exit, the keepalive test is skipped only for a timed-out link, a frame is built exactly under needs_keepalive == connected & (never sent | now-last >= 1000) and sent on the "
      "link's own socket, building always stamps the cadence clock, IDLE_TIME*1000 <= period, no return precedes the loop, the timer arm calls the pass.",
      "DESIGN.md 5 C14", "The timed bound (<= 2 periods) rests on tokio's interval and is not decided; finiteness of the Kalman state is a numerical argument that is not decided.")

claim("C20", "other",
      "await-set extraction (every .await's future constructor), compiler coroutine witnesses (types live across an await) for held-across-await, foreign-callee reachability, guard-liveness dataflow at each access to the entry list, per-iteration path formulas of the fan-out loop, json!-lowering tables for the envelope, closure-predicate extraction for retain, panic reachability",
      "Decided for every schedule at once, by showing the critical sections atomic instead of enumerating interleavings: publish awaits only the hub's tokio Mutex::lock, none of the five hub bodies keeps a MutexGuard (or a channel-send future) alive across an await (compiler witnesses), no blocking / awaiting "
      "channel, lock, sleep or runtime-entry operation is reachable from publish, the only channel call is try_send, the entry list is reachable only from those bodies, publish cannot panic; the try_send site is in one loop over the whole locked list, reached exactly when the entry's topic equals the published "
      "one, to the entry's own sender, with an envelope tagged with the entry's own id, method <topic>.update and the published data; try_send, subscribe's push and unsubscribe's retain each run with the guard of self.entries alive; unsubscribe removes every entry with that id before returning; ids come from one "
      "fetch_add(1) nobody else touches; only the Closed outcome records an entry - by id - and a non-empty list always reaches a retain by id under the lock; a control connection unsubscribes all owned ids on every way out.",
      "DESIGN.md 5 C20", "FIFO of tokio's mpsc, fairness and cancel-safety of its Mutex are trusted; lines already queued in a connection's push channel before an unsubscribe are outside what is decided (stated in DESIGN.md).")

NOT_APPLICABLE = {}
ALL = ["C%02d" % i for i in range(1, 21)]


def main():
    checks = []
    for pid in ALL:
        if pid not in CLAIMS:
            continue
        cat, tech, text, ref, note = CLAIMS[pid]
        checks.append({
            "property_id": pid,
            "quick_cmd": "./check %s --tier quick" % pid,
            "thorough_cmd": "./check %s --tier thorough" % pid,
            "evidence_file": "/verif/evidence/%s.json" % pid,
            "replay_cmd_template": "./check %s --replay {path}" % pid,
            "engine": "sa",
            "level_claimed": {"category": cat, "text": text, "design_ref": ref},
            "level_note": (note + " " if note else "") + TRUSTED,
            "technique": tech,
        })
    na = []
    for pid in ALL:
        if pid in CLAIMS:
            continue
        na.append({"property_id": pid, "reason": NOT_APPLICABLE.get(
            pid, "static check for this property is still under construction in this build session; no claim is made yet")})
    m = {
        "version": 1,
        "setup_cmd": "./setup.sh",
        "hooks": {
            "guard": "none",
            "enable": "no source hooks: the analysis reads the unmodified program's MIR (cargo +nightly check with /verif/driver as RUSTC_WORKSPACE_WRAPPER)",
            "baseline_off_cmd": BASELINE,
            "source_commits": [],
            "add_only": True,
        },
        "engines": [
            {"name": "mirfacts", "path": "/verif/driver", "serves_properties": sorted(CLAIMS),
             "kind_free_text": "rustc_private fact extractor: type-checked pre-borrowck MIR of every body of every workspace crate unit, resolved callees, ADTs, evaluated constants"},
            {"name": "sa", "path": "/verif/sa", "serves_properties": sorted(CLAIMS),
             "kind_free_text": "static analyser (stdlib Python): CFG/dominators, call graph and field effect sets, value reconstruction, BDD path conditions, interval abstract interpretation, panic reachability, coroutine witnesses, codec/aggregate tables"},
        ],
        "checks": checks,
        "not_applicable": na,
        "notes": "Technique family: static analysis only. Every check re-extracts facts from /repo's current working tree (content-hash cache) and never executes repository code. See DESIGN.md.",
    }
    with open(os.path.join(HERE, "MANIFEST.json"), "w") as f:
        json.dump(m, f, indent=1)
    print("MANIFEST.json: %d checks, %d not_applicable" % (len(checks), len(na)))


if __name__ == "__main__":
    main()
