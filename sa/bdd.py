"""A small reduced ordered BDD package (enough for path-condition formulas)."""


class BDD:
    """Manager. Nodes are ints: 0 = FALSE, 1 = TRUE, others index self.nodes (var, lo, hi)."""

    def __init__(self):
        self.nodes = [None, None]
        self.unique = {}
        self.vars = []          # index -> atom (hashable)
        self.var_index = {}
        self._and = {}
        self._not = {}
        self._ex = {}

    FALSE = 0
    TRUE = 1

    def var(self, atom):
        i = self.var_index.get(atom)
        if i is None:
            i = len(self.vars)
            self.vars.append(atom)
            self.var_index[atom] = i
        return self._mk(i, 0, 1)

    def _mk(self, v, lo, hi):
        if lo == hi:
            return lo
        k = (v, lo, hi)
        n = self.unique.get(k)
        if n is None:
            n = len(self.nodes)
            self.nodes.append(k)
            self.unique[k] = n
        return n

    def _top(self, a):
        return self.nodes[a][0] if a > 1 else 1 << 60

    def NOT(self, a):
        if a == 0:
            return 1
        if a == 1:
            return 0
        r = self._not.get(a)
        if r is None:
            v, lo, hi = self.nodes[a]
            r = self._mk(v, self.NOT(lo), self.NOT(hi))
            self._not[a] = r
        return r

    def AND(self, a, b):
        if a == 0 or b == 0:
            return 0
        if a == 1:
            return b
        if b == 1:
            return a
        if a == b:
            return a
        if a > b:
            a, b = b, a
        k = (a, b)
        r = self._and.get(k)
        if r is not None:
            return r
        va, vb = self._top(a), self._top(b)
        v = min(va, vb)
        alo, ahi = (self.nodes[a][1], self.nodes[a][2]) if va == v else (a, a)
        blo, bhi = (self.nodes[b][1], self.nodes[b][2]) if vb == v else (b, b)
        r = self._mk(v, self.AND(alo, blo), self.AND(ahi, bhi))
        self._and[k] = r
        return r

    def OR(self, a, b):
        return self.NOT(self.AND(self.NOT(a), self.NOT(b)))

    def IMPLIES(self, a, b):
        return self.OR(self.NOT(a), b)

    def ITE(self, c, a, b):
        return self.OR(self.AND(c, a), self.AND(self.NOT(c), b))

    def entails(self, a, b):
        return self.AND(a, self.NOT(b)) == 0

    def restrict(self, a, vi, val):
        if a <= 1:
            return a
        v, lo, hi = self.nodes[a]
        if v > vi:
            return a
        if v == vi:
            return hi if val else lo
        return self._mk(v, self.restrict(lo, vi, val), self.restrict(hi, vi, val))

    def exists(self, a, vis):
        """Existentially quantify the variable indices in `vis` (a frozenset)."""
        if a <= 1 or not vis:
            return a
        k = (a, vis)
        r = self._ex.get(k)
        if r is not None:
            return r
        v, lo, hi = self.nodes[a]
        l2 = self.exists(lo, vis)
        h2 = self.exists(hi, vis)
        if v in vis:
            r = self.OR(l2, h2)
        else:
            r = self._mk(v, l2, h2)
        self._ex[k] = r
        return r

    def simplify(self, f, care):
        """Coudert-Madre restrict: some g with care & g == care & f and (usually) smaller support."""
        memo = {}

        def rc(f, c):
            if c == 0:
                return 0
            if c == 1 or f <= 1:
                return f
            if f == c:
                return 1
            if f == self.NOT(c):
                return 0
            k = (f, c)
            r = memo.get(k)
            if r is not None:
                return r
            vf, vc = self._top(f), self._top(c)
            if vc < vf:
                r = rc(f, self.OR(self.nodes[c][1], self.nodes[c][2]))
            else:
                v = vf
                f0, f1 = self.nodes[f][1], self.nodes[f][2]
                if vc == v:
                    c0, c1 = self.nodes[c][1], self.nodes[c][2]
                else:
                    c0 = c1 = c
                if c0 == 0:
                    r = rc(f1, c1)
                elif c1 == 0:
                    r = rc(f0, c0)
                else:
                    r = self._mk(v, rc(f0, c0), rc(f1, c1))
            memo[k] = r
            return r
        return rc(f, care)

    def support(self, a):
        seen = set()
        out = set()
        st = [a]
        while st:
            x = st.pop()
            if x <= 1 or x in seen:
                continue
            seen.add(x)
            v, lo, hi = self.nodes[x]
            out.add(v)
            st.append(lo)
            st.append(hi)
        return out

    def atoms(self, a):
        return [self.vars[i] for i in sorted(self.support(a))]

    def any_sat(self, a):
        """One satisfying assignment as {var index: bool}, or None."""
        if a == 0:
            return None
        out = {}
        while a > 1:
            v, lo, hi = self.nodes[a]
            if hi != 0:
                out[v] = True
                a = hi
            else:
                out[v] = False
                a = lo
        return out

    def cubes(self, a, limit=64):
        """Disjoint cubes (list of {var: bool}) covering a; truncated at `limit`."""
        out = []

        def rec(n, cur):
            if len(out) >= limit:
                return
            if n == 0:
                return
            if n == 1:
                out.append(dict(cur))
                return
            v, lo, hi = self.nodes[n]
            cur[v] = False
            rec(lo, cur)
            cur[v] = True
            rec(hi, cur)
            del cur[v]
        rec(a, {})
        return out

    def compose(self, a, vi, g):
        """Substitute formula g for variable vi in a."""
        if a <= 1:
            return a
        v, lo, hi = self.nodes[a]
        if v > vi:
            return a
        if v == vi:
            return self.ITE(g, hi, lo)
        return self.ITE(self._mk(v, 0, 1), self.compose(hi, vi, g), self.compose(lo, vi, g))

    def to_str(self, a, show, limit=12):
        if a == 0:
            return "FALSE"
        if a == 1:
            return "TRUE"
        cs = self.cubes(a, limit + 1)
        parts = []
        for c in cs[:limit]:
            lits = []
            for v in sorted(c):
                s = show(self.vars[v])
                lits.append(s if c[v] else "!" + s)
            parts.append(" & ".join(lits) if lits else "TRUE")
        s = " | ".join("(%s)" % p if len(cs) > 1 else p for p in parts)
        if len(cs) > limit:
            s += " | ..."
        return s
