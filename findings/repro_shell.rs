#[cfg(test)]
mod verif_repro {
    use super::*;
    use crate::test_helpers::{create_test_conn_io_map, create_test_connections};
    use srtla_core::config_snapshot::ConfigSnapshot;
    use srtla_core::mode::SchedulingMode;
    use srtla_core::utils::now_ms;

    fn data_pkt(seq: u32, retransmit: bool) -> [u8; 100] {
        let mut p = [0u8; 100];
        p[0..4].copy_from_slice(&seq.to_be_bytes());
        if retransmit { p[4] |= 0x04; }
        p
    }

    #[tokio::test]
    async fn f3_timer_flush_error_leaks_in_flight() {
        // test ConnIo sockets are bound but not connected: every sendmmsg fails
        let mut conns = create_test_connections(1).await;
        let io = create_test_conn_io_map(&conns);
        conns[0].queue_data_packet(&data_pkt(77, false), Some(77), 1);
        flush_all_batches(&mut conns, &io).await;
        println!("F3 timer flush    : connected={} in_flight={} queued={}",
            conns[0].connected, conns[0].in_flight_packets, conns[0].has_queued_packets());

        let mut conns = create_test_connections(1).await;
        let io = create_test_conn_io_map(&conns);
        let mut last = None; let mut tr = SequenceTracker::new();
        for s in 0..16u32 {
            packet_handler::forward_via_connection(0, &data_pkt(s, false), Some(s), &mut conns, &io, &mut last, &mut tr, 1).await;
        }
        println!("F3 threshold flush: connected={} in_flight={} queued={}",
            conns[0].connected, conns[0].in_flight_packets, conns[0].has_queued_packets());
    }

    #[tokio::test]
    async fn f1_shell_override() {
        let now = now_ms();
        let src: SocketAddr = "127.0.0.1:5555".parse().unwrap();
        let cw = srtla_core::priority::CriticalWindow::new();
        // enhanced: link0 becomes stall-gated after its quality was cached at 1.1; link2 takes a NAK
        let mut conns = create_test_connections(3).await;
        let io = create_test_conn_io_map(&conns);
        let cfg = ConfigSnapshot::default();
        let mut last = None; let mut tr = SequenceTracker::new(); let mut client = None;
        let mut buf = data_pkt(1, false);
        handle_srt_packet(Ok((100, src)), &mut buf, &mut conns, &io, &mut last, &mut tr, &mut client, true, &cfg, &cw).await;
        conns[0].in_flight_packets = 40;
        conns[0].last_ack_or_rtt_sample_ms = now - 4000;       // stale proof + backlog => latched, gated
        conns[2].register_packet(9, now); conns[2].handle_nak(9, now); // one NAK => 0.98 after refresh
        tokio::time::sleep(std::time::Duration::from_millis(80)).await; // let the 50 ms quality cache expire
        let mut buf = data_pkt(2, false);
        handle_srt_packet(Ok((100, src)), &mut buf, &mut conns, &io, &mut last, &mut tr, &mut client, true, &cfg, &cw).await;
        let before: Vec<i32> = conns.iter().map(|c| c.batch_sender.queued_count()).collect();
        let mut buf = data_pkt(3, true); // SRT retransmit
        handle_srt_packet(Ok((100, src)), &mut buf, &mut conns, &io, &mut last, &mut tr, &mut client, true, &cfg, &cw).await;
        let after: Vec<i32> = conns.iter().map(|c| c.batch_sender.queued_count()).collect();
        println!("F1 enhanced shell: gated={:?} queued before={before:?} after retransmit={after:?}",
            conns.iter().map(|c| c.is_stall_gated()).collect::<Vec<_>>());

        // classic, guard off: retransmit goes to link 0 although link 1 is the arg-max
        let mut conns = create_test_connections(3).await;
        let io = create_test_conn_io_map(&conns);
        conns[0].in_flight_packets = 30; conns[1].in_flight_packets = 0; conns[2].in_flight_packets = 10;
        let cfg = ConfigSnapshot { mode: SchedulingMode::Classic, stall_deselect: false, ..ConfigSnapshot::default() };
        let mut last = None; let mut tr = SequenceTracker::new(); let mut client = None;
        let mut buf = data_pkt(4, false);
        handle_srt_packet(Ok((100, src)), &mut buf, &mut conns, &io, &mut last, &mut tr, &mut client, true, &cfg, &cw).await;
        let a: Vec<i32> = conns.iter().map(|c| c.batch_sender.queued_count()).collect();
        let mut buf = data_pkt(5, true);
        handle_srt_packet(Ok((100, src)), &mut buf, &mut conns, &io, &mut last, &mut tr, &mut client, true, &cfg, &cw).await;
        let b: Vec<i32> = conns.iter().map(|c| c.batch_sender.queued_count()).collect();
        println!("F1 classic shell : scores={:?} queued after plain={a:?} after retransmit={b:?}",
            conns.iter().map(|c| c.get_score()).collect::<Vec<_>>());
    }
}
