"""C02 - per-link in-flight count equals packets sent and not yet retired.

D1 representation invariant in_flight_packets == |packet_log|: every mutation of the log is followed, before the
   function returns, by a resync store (`packet_log.len() as i32`, or 0 after `clear`); accepted idiom: a failed
   `remove` (is_some() false) leaves the map unchanged and needs no resync; the writer sets are closed;
D2 retire only if held: every effect of the NAK / SRTLA-ACK handlers is under `found`;
D3 cumulative ACK shape: early return iff ack <= highwater, slow path keeps seq > ack, fast path removes
   highwater+1 ..= ack, highwater stores are {ack under ack > highwater, i32::MIN, a repair value below the
   inserted seq}; the shell applies every cumulative ACK to every link;
D4 history independence: no log entry at or below the highwater mark - every insert is guarded by, or repairs,
   `seq > highest_acked_seq` (or the fast path does not exist);
D5 SRTLA ACK attribution: arrival link first, then the first other holder, then stop; global +1 for every link;
D6 registration at flush time with the routed sequence number.
"""
from ..ctx import full_slice_element, is_iter_next, CONN, is_call, is_field, sname, some_of
from ..expr import show, walk
from ..pathcond import PathA, calls_to, field_stores
from . import C05

from ..roles import upvar_index  # noqa: E402

LEVEL = "other"
PCE = C05.PCE
LOG_WRITERS = {CONN + "::register_packet", CONN + "::handle_srt_ack", CONN + "::handle_nak", CONN + "::handle_srtla_ack_specific",
               CONN + "::clear_pre_registration_state", CONN + "::reset_core_state"}
MUTATORS = ("::insert", "::remove", "::retain", "::clear")
NON_MUTATING = ("::get", "::len", "::is_empty", "::contains_key", "::iter", "::keys", "::values")


def log_mutation_sites(ctx, fn):
    """[(bb, term, kind)] calls that receive `&mut self.packet_log`."""
    out = []
    for a in ctx.eff.writers_of(CONN, "packet_log", ("mutarg",)):
        if a.fn.id != fn.id:
            continue
        t = fn.blocks[a.bb]["term"]
        path = t["f"].get("path", "?")
        kind = None
        for m in MUTATORS:
            if path.endswith(m):
                kind = m[2:]
        out.append((a.bb, t, kind or path))
    return out


def d1_representation_invariant(ctx):
    ctx.WHO_WRITES("D1", CONN, "packet_log", LOG_WRITERS, floor=6, allow_agg_in={CONN + "::new_registering"})
    ctx.WHO_WRITES("D1", CONN, "in_flight_packets", LOG_WRITERS, floor=6, allow_agg_in={CONN + "::new_registering"})
    n_sites = 0
    for st in sorted(LOG_WRITERS):
        fn = ctx.fn(st, "D1")
        if not fn:
            continue
        cfg = ctx.cfg(fn)
        fa = ctx.fa(fn)
        muts = log_mutation_sites(ctx, fn)
        stores = field_stores(fn, CONN, "in_flight_packets")
        good_blocks = set()
        for (bb, si, s) in stores:
            v = fa.val_rvalue(s["rv"], (bb, si))
            is_len = v[0] == "cast" and v[1] == "i32" and is_call(v[2], name_contains="::len") and is_field(v[2][2][0], "packet_log", CONN)
            is_zero = v == ("const", 0, "i32")
            ok = is_len or is_zero
            ctx.chk.ob("D1", "%s: in_flight store is a resync" % sname(st), ok, "stored %s" % show(v, fn.names), key="D1:resync-value:%s" % st, loc=s.get("loc"))
            if is_len:
                good_blocks.add(bb)
            elif is_zero:
                # 0 is the length only if a clear() precedes on every path and no insert follows
                clears = [mb for (mb, t, k) in muts if k == "clear"]
                dom = any(cfg.dominates(mb, bb) or cfg.postdominates(mb, bb) for mb in clears)
                ctx.chk.ob("D1", "%s: in_flight := 0 goes with packet_log.clear()" % sname(st), dom, "", key="D1:zero-with-clear:%s" % st, loc=s.get("loc"))
                if dom:
                    good_blocks.add(bb)
        for (mb, t, kind) in muts:
            n_sites += 1
            if kind not in ("insert", "remove", "retain", "clear"):
                ctx.chk.ob("D1", "%s: packet_log is only mutated through insert/remove/retain/clear" % sname(st), False, "callee %s" % kind,
                           key="D1:unknown-mutator:%s" % st, loc=t.get("loc"))
                continue
            if kind == "clear" and any(cfg.dominates(mb, g) or cfg.postdominates(g, mb) or cfg.postdominates(mb, g) for g in good_blocks):
                ctx.chk.ob("D1", "%s: clear() is paired with the zero store" % sname(st), True, "", key="D1:resync-after:%s:clear" % st, loc=t.get("loc"))
                continue
            # returns reachable from the mutation without passing a resync
            start = t["t"]
            bad_rets = [r for r in cfg.returns if start is not None and r in cfg.reach_from(start, avoid=good_blocks)] if start not in good_blocks else []
            ok = not bad_rets
            detail = ""
            if bad_rets and kind == "remove":
                # accepted idiom: the path skips the resync only when remove() found nothing
                pa2 = PathA(ctx.w, fn, avoid=good_blocks)
                rv = pa2.fa._val_call(t, (mb, len(fn.blocks[mb]["stmts"])), 0)
                found = some_of(pa2, lambda x: x == rv)
                if found:
                    pcr = pa2.pc_return()
                    ok = pa2.entails(pcr, pa2.bdd.NOT(found[0][1]))
                    detail = "resync skipped only under %s" % pa2.show(pcr, 4)
            ctx.chk.ob("D1", "%s: %s is followed by a resync on every path to return" % (sname(st), kind), ok, detail,
                       key="D1:resync-after:%s:%s" % (st, kind), loc=t.get("loc"))
    ctx.chk.floor("D1", "packet_log mutation sites", n_sites, 7)


def d2_retire_only_if_held(ctx):
    C05.d2_holder_only(ctx)   # handle_nak
    f = ctx.fn(CONN + "::handle_srtla_ack_specific", "D2")
    if not f:
        return
    pa = ctx.pa(f)
    rm = calls_to(f, path_contains="HashMap::<K, V, S, A>::remove")
    if len(rm) != 1:
        ctx.chk.ob("D2", "handle_srtla_ack_specific: exactly one removal", False, "%d" % len(rm), key="D2:ack-one-remove")
        return
    rb, rt = rm[0]
    rv = pa.fa._val_call(rt, (rb, len(f.blocks[rb]["stmts"])), 0)
    ctx.chk.ob("D2", "SRTLA ACK removes packet_log[seq]", is_field(rv[2][0], "packet_log", CONN) and rv[2][1] == ("param", 2), show(rv, f.names), key="D2:ack-remove-args")
    found = some_of(pa, lambda x: x == rv)
    if not found:
        ctx.chk.missing("D2", "handle_srtla_ack_specific: is_some(remove(..))", "")
        return
    FOUND = found[0][1]
    n = 0
    for bi, blk in enumerate(f.blocks):
        if blk["cleanup"]:
            continue
        for si, s in enumerate(blk["stmts"]):
            if s["k"] == "assign" and s["p"]["proj"] and s["p"]["proj"][0]["k"] == "deref" and any(e["k"] == "field" for e in s["p"]["proj"]):
                n += 1
                ctx.GUARD("D2", f, bi, si, [("the link held the packet", FOUND)], "SRTLA ACK: store to self.%s" % s["p"]["proj"][-1].get("n"),
                          key="D2:ack-store-guarded:%s" % s["p"]["proj"][-1].get("n"))
        t = blk["term"]
        if t["k"] == "call" and "id" in t["f"] and t["f"].get("stable", "").startswith("srtla_core::connection::congestion"):
            n += 1
            ctx.GUARD("D2", f, bi, len(blk["stmts"]), [("the link held the packet", FOUND)], "SRTLA ACK: %s" % sname(t["f"]["stable"]),
                      key="D2:ack-call-guarded:%s" % t["f"]["stable"])
    ctx.chk.floor("D2", "guarded effects in handle_srtla_ack_specific", n, 4)
    rvs = [pa.fa.val_local(0, (r, len(f.blocks[r]["stmts"]))) for r in ctx.cfg(f).returns]
    ctx.chk.ob("D2", "handle_srtla_ack_specific reports whether the link held the packet", bool(rvs) and pa.equivalent(pa.ret_true(), FOUND),
               "", key="D2:ack-returns-found")


def _highwater_atom(pa):
    """Lt(highest_acked_seq, ack|seq) atoms."""
    e = ("bin", "Lt", ("field", ("param", 1), CONN, "highest_acked_seq"), ("param", 2), "i32")
    return [(e, pa.lit(e))]


def d3_cumulative_ack_shape(ctx):
    f = ctx.fn(CONN + "::handle_srt_ack", "D3")
    if not f:
        return
    pa = ctx.pa(f)
    cfg = ctx.cfg(f)
    hw = _highwater_atom(pa)
    if len(hw) != 1:
        ctx.chk.missing("D3", "handle_srt_ack: comparison of ack with highest_acked_seq", "%d atoms" % len(hw))
        return
    ADV = hw[0][1]   # highest < ack
    # every effect is under `ack > highest`; the early return is exactly its negation
    eff_sites = []
    for bi, blk in enumerate(f.blocks):
        if blk["cleanup"]:
            continue
        for si, s in enumerate(blk["stmts"]):
            if s["k"] == "assign" and s["p"]["proj"] and s["p"]["proj"][0]["k"] == "deref" and any(e["k"] == "field" for e in s["p"]["proj"]):
                eff_sites.append((bi, si, "store self.%s" % s["p"]["proj"][-1].get("n")))
    for (mb, t, kind) in log_mutation_sites(ctx, f):
        eff_sites.append((mb, len(f.blocks[mb]["stmts"]), "packet_log.%s" % kind))
    # the first effect (in dominance order) is guarded by `ack > highwater`, and it dominates all others
    # (the highwater store that follows kills the atom, so later sites are tied to the guard by dominance)
    firsts = [x for x in eff_sites if all(cfg.dominates(x[0], y[0]) for y in eff_sites)]
    if not firsts:
        ctx.chk.ob("D3", "one effect dominates all others", False, "", key="D3:effect-needs-advance:no-dominating-effect")
    else:
        fb = min(firsts, key=lambda x: x[1])
        ctx.GUARD("D3", f, fb[0], fb[1], [("ack > highest_acked_seq", ADV)], "first effect (%s)" % fb[2], key="D3:effect-needs-advance")
    ctx.chk.floor("D3", "effects in handle_srt_ack", len(eff_sites), 4)
    # stale / duplicate ACK: no effect at all (return reachable avoiding every effect block iff !ADV)
    pa2 = PathA(ctx.w, f, avoid=set(b for (b, _i, _w) in eff_sites))
    pcr = pa2.pc_return()
    hw2 = _highwater_atom(pa2)
    ok = bool(hw2) and pa2.equivalent(pcr, pa2.bdd.NOT(hw2[0][1]))
    ctx.chk.ob("D3", "an ACK at or below the highwater mark changes nothing, and only such an ACK", ok, "effect-free return under %s" % pa2.show(pcr), key="D3:early-return-exact")
    # highwater := ack
    hs = field_stores(f, CONN, "highest_acked_seq")
    ok = len(hs) == 1 and pa.fa.val_rvalue(hs[0][2]["rv"], (hs[0][0], hs[0][1])) == ("param", 2)
    ctx.chk.ob("D3", "highwater := ack", ok, "", key="D3:highwater-store")
    # slow path: retain(|seq,_| seq > ack)
    ret = [(mb, t) for (mb, t, k) in log_mutation_sites(ctx, f) if k == "retain"]
    ok = False
    detail = ""
    if len(ret) == 1:
        mb, t = ret[0]
        cv = pa.fa.val_operand(t["args"][1], (mb, len(f.blocks[mb]["stmts"])))
        clf = ctx.w.fns.get(cv[2]) if cv[0] == "agg" else None
        if clf is not None:
            cpa = ctx.pa(clf)
            rt = cpa.ret_true()
            want = cpa.lit(("bin", "Lt", ("upvar", 0), ("param", 2), "i32"))
            ok = cpa.equivalent(rt, want) and cv[3] == (("param", 2),)
            detail = "keep iff %s ; captured %s" % (cpa.show(rt), show(cv[3][0], f.names) if cv[3] else None)
    ctx.chk.ob("D3", "slow path keeps exactly the entries with seq > ack", ok, detail, key="D3:retain-predicate")
    # fast path: remove every seq in old_highest+1 ..= ack
    rms = [(mb, t) for (mb, t, k) in log_mutation_sites(ctx, f) if k == "remove"]
    ok = False
    detail = ""
    if len(rms) == 1:
        mb, t = rms[0]
        in_loop = cfg.in_cycle(mb)
        rng = None
        for (bb, tt) in f.calls():
            if "RangeInclusive" in tt["f"].get("path", "") and tt["f"]["path"].endswith("::new"):
                rng = pa.fa._val_call(tt, (bb, len(f.blocks[bb]["stmts"])), 0)
        key = pa.fa.val_operand(t["args"][1], (mb, len(f.blocks[mb]["stmts"])))
        detail = "range %s ; removed key %s" % (show(rng, f.names) if rng else None, show(key, f.names)[:120])
        if rng is not None and in_loop:
            lo, hi = rng[2][0], rng[2][1]
            # lo = old_highest + 1 with old_highest read before the highwater store
            lo_ok = lo[0] == "bin" and lo[1] == "Add" and ("const", 1, "i32") in (lo[2], lo[3]) and \
                any(x[0] == "old" and is_field(x[1], "highest_acked_seq", CONN) for x in (lo[2], lo[3]))
            hi_ok = hi == ("param", 2)
            key_from_iter = any(is_iter_next(x) for x in walk(key))
            ok = lo_ok and hi_ok and key_from_iter
    ctx.chk.ob("D3", "fast path removes exactly old_highwater+1 ..= ack", ok, detail, key="D3:fast-path-range")
    # writers of the highwater mark
    for a in ctx.eff.writers_of(CONN, "highest_acked_seq", ("store",), include_inner=False):
        fa = ctx.fa(a.fn)
        s = a.fn.blocks[a.bb]["stmts"][a.si]
        v = fa.val_rvalue(s["rv"], (a.bb, a.si))
        ok = v == ("const", -2**31, "i32") or (a.fn.stable == CONN + "::handle_srt_ack" and v == ("param", 2)) or \
            (a.fn.stable == CONN + "::register_packet" and _is_repair_value(v))
        ctx.chk.ob("D3", "highwater store in %s is {ack, i32::MIN, repair below the inserted seq}" % sname(a.fn.stable), ok, "stored %s" % show(v, a.fn.names),
                   key="D3:highwater-writer:%s" % a.fn.stable, loc=a.loc)
    ctx.WHO_WRITES("D3", CONN, "highest_acked_seq", {CONN + "::handle_srt_ack", CONN + "::clear_pre_registration_state", CONN + "::reset_core_state",
                                                    CONN + "::register_packet"}, floor=3, allow_agg_in={CONN + "::new_registering"})
    # the shell applies each cumulative ACK to every link
    pce = ctx.fn(PCE, "D3")
    if pce:
        ppa = ctx.pa(pce)
        sites = calls_to(pce, stable=CONN + "::handle_srt_ack")
        ctx.chk.floor("D3", "handle_srt_ack call sites", len(sites), 1)
        for (bb, t) in sites:
            nst = len(pce.blocks[bb]["stmts"])
            link = ppa.fa.val_operand(t["args"][0], (bb, nst))
            ack = ppa.fa.val_operand(t["args"][1], (bb, nst))
            up = [i for i in [upvar_index(pce, "connections")] if i is not None]
            full = bool(up) and full_slice_element(link, ("upvar", up[0])) is not None
            from_acks = any(is_field(x, "ack_numbers") for x in walk(ack))
            # unconditional inside the two loops: relative to the outer loop's entry only iterator atoms remain
            cfgp = ctx.cfg(pce)
            loops = [h for h in cfgp.loop_heads() if bb in cfgp.loop_body(h)]
            outer = max(loops, key=lambda h: len(cfgp.loop_body(h))) if loops else None
            rel = ppa.bdd.simplify(ppa.pc_block(bb), ppa.pc_block(outer)) if outer is not None else ppa.pc_block(bb)
            only_iter = all(any(is_iter_next(x) for x in walk(a)) for a in ppa.atoms_of(rel))
            ctx.chk.ob("D3", "every cumulative ACK number is applied to every link, unconditionally", full and from_acks and only_iter and len(loops) >= 2,
                       "link %s ; ack %s ; residual condition %s" % (show(link, pce.names)[:80], show(ack, pce.names)[:80], ppa.show(rel, 3)),
                       key="D3:ack-applied-to-all-links", loc=t.get("loc"))


def _is_repair_value(v):
    """saturating_sub(seq, 1) / seq - 1 : a value strictly below the inserted sequence number (or i32::MIN)."""
    if is_call(v, name_contains="saturating_sub") and v[2][0] == ("param", 2) and v[2][1] == ("const", 1, "i32"):
        return True
    if v[0] == "bin" and v[1] == "Sub" and v[2] == ("param", 2) and v[3][0] == "const" and v[3][1] >= 1:
        return True
    return False


def d4_no_entry_below_highwater(ctx):
    ack = ctx.fn(CONN + "::handle_srt_ack", "D4")
    if not ack:
        return
    cfg = ctx.cfg(ack)
    fast = [(mb, t) for (mb, t, k) in log_mutation_sites(ctx, ack) if k == "remove" and cfg.in_cycle(mb)]
    if not fast:
        ctx.chk.ob("D4", "no range fast path: the cumulative ACK always filters the whole log", True, "", key="D4:no-fast-path")
        return
    n = 0
    for st in sorted(LOG_WRITERS):
        fn = ctx.fn(st, "D4")
        if not fn:
            continue
        for (mb, t, kind) in log_mutation_sites(ctx, fn):
            if kind != "insert":
                continue
            n += 1
            pa = ctx.pa(fn)
            hw = _highwater_atom(pa)
            pc = pa.pc_block(mb)
            guarded = bool(hw) and pa.entails(pc, hw[0][1])
            repaired = False
            detail = "PC(insert) = %s" % pa.show(pc)
            if not guarded:
                # repair shape: every path on which `seq > highwater` is not known passes a store of a value below seq
                reps = [(b, i, s) for (b, i, s) in field_stores(fn, CONN, "highest_acked_seq")
                        if _is_repair_value(pa.fa.val_rvalue(s["rv"], (b, i))) or pa.fa.val_rvalue(s["rv"], (b, i)) == ("const", -2**31, "i32")]
                if reps:
                    pa2 = PathA(ctx.w, fn, avoid=set(b for (b, _i, _s) in reps))
                    hw2 = _highwater_atom(pa2)
                    pc2 = pa2.pc_block(mb)
                    repaired = pc2 == pa2.bdd.FALSE or (bool(hw2) and pa2.entails(pc2, hw2[0][1]))
                    detail += " ; without the repair store the insert is reached under %s" % pa2.show(pc2)
            ctx.chk.ob("D4", "%s: a sequence number is logged only above the highwater mark (guard or repair)" % sname(st), guarded or repaired,
                       detail + " ; the range fast path of handle_srt_ack never revisits numbers <= highwater, so such an entry leaks", key="D4:insert-unguarded:%s" % st, loc=t.get("loc"))
    ctx.chk.floor("D4", "packet_log insert sites", n, 1)


def d5_srtla_ack_attribution(ctx, rule="D5"):
    pce = ctx.fn(PCE, rule)
    if not pce:
        return
    pa = ctx.pa(pce)
    cfg = ctx.cfg(pce)
    sites = calls_to(pce, stable=CONN + "::handle_srtla_ack_specific")
    ctx.WHO_CALLS(rule, CONN + "::handle_srtla_ack_specific", {PCE}, floor=2)
    ctx.WHO_CALLS(rule, CONN + "::handle_srtla_ack_global", {PCE}, floor=1)
    idx = [i for i in [upvar_index(pce, "idx")] if i is not None]
    conns = [i for i in [upvar_index(pce, "connections")] if i is not None]
    if len(sites) != 2 or not idx or not conns:
        ctx.chk.ob(rule, "two SRTLA ACK attribution sites", False, "%d sites" % len(sites), key=rule + ":site-shape")
        return
    IDX = ("upvar", idx[0])
    first = second = None
    for (bb, t) in sites:
        v = pa.fa.val_operand(t["args"][0], (bb, len(pce.blocks[bb]["stmts"])))
        if v == ("index", ("upvar", conns[0]), IDX):
            first = (bb, t, v)
        else:
            second = (bb, t, v)
    ctx.chk.ob(rule, "the arrival link is asked first", first is not None and second is not None and cfg.dominates(first[0], second[0]),
               "", key=rule + ":arrival-first")
    if first is None or second is None:
        return
    fatom = pa.atom(pa.fa._val_call(first[1], (first[0], len(pce.blocks[first[0]]["stmts"])), 0))
    pc2 = pa.pc_block(second[0])
    ok1 = pa.entails(pc2, pa.bdd.NOT(fatom))
    # i != idx
    ne = pa.find(lambda a: a[0] == "bin" and a[1] == "Eq" and IDX in (a[2], a[3]) and any(is_iter_next(x) for x in walk(a)))
    ok2 = bool(ne) and pa.entails(pc2, pa.bdd.NOT(ne[0][1]))
    link_idx_same = False
    if ne:
        other = ne[0][0][2] if ne[0][0][3] == IDX else ne[0][0][3]
        # the compared index and the link come from the same enumerate element
        link_idx_same = other[0] == "field" and second[2] == ("field", other[1], other[2], "1")
    ctx.chk.ob(rule, "other links are asked only if the arrival link did not hold the packet, and never the arrival link again",
               ok1 and ok2 and link_idx_same, "PC(second site) relative: %s" % pa.show(pa.bdd.simplify(pc2, pa.pc_block(first[0])), 3), key=rule + ":second-site-guard")
    satom = pa.atom(pa.fa._val_call(second[1], (second[0], len(pce.blocks[second[0]]["stmts"])), 0))
    loop = cfg.innermost_loop_of(second[0])
    if loop:
        for (t, h) in cfg.back_edges():
            if h == loop[0]:
                ec = pa.edge_cond(t, h)
                if pa.sat(pa.bdd.AND(ec, pa.bdd.NOT(ne[0][1]) if ne else ec)):
                    rel = pa.bdd.AND(ec, pa.bdd.NOT(ne[0][1])) if ne else ec
                    ctx.chk.ob(rule, "the first other holder wins: the scan stops after a link retired the packet", pa.entails(rel, pa.bdd.NOT(satom)),
                               "", key=rule + ":scan-stops-at-first-holder")
    # global +1 on every link, once per SRTLA ACK number
    for (bb, t) in calls_to(pce, stable=CONN + "::handle_srtla_ack_global"):
        link = pa.fa.val_operand(t["args"][0], (bb, len(pce.blocks[bb]["stmts"])))
        full = full_slice_element(link, ("upvar", conns[0])) is not None
        loops = [h for h in cfg.loop_heads() if bb in cfg.loop_body(h)]
        same_outer = any(first[0] in cfg.loop_body(h) for h in loops)
        inner = min(loops, key=lambda h: len(cfg.loop_body(h))) if loops else None
        rel = pa.bdd.simplify(pa.pc_block(bb), pa.pc_block(inner)) if inner is not None else pa.pc_block(bb)
        only_iter = all(any(is_iter_next(x) for x in walk(a)) for a in pa.atoms_of(rel))
        # whoever retired the packet (or nobody): every path from the attribution to the end of this ACK number's
        # iteration passes the global loop
        uncond = inner is not None and cfg.postdominates(inner, first[0])
        ctx.chk.ob(rule, "global +1 visits every link once per SRTLA ACK number, whoever retired it", full and same_outer and only_iter and uncond,
                   "residual %s" % pa.show(rel, 3), key=rule + ":global-ack-all-links", loc=t.get("loc"))


def d6_registration_at_flush(ctx):
    ctx.WHO_CALLS("D6", CONN + "::register_packet", {CONN + "::take_batch"}, floor=1)
    ctx.WHO_CALLS("D6", CONN + "::take_batch", {"srtla_send::sender::packet_handler::send_connection_batch::{closure#0}"}, floor=1)
    tb = ctx.fn(CONN + "::take_batch", "D6")
    if tb:
        fa = ctx.fa(tb)
        for (bb, t) in calls_to(tb, stable=CONN + "::register_packet"):
            nst = len(tb.blocks[bb]["stmts"])
            seq = fa.val_operand(t["args"][1], (bb, nst))
            tm = fa.val_operand(t["args"][2], (bb, nst))
            # (*s as i32) with s the Some payload of tuple field 1 of the drained element; time = tuple field 2
            ok = seq[0] == "cast" and seq[1] == "i32" and seq[2][0] == "field" and seq[2][1][0] == "as" and seq[2][1][2] == "Some" \
                and seq[2][1][1][0] == "field" and seq[2][1][1][3] == "1" and tm[0] == "field" and tm[3] == "2" and tm[1] == seq[2][1][1][1]
            ctx.chk.ob("D6", "a drained packet is registered under its own routed sequence number and queue time", ok,
                       "seq %s ; time %s" % (show(seq, tb.names)[:120], show(tm, tb.names)[:120]), key="D6:register-args", loc=t.get("loc"))


def d6b_sequence_numbers_stay_paired_with_their_datagrams(ctx):
    """A link's log holds the numbers it *transmitted* only if the number registered at flush time is the one that was queued with
    that datagram: the three parallel vectors of the batch queue are pushed, fully drained (zipped in order) and cleared together.
    This is C01.D4, decided once and reported under both properties (a reset that clears the datagrams but not their numbers
    pairs the next batch with stale numbers)."""
    from . import C01
    C01.d4_fifo_and_pairing(ctx)


def d7_a_reset_retires_everything(ctx):
    """"...or retired by a reset of that link": the two resets empty the log and zero the counter on every path (a reset that
    returns early for some link state leaves stale packets in flight), and both teardown entry points always reach the core reset."""
    for st in (CONN + "::reset_core_state", CONN + "::clear_pre_registration_state"):
        f = ctx.fn(st, "D7")
        if not f:
            continue
        cfg = ctx.cfg(f)
        fa = ctx.fa(f)
        clears = [bb for (bb, t, kind) in log_mutation_sites(ctx, f) if kind == "clear"]
        zero = []
        mark = []
        for bi, blk in enumerate(f.blocks):
            if blk["cleanup"]:
                continue
            for si, s_ in enumerate(blk["stmts"]):
                if s_["k"] != "assign":
                    continue
                pr = s_["p"]["proj"]
                if pr and pr[0]["k"] == "deref" and pr[-1]["k"] == "field" and s_["p"]["l"] == 1:
                    v = fa.val_rvalue(s_["rv"], (bi, si))
                    if pr[-1].get("n") == "in_flight_packets" and v[0] == "const" and v[1] == 0:
                        zero.append(bi)
                    if pr[-1].get("n") == "highest_acked_seq" and v[0] == "const" and v[1] == -2147483648:
                        mark.append(bi)
        for what, sites in (("empties packet_log", clears), ("zeroes in_flight_packets", zero), ("rewinds the cumulative-ACK mark to i32::MIN", mark)):
            ok = bool(sites) and not cfg.returns_reachable_avoiding(set(sites))
            ctx.chk.ob("D7", "%s %s on every path to its return" % (sname(st), what), ok, "sites in blocks %s" % sorted(set(sites)), key="D7:reset-always:%s:%s" % (st, what.split()[0]))
    for st in (CONN + "::mark_for_recovery", CONN + "::reset_for_reconnect"):
        f = ctx.fn(st, "D7")
        if not f:
            continue
        cfg = ctx.cfg(f)
        sites = [bb for (bb, t) in calls_to(f, stable=CONN + "::reset_core_state")]
        ok = bool(sites) and not cfg.returns_reachable_avoiding(set(sites))
        ctx.chk.ob("D7", "%s always runs the core reset" % sname(st), ok, "call blocks %s" % sites, key="D7:teardown-resets:%s" % st)


RULES = [d1_representation_invariant, d2_retire_only_if_held, d3_cumulative_ack_shape, d4_no_entry_below_highwater,
         d5_srtla_ack_attribution, d6_registration_at_flush, d6b_sequence_numbers_stay_paired_with_their_datagrams, d7_a_reset_retires_everything]


def run(ctx):
    ctx.chk.not_decided = ["equality with a set model over arbitrary histories (needs the map's run-time contents): decided instead as the "
                           "representation invariant + per-handler shapes that make each step exact",
                           "31-bit wrap-around of sequence numbers", "|packet_log| < 2^31 (memory bound) for `len() as i32 >= 0`"]
    ctx.run_rules(RULES)
