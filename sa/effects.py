"""E2 - call graph, who-may-call / who-may-write, transitive effect sets.

Type-based and flow-insensitive: a store to `<anything>.window` where the
projected field belongs to ADT `SrtlaConnection` is a write of the key
(`srtla_core::connection::SrtlaConnection`, `window`) whichever object it is.
Every `&mut` borrow of a field is counted as a write of that field at the place
the borrow is created (sound for safe code: nothing can be written through a
shared borrow, interior mutability aside - the workspace ADTs the properties
name hold none, the engine reports `Cell`/`Atomic*`/`Mutex` typed fields).
"""
from collections import defaultdict

from .pp import place_s


def field_chain(place):
    """[(adt, field)] for every field projection of a place (workspace or not)."""
    return [(e["adt"], e["n"]) for e in place["proj"] if e["k"] == "field" and e.get("adt")]


def last_field(place):
    """(adt, field, trailing) for the last field projection; trailing = projections after it."""
    proj = place["proj"]
    for i in range(len(proj) - 1, -1, -1):
        e = proj[i]
        if e["k"] == "field" and e.get("adt"):
            return e["adt"], e["n"], proj[i + 1:]
    return None


class Access:
    __slots__ = ("fn", "bb", "si", "kind", "adt", "field", "loc", "detail", "inner", "place")

    def __init__(self, fn, bb, si, kind, adt, field, loc, detail=None, inner=False, place=None):
        self.fn = fn          # Fn
        self.bb = bb
        self.si = si          # statement index or "term"
        self.kind = kind      # store | callstore | mutborrow | agg | read | shared | setdiscr
        self.adt = adt
        self.field = field
        self.loc = loc
        self.detail = detail  # callee path for borrows that flow into a call, etc.
        self.inner = inner    # True: the access goes *into* this field (a sub-field / element is the real target)
        self.place = place

    @property
    def key(self):
        return (self.adt, self.field)

    def __repr__(self):
        return "<%s %s.%s in %s bb%d%s>" % (self.kind, self.adt.split("::")[-1], self.field, self.fn.stable, self.bb,
                                             " inner" if self.inner else "")


class Effects:
    def __init__(self, world):
        self.world = world
        self.local_crates = world.local_crates
        self.edges = defaultdict(set)        # fn id -> set(fn id) local callees (incl. closures constructed)
        self.redges = defaultdict(set)
        self.call_sites = defaultdict(list)  # callee id -> [(caller Fn, bb, term)]
        self.ext_calls = defaultdict(list)   # callee path (non-local) -> [(caller Fn, bb, term)]
        self.writes = defaultdict(list)      # (adt, field) -> [Access]
        self.reads = defaultdict(list)
        self.own_w = defaultdict(set)        # fn id -> set(keys)
        self.own_r = defaultdict(set)
        self.whole_writes = defaultdict(list)  # adt id -> [Access] (assignment of a whole ADT value through deref/index)
        self.own_whole = defaultdict(set)
        self._reach_memo = {}
        self._w_memo = {}
        self._r_memo = {}
        self._ww_memo = {}
        self.ext_mut_args = []               # [(Fn, bb, term, arg index, type string)] &mut workspace-typed args to foreign callees
        self.unresolved = []                 # calls whose callee could not be resolved to a body in the world
        self.indirect = []
        self._W = None
        self._R = None
        self._trait_impls = defaultdict(list)
        for f in world.fns.values():
            if f.stable.startswith("<") and " as " in f.stable:
                # "<Self as crate::Trait>::method"
                try:
                    tr = f.stable.split(" as ", 1)[1]
                    trait, meth = tr.rsplit(">::", 1)
                    self._trait_impls[(trait, meth)].append(f)
                except ValueError:
                    pass
        for f in world.fns.values():
            self._scan(f)

    # ------------------------------------------------------------------ helpers
    def is_ws_adt(self, adt):
        if not adt or adt == "tuple" or adt.startswith("closure:"):
            return False
        return adt.split("::", 1)[0] in self.local_crates

    def _ref_targets(self, fn):
        """local -> list of (place, is_mut) the local may be a reference to (borrow creation or copy of one)."""
        ref = defaultdict(list)
        assigns = []
        for bi, b in enumerate(fn.blocks):
            if b["cleanup"]:
                continue
            for s in b["stmts"]:
                if s["k"] == "assign" and not s["p"]["proj"]:
                    assigns.append((s["p"]["l"], s["rv"]))
        for _ in range(4):
            changed = False
            for l, rv in assigns:
                k = rv["k"]
                new = []
                if k in ("ref", "raw"):
                    p = rv["p"]
                    new.append((p, rv["mut"]))
                    # reborrow through a known reference: &mut (*_y).a.b  with _y = &mut P  =>  P.a.b
                    if p["proj"] and p["proj"][0]["k"] == "deref":
                        for (tp, tm) in ref.get(p["l"], []):
                            new.append(({"l": tp["l"], "proj": tp["proj"] + p["proj"][1:]}, rv["mut"] and tm))
                elif k == "use" and rv["o"]["k"] in ("copy", "move") and not rv["o"]["p"]["proj"]:
                    new.extend(ref.get(rv["o"]["p"]["l"], []))
                elif k == "cast" and rv["a"]["k"] in ("copy", "move") and not rv["a"]["p"]["proj"]:
                    new.extend(ref.get(rv["a"]["p"]["l"], []))
                for item in new:
                    if item not in ref[l] and len(ref[l]) < 16:
                        ref[l].append(item)
                        changed = True
            if not changed:
                break
        return ref

    def resolve_place(self, fn, place, ref):
        """Expand a leading deref of a local that is a known reference. Returns list of places (always incl. the original)."""
        out = [place]
        if place["proj"] and place["proj"][0]["k"] == "deref":
            for (tp, _m) in ref.get(place["l"], []):
                out.append({"l": tp["l"], "proj": tp["proj"] + place["proj"][1:]})
        return out

    def _record_place_access(self, table, own, fn, bb, si, kind, place, loc, detail=None):
        chain = [(i, e) for i, e in enumerate(place["proj"]) if e["k"] == "field" and e.get("adt")]
        if not chain:
            return
        last_i = chain[-1][0]
        for (i, e) in chain:
            if not self.is_ws_adt(e["adt"]):
                continue
            inner = (i != last_i) or any(x["k"] in ("deref", "index", "cindex", "subslice") for x in place["proj"][i + 1:])
            a = Access(fn, bb, si, kind, e["adt"], e["n"], loc, detail, inner, place)
            table[(e["adt"], e["n"])].append(a)
            own[fn.id].add((e["adt"], e["n"]))

    def _operand_reads(self, fn, bb, si, o, loc):
        if o["k"] in ("copy", "move"):
            self._record_place_access(self.reads, self.own_r, fn, bb, si, "read", o["p"], loc)

    def _callee_ids(self, f):
        """Local function ids a callee record may dispatch to."""
        if "id" not in f:
            return []
        cid = f["id"]
        if cid in self.world.fns:
            return [cid]
        if f.get("virtual") or f["id"] == f["decl"]:
            # trait method without a resolved impl: fan out over all impls in the world
            decl = f["decl"]
            if "::" in decl:
                trait, meth = decl.rsplit("::", 1)
                impls = self._trait_impls.get((trait, meth), [])
                return [i.id for i in impls]
        return []

    def _scan(self, fn):
        ref = self._ref_targets(fn)
        fid = fn.id
        for bi, b in enumerate(fn.blocks):
            if b["cleanup"]:
                continue
            for si, s in enumerate(b["stmts"]):
                k = s["k"]
                if k == "assign":
                    loc = s.get("loc", "")
                    p = s["p"]
                    rv = s["rv"]
                    for rp in self.resolve_place(fn, p, ref):
                        self._record_place_access(self.writes, self.own_w, fn, bi, si, "store", rp, loc)
                    if s.get("padt") and self.is_ws_adt(s["padt"]) and p["proj"] and p["proj"][-1]["k"] != "field":
                        self.whole_writes[s["padt"]].append(Access(fn, bi, si, "whole", s["padt"], "*", loc, None, False, p))
                        self.own_whole[fn.id].add(s["padt"])
                    self._scan_rvalue(fn, bi, si, rv, loc, ref)
                elif k == "setdiscr":
                    loc = s.get("loc", "")
                    for rp in self.resolve_place(fn, s["p"], ref):
                        self._record_place_access(self.writes, self.own_w, fn, bi, si, "setdiscr", rp, loc)
            t = b["term"]
            tk = t["k"]
            if tk == "call":
                loc = t.get("loc", "")
                f = t["f"]
                for rp in self.resolve_place(fn, t["dest"], ref):
                    self._record_place_access(self.writes, self.own_w, fn, bi, "term", "callstore", rp, loc,
                                              f.get("path"))
                for a in t["args"]:
                    self._operand_reads(fn, bi, "term", a, loc)
                    if a["k"] == "const" and "fn" in a:
                        for cid in self._callee_ids(a["fn"]):
                            self._edge(fid, cid)
                if "id" in f:
                    targets = self._callee_ids(f)
                    if targets:
                        for cid in targets:
                            self._edge(fid, cid)
                            self.call_sites[cid].append((fn, bi, t))
                    else:
                        self.ext_calls[f["path"]].append((fn, bi, t))
                        if f["crate"] in self.local_crates:
                            self.unresolved.append((fn, bi, t))
                        # &mut workspace-typed arguments handed to foreign code
                        for ai, ty in enumerate(t.get("atys", [])):
                            if ty.startswith("&mut ") and self._mentions_ws(ty):
                                self.ext_mut_args.append((fn, bi, t, ai, ty))
                else:
                    self.indirect.append((fn, bi, t))
                # annotate mutable borrows that flow into this call
                for ai, a in enumerate(t["args"]):
                    if a["k"] in ("copy", "move") and not a["p"]["proj"]:
                        for (tp, tm) in ref.get(a["p"]["l"], []):
                            if tm:
                                self._record_place_access(self.writes, self.own_w, fn, bi, "term", "mutarg", tp, loc,
                                                          (f.get("path") or "indirect", ai))
            elif tk == "switch":
                self._operand_reads(fn, bi, "term", t["d"], t.get("loc", ""))
            elif tk == "assert":
                self._operand_reads(fn, bi, "term", t["cond"], t.get("loc", ""))
            elif tk == "drop":
                pass
            elif tk == "yield":
                self._operand_reads(fn, bi, "term", t["v"], "")

    def _mentions_ws(self, ty):
        for c in self.local_crates:
            if (c + "::") in ty:
                return True
        # inside its own crate rustc prints paths without the crate name; ADT names are matched
        for a in self.world.adts:
            tail = a.split("::", 1)[1] if "::" in a else a
            if tail in ty:
                return True
        return False

    def _scan_rvalue(self, fn, bi, si, rv, loc, ref):
        k = rv["k"]
        if k == "use":
            self._operand_reads(fn, bi, si, rv["o"], loc)
            o = rv["o"]
            if o["k"] == "const" and "fn" in o:
                for cid in self._callee_ids(o["fn"]):
                    self._edge(fn.id, cid)
        elif k in ("ref", "raw"):
            for rp in self.resolve_place(fn, rv["p"], ref):
                if rv["mut"]:
                    self._record_place_access(self.writes, self.own_w, fn, bi, si, "mutborrow", rp, loc)
                self._record_place_access(self.reads, self.own_r, fn, bi, si, "shared" if not rv["mut"] else "read", rp, loc)
        elif k == "bin":
            self._operand_reads(fn, bi, si, rv["a"], loc)
            self._operand_reads(fn, bi, si, rv["b"], loc)
        elif k in ("un", "cast", "repeat"):
            self._operand_reads(fn, bi, si, rv["a"], loc)
            a = rv["a"]
            if a["k"] == "const" and "fn" in a:
                for cid in self._callee_ids(a["fn"]):
                    self._edge(fn.id, cid)
        elif k == "discr":
            self._record_place_access(self.reads, self.own_r, fn, bi, si, "read", rv["p"], loc)
        elif k == "agg":
            for o in rv["ops"]:
                self._operand_reads(fn, bi, si, o, loc)
                if o["k"] == "const" and "fn" in o:
                    for cid in self._callee_ids(o["fn"]):
                        self._edge(fn.id, cid)
            ak = rv["ak"]
            if ak in ("closure", "coroutine", "coroutine_closure"):
                if rv["def"] in self.world.fns:
                    self._edge(fn.id, rv["def"])
            elif ak == "adt" and self.is_ws_adt(rv["adt"]):
                fields = rv.get("fields", [])
                for fname in fields:
                    a = Access(fn, bi, si, "agg", rv["adt"], fname, loc, None, False, None)
                    self.writes[(rv["adt"], fname)].append(a)
                    # a struct literal initialises a *new* object: not part of own_w (effect on existing state)

    def _edge(self, a, b):
        self.edges[a].add(b)
        self.redges[b].add(a)

    # ------------------------------------------------------------------ queries
    def reachable(self, fid):
        r = self._reach_memo.get(fid)
        if r is not None:
            return r
        r = self._reachable(fid)
        self._reach_memo[fid] = r
        return r

    def WW(self, fid):
        """ADTs that may be overwritten as a whole (through deref / index) in the transitive closure of fid."""
        r = self._ww_memo.get(fid)
        if r is None:
            r = set()
            for x in self.reachable(fid):
                r |= self.own_whole.get(x, set())
            self._ww_memo[fid] = r
        return r

    def _reachable(self, fid):
        seen = set([fid])
        st = [fid]
        while st:
            x = st.pop()
            for y in self.edges.get(x, ()):
                if y not in seen:
                    seen.add(y)
                    st.append(y)
        return seen

    def _fix(self, own):
        res = {}
        for fid in self.world.fns:
            s = set()
            for r in self.reachable(fid):
                s |= own.get(r, set())
            res[fid] = s
        return res

    def W(self, fid):
        """Transitive write set of a function: {(adt, field)} (stores and &mut borrows; not struct literals)."""
        s = self._w_memo.get(fid)
        if s is None:
            s = set()
            for r in self.reachable(fid):
                s |= self.own_w.get(r, set())
            self._w_memo[fid] = s
        return s

    def R(self, fid):
        s = self._r_memo.get(fid)
        if s is None:
            s = set()
            for r in self.reachable(fid):
                s |= self.own_r.get(r, set())
            self._r_memo[fid] = s
        return s

    def writers_of(self, adt, field, kinds=None, include_inner=True):
        out = []
        for a in self.writes.get((adt, field), []):
            if kinds and a.kind not in kinds:
                continue
            if not include_inner and a.inner:
                continue
            out.append(a)
        return out

    def writer_fns(self, adt, field, kinds=("store", "callstore", "mutborrow", "setdiscr", "agg"), include_inner=True):
        return sorted(set(a.fn.stable for a in self.writers_of(adt, field, kinds, include_inner)))

    def callers_of(self, fid):
        return self.call_sites.get(fid, [])

    def caller_fns(self, fid):
        return sorted(set(c[0].stable for c in self.call_sites.get(fid, [])))

    def transitive_callers(self, fid):
        seen = set([fid])
        st = [fid]
        while st:
            x = st.pop()
            for y in self.redges.get(x, ()):
                if y not in seen:
                    seen.add(y)
                    st.append(y)
        return seen

    def ext_callees_reached(self, fid):
        """Paths of non-local callees called from the transitive closure of fid."""
        reach = self.reachable(fid)
        out = set()
        for path, sites in self.ext_calls.items():
            for (fn, _bb, _t) in sites:
                if fn.id in reach:
                    out.add(path)
                    break
        return out


_cache = {}


def effects_of(world):
    key = world.uid
    e = _cache.get(key)
    if e is None:
        e = Effects(world)
        _cache[key] = e
    return e
