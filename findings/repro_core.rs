use srtla_core::config_snapshot::ConfigSnapshot;
use srtla_core::connection::LinkPhase;
use srtla_core::mode::SchedulingMode;
use srtla_core::selection::select_connection_idx;
use srtla_core::test_helpers::{create_test_connection, create_test_connections};
use srtla_core::utils::now_ms;

#[tokio::test]
async fn f2_fast_path_ack_leak() {
    let mut c = create_test_connection().await;
    for s in 100..=110 { c.register_packet(s, 1); }
    c.handle_srt_ack(110, 10);
    assert_eq!(c.in_flight_packets, 0);
    c.register_packet(105, 11); // late retransmission after the cumulative ACK passed it
    c.handle_srt_ack(111, 12);  // cumulative ACK at or beyond 105
    println!("F2 spacing=1  : in_flight after ack 111 = {}", c.in_flight_packets);
    let mut d = create_test_connection().await;
    for s in 100..=110 { d.register_packet(s, 1); }
    d.handle_srt_ack(110, 10);
    d.register_packet(105, 11);
    d.handle_srt_ack(200, 12);  // same history, ACK spaced > 64
    println!("F2 spacing=90 : in_flight after ack 200 = {}", d.in_flight_packets);
}

#[tokio::test]
async fn f4_healthy_without_connected() {
    for mode in [SchedulingMode::Classic, SchedulingMode::Enhanced] {
        let now = now_ms();
        let mut conns = create_test_connections(2).await;
        // A: usable (registered, connected, not timed out) but stall-latched: backlog + stale proof
        conns[0].in_flight_packets = 40;
        conns[0].last_received = Some(now);
        conns[0].last_ack_or_rtt_sample_ms = now - 4000;
        // B: got REG_ERR (connected=false, last_received=None; phase untouched), then one inbound datagram
        conns[1].connected = false;
        conns[1].last_received = Some(now);
        assert_eq!(conns[1].phase, LinkPhase::Live);
        let cfg = ConfigSnapshot { mode, ..ConfigSnapshot::default() };
        let usable: Vec<usize> = conns.iter().enumerate()
            .filter(|(_, c)| c.connected && c.is_schedulable() && !c.is_timed_out(now)).map(|(i, _)| i).collect();
        let sel = select_connection_idx(&mut conns, None, now, &cfg);
        println!("F4 mode={mode}: usable={usable:?} selected={sel:?} gated=[{},{}]", conns[0].is_stall_gated(), conns[1].is_stall_gated());
    }
}

#[tokio::test]
async fn f1_override_picks_ineligible() {
    let now = now_ms();
    let mut conns = create_test_connections(3).await;
    // link 0: stall-gated (latched, healthy alternative exists)
    conns[0].in_flight_packets = 40;
    conns[0].last_ack_or_rtt_sample_ms = now - 4000;
    // link 1: timed out (silent for > conn timeout) but still connected/Live
    conns[1].last_received = Some(now - 20_000);
    let cfg = ConfigSnapshot::default();
    let sel = select_connection_idx(&mut conns, None, now, &cfg);
    let best = srtla_core::priority::select_best_quality_idx(&conns);
    println!("F1 enhanced: selector={sel:?} override_candidate={best:?} (link0 gated={}, link1 timed_out={})",
        conns[0].is_stall_gated(), conns[1].is_timed_out(now));
    // classic: cache never refreshed -> ties at 1.0 -> first connected link, not arg-max
    let mut conns = create_test_connections(3).await;
    conns[0].in_flight_packets = 30; conns[1].in_flight_packets = 0; conns[2].in_flight_packets = 10;
    let cfg = ConfigSnapshot { mode: SchedulingMode::Classic, stall_deselect: false, ..ConfigSnapshot::default() };
    let sel = select_connection_idx(&mut conns, None, now, &cfg);
    let best = srtla_core::priority::select_best_quality_idx(&conns);
    println!("F1 classic : selector(arg-max)={sel:?} override_candidate={best:?}");
}
