"""C09 - the return path relays receiver traffic to the SRT client unmodified.

D1 exact dispatch in process_uplink_packet: a datagram is queued for the client on every path except
   {fewer than 2 bytes, a registration reply (REG_NGP / REG2 / REG3 / REG_ERR), SRTLA ACK, keepalive} - and on none of those;
D2 identity: what is queued is a copy of the whole received slice; the slice is the reader's bytes; no unsafe on the chain;
D3 delivery: a successfully processed datagram always reaches process_connection_events, whose forward loop sends every queued
   element once a client address is known;
D4 stamps: every non-registration datagram refreshes last_received; the delivery-proof stamp is written only by an earned
   SRTLA ACK and an answered keepalive (zero only in the link reset);
D5 processing an arbitrary datagram never panics (E5).
"""
from ..ctx import is_awaited_result_of, CONN, is_call, is_field, is_iter_next, result_arms, sname, some_of
from ..expr import show, strip_old, walk
from ..pathcond import PathA, calls_to, field_stores

LEVEL = "other"
PUP = "srtla_send::sender::uplink_recv::process_uplink_packet::{closure#0}"
HUP = "srtla_send::sender::packet_handler::handle_uplink_packet::{closure#0}"
PCE = "srtla_send::sender::packet_handler::process_connection_events::{closure#0}"
REGM = "srtla_core::registration::SrtlaRegistrationManager"
INC = "srtla_core::connection::incoming::SrtlaIncoming"
P = "srtla_protocol::constants::"
TYPES = {"SRT_TYPE_ACK": 0x8002, "SRT_TYPE_NAK": 0x8003, "SRTLA_TYPE_KEEPALIVE": 0x9000, "SRTLA_TYPE_ACK": 0x9100, "SRTLA_TYPE_REG1": 0x9200,
         "SRTLA_TYPE_REG2": 0x9201, "SRTLA_TYPE_REG3": 0x9202, "SRTLA_TYPE_REG_ERR": 0x9210, "SRTLA_TYPE_REG_NGP": 0x9211}


from ..roles import up  # noqa: E402


def type_is(pa, code, subject_pred=None):
    """Formula `packet type == code` as tested in this body (FALSE if the body never tests it)."""
    b = pa.bdd
    res = None
    for a in list(pa.bdd.vars):
        if a[0] == "bin" and a[1] == "Eq":
            sides = (a[2], a[3])
            c = [x for x in sides if x[0] == "const" and x[1] == code]
            o = [x for x in sides if not (x[0] == "const" and x[1] == code)]
            if c and o and any(is_call(y, name_contains="get_packet_type") for y in walk(o[0])):
                res = pa.bdd.var(a) if res is None else b.OR(res, pa.bdd.var(a))
    return res if res is not None else b.FALSE


def _forward_pushes(ctx, f, fa):
    out = []
    for (bb, t) in f.calls():
        if not t["f"].get("path", "").endswith("::push"):
            continue
        nst = len(f.blocks[bb]["stmts"])
        tgt = fa.val_operand(t["args"][0], (bb, nst))
        if is_field(tgt, "forward_to_client", INC):
            out.append((bb, t, fa.val_operand(t["args"][1], (bb, nst))))
    return out


def d1_exact_dispatch(ctx):
    for n, v in TYPES.items():
        ctx.CONST("D1", P + n, v)
    f = ctx.fn(PUP, "D1")
    if not f:
        return
    fa = ctx.fa(f)
    pushes = _forward_pushes(ctx, f, fa)
    ctx.chk.floor("D1", "forward_to_client.push sites", len(pushes), 3)
    data = up(f, "data")
    pa2 = PathA(ctx.w, f, avoid=set(bb for (bb, t, v) in pushes))
    b = pa2.bdd
    pt = ("call", "srtla_protocol::get_packet_type", (data,), None, "srtla_protocol::types::get_packet_type")
    ptv = ("field", ("as", pt, "Some"), "core::option::Option", "0")
    none = pa2.is_atom(("is", pt, "None"))
    ev = [a for a in pa2.bdd.vars if a[0] == "is" and is_call(a[1], stable=REGM + "::process_registration_packet")]
    reg = b.NOT(pa2.is_atom(("is", ev[0][1], "None"))) if ev else b.FALSE
    ack = type_is(pa2, 0x9100)
    ka = type_is(pa2, 0x9000)
    internal = b.OR(b.OR(none, reg), b.OR(ack, ka))
    pcr = pa2.pc_return()
    ok = pa2.entails(pcr, internal)
    ctx.chk.ob("D1", "a datagram is NOT queued for the client only if it is shorter than 2 bytes, a registration reply, an SRTLA ACK or a keepalive", ok,
               "push-free return under %s" % pa2.show(pcr, 6)[:500] + ("" if ok else " ; e.g. %s" % pa2.counterexample(pcr, internal)), key="D1:not-forwarded-only-internal")
    pa = ctx.pa(f)
    b1 = pa.bdd
    none1 = pa.is_atom(("is", pt, "None"))
    ev1 = [a for a in pa.bdd.vars if a[0] == "is" and is_call(a[1], stable=REGM + "::process_registration_packet")]
    reg1 = b1.NOT(pa.is_atom(("is", ev1[0][1], "None"))) if ev1 else b1.FALSE
    ack1 = type_is(pa, 0x9100)
    ka1 = type_is(pa, 0x9000)
    internal1 = b1.OR(b1.OR(none1, reg1), b1.OR(ack1, ka1))
    for (bb, t, v) in pushes:
        pc = pa.pc_block(bb)
        ok = not pa.sat(b1.AND(pc, internal1))
        ctx.chk.ob("D1", "SRTLA-internal datagrams are never queued for the client", ok, "PC = %s" % pa.show(pc, 3)[:300], key="D1:internal-never-forwarded", loc=t.get("loc"))
    # which datagrams are registration replies: exactly the four reply types
    prp = ctx.fn(REGM + "::process_registration_packet", "D1")
    if prp:
        ppa = ctx.pa(prp)
        somes = {}
        for bi, blk in enumerate(prp.blocks):
            for si, s in enumerate(blk["stmts"]):
                if s["k"] == "assign" and s["p"]["l"] == 0 and not s["p"]["proj"] and s["rv"]["k"] == "agg":
                    v = ppa.fa.val_rvalue(s["rv"], (bi, si))
                    pc = ppa.pc_at(bi, si)
                    if v[2].endswith("::Some"):
                        evn = v[3][0][2].split("::")[-1]
                        somes[evn] = pc
                    else:
                        somes["None"] = pc
        ptq = ("call", "srtla_protocol::get_packet_type", (("param", 3),), None, "srtla_protocol::types::get_packet_type")
        ptvq = ("field", ("as", ptq, "Some"), "core::option::Option", "0")
        want = {"RegNgp": 0x9211, "Reg2": 0x9201, "Reg3": 0x9202, "RegErr": 0x9210}
        ok = set(somes) == set(want) | {"None"}
        if ok:
            for evn, code in want.items():
                eq = type_is(ppa, code)
                isn = ppa.bdd.NOT(ppa.is_atom(("is", ptq, "None")))
                ok = ok and ppa.equivalent(somes[evn], ppa.bdd.AND(isn, eq))
        ctx.chk.ob("D1", "a datagram is a registration reply iff its type is REG_NGP / REG2 / REG3 / REG_ERR", ok, "%s" % sorted(somes), key="D1:registration-types")


def d2_identity(ctx):
    f = ctx.fn(PUP, "D2")
    if f:
        fa = ctx.fa(f)
        data = up(f, "data")
        for (bb, t, v) in _forward_pushes(ctx, f, fa):
            core = v
            while core[0] == "old":
                core = core[1]
            if is_call(core, name_contains="Clone>::clone") or is_call(core, name_contains="::clone"):
                core = core[2][0]
                while core[0] == "old":
                    core = core[1]
            ok = is_call(core, name_contains="from_slice_copy") and core[2] == (data,)
            ctx.chk.ob("D2", "what is queued for the client is a copy of the whole received datagram", ok, "pushed %s" % show(v, f.names)[:160], key="D2:pushed-copy-of-data", loc=t.get("loc"))
        ctx.chk.ob("D2", "process_uplink_packet has no unsafe block", not f.unsafe_block, "", key="D2:no-unsafe:%s" % PUP)
        # the ACK fast path sends the same copy
        for (bb, t) in f.calls():
            if t["f"].get("path", "").endswith("UdpSocket::try_send_to"):
                v = fa.val_operand(t["args"][1], (bb, len(f.blocks[bb]["stmts"])))
                ok = any(is_call(x, name_contains="from_slice_copy") and x[2] == (data,) for x in walk(v))
                ctx.chk.ob("D2", "the ACK fast path sends the same bytes", ok, show(v, f.names)[:160], key="D2:fast-path-bytes", loc=t.get("loc"))
    h = ctx.fn(HUP, "D2")
    if h:
        fa = ctx.fa(h)
        for (bb, t) in calls_to(h, stable="srtla_send::sender::uplink_recv::process_uplink_packet"):
            v = fa.val_operand(t["args"][6], (bb, len(h.blocks[bb]["stmts"])))
            ok = any(is_field(x, "bytes") for x in walk(v)) and any(x == up(h, "packet") for x in walk(v))
            ctx.chk.ob("D2", "the processed slice is the reader's packet.bytes", ok, show(v, h.names)[:160], key="D2:data-is-packet-bytes", loc=t.get("loc"))


def d3_delivery(ctx):
    h = ctx.fn(HUP, "D3")
    if h:
        pa = ctx.pa(h)
        cfg = ctx.cfg(h)
        pu = calls_to(h, stable="srtla_send::sender::uplink_recv::process_uplink_packet")
        ce = calls_to(h, stable="srtla_send::sender::packet_handler::process_connection_events")
        ok = len(pu) == 1 and len(ce) == 1
        if ok:
            arms = result_arms(h, pa.fa, lambda e: is_awaited_result_of(e, "srtla_send::sender::uplink_recv::process_uplink_packet"))
            okarm = [a["Ok"] for (sb, a) in arms if "Ok" in a and "Err" in a]
            # every path from the Ok arm to return passes the process_connection_events call
            ok = bool(okarm) and all(not [r for r in cfg.returns if r in cfg.reach_from(o, avoid={ce[0][0]})] for o in okarm)
            inc = pa.fa.val_operand(ce[0][1]["args"][6], (ce[0][0], len(h.blocks[ce[0][0]]["stmts"])))
            ok = ok and any(is_call(x, stable="srtla_send::sender::uplink_recv::process_uplink_packet") or x[0] == "var" for x in walk(inc))
        ctx.chk.ob("D3", "a processed datagram's effects always reach process_connection_events", ok, "", key="D3:ok-reaches-events")
    f = ctx.fn(PCE, "D3")
    if f:
        pa = ctx.pa(f)
        cfg = ctx.cfg(f)
        sends = [(bb, t) for (bb, t) in f.calls() if t["f"].get("path", "").endswith("UdpSocket::send_to")]
        ok = len(sends) == 1
        detail = ""
        if ok:
            bb, t = sends[0]
            nst = len(f.blocks[bb]["stmts"])
            pkt = pa.fa.val_operand(t["args"][1], (bb, nst))
            dst = pa.fa.val_operand(t["args"][2], (bb, nst))
            lca = up(f, "last_client_addr")
            from_q = any(is_field(x, "forward_to_client", INC) for x in walk(pkt)) and any(is_iter_next(x) for x in walk(pkt))
            to_client = dst == ("field", ("as", lca, "Some"), "core::option::Option", "0")
            loops = [h for h in cfg.loop_heads() if bb in cfg.loop_body(h)]
            outer = max(loops, key=lambda h: len(cfg.loop_body(h))) if loops else None
            rel = pa.bdd.simplify(pa.pc_block(bb), pa.pc_block(outer)) if outer is not None else pa.pc_block(bb)
            only_iter = all(any(is_iter_next(x) for x in walk(a)) for a in pa.atoms_of(rel))
            # the loop itself is entered whenever a client address is known
            pa2 = PathA(ctx.w, f, avoid={outer}) if outer is not None else pa
            some = pa2.bdd.NOT(pa2.is_atom(("is", lca, "None")))
            early = []
            idx_oob = pa2.lit(("bin", "Le", ("call", "core::slice::<impl [T]>::len", (up(f, "connections"),), None, None), up(f, "idx"), "usize"))
            pcr = pa2.pc_return()
            # returns that bypass the loop: no client, index out of range, or the all-empty early exit
            empt = [fm for (a, fm) in pa2.find(lambda a: is_call(a, name_contains="::is_empty") and is_field(a[2][0], "forward_to_client", INC))]
            allowed = pa2.bdd.OR(pa2.bdd.NOT(some), pa2.bdd.OR(idx_oob, empt[0] if empt else pa2.bdd.FALSE))
            ok = from_q and to_client and only_iter and pa2.entails(pcr, allowed)
            detail = "bypass under %s" % pa2.show(pcr, 4)[:300]
        ctx.chk.ob("D3", "every queued datagram is sent to the client address once one is known (skipped only with nothing queued / bad index)", ok, detail, key="D3:forward-loop")


def d4_stamps(ctx, rule="D4"):
    f = liveness_stamp(ctx, rule)
    if not f:
        return
    pa = ctx.pa(f)
    cfg = ctx.cfg(f)
    fa = pa.fa
    conn = up(f, "conn")
    proof_stamps(ctx, rule, f, pa, cfg, fa, conn)


def liveness_stamp(ctx, rule="D4"):
    """Every datagram that is not a registration reply refreshes `last_received` (shared with C08.D2: a link that keeps hearing
    anything - data, ACKs, keepalive echoes with or without an RTT sample - is never declared silent)."""
    f = ctx.fn(PUP, rule)
    if not f:
        return None
    pa = ctx.pa(f)
    fa = pa.fa
    # every non-registration path stamps last_received := Some(now)
    stamps = []
    for (bb, si, s) in field_stores(f, CONN, "last_received"):
        v = fa.val_rvalue(s["rv"], (bb, si))
        if v[0] == "agg" and v[2].endswith("::Some") and is_call(v[3][0], name_contains="now_ms"):
            stamps.append((bb, si))
    data = up(f, "data")
    pt = ("call", "srtla_protocol::get_packet_type", (data,), None, "srtla_protocol::types::get_packet_type")
    pa2 = PathA(ctx.w, f, avoid=set(bb for (bb, si) in stamps))
    ev = [a for a in pa2.bdd.vars if a[0] == "is" and is_call(a[1], stable=REGM + "::process_registration_packet")]
    reg = pa2.bdd.NOT(pa2.is_atom(("is", ev[0][1], "None"))) if ev else pa2.bdd.FALSE
    none = pa2.is_atom(("is", pt, "None"))
    ok = bool(stamps) and pa2.entails(pa2.pc_return(), pa2.bdd.OR(reg, none))
    ctx.chk.ob(rule, "every datagram of >= 2 bytes that is not a registration reply refreshes the liveness stamp", ok, "%d stamp sites" % len(stamps), key="%s:liveness-stamp" % rule)
    return f


def proof_stamps(ctx, rule, f, pa, cfg, fa, conn):
    data = up(f, "data")
    pt = ("call", "srtla_protocol::get_packet_type", (data,), None, "srtla_protocol::types::get_packet_type")
    # delivery proof: non-zero only at the two sites
    eff = ctx.eff
    fld = "last_ack_or_rtt_sample_ms"
    ctx.WHO_WRITES(rule, CONN, fld, {CONN + "::handle_srtla_ack_specific", CONN + "::reset_core_state", PUP}, floor=3, allow_agg_in={CONN + "::new_registering"})
    for a in eff.writers_of(CONN, fld, ("store",), include_inner=False):
        g = a.fn
        gpa = ctx.pa(g)
        s = g.blocks[a.bb]["stmts"][a.si]
        v = gpa.fa.val_rvalue(s["rv"], (a.bb, a.si))
        pc = gpa.pc_at(a.bb, a.si)
        if g.stable == CONN + "::reset_core_state":
            ctx.chk.ob(rule, "the link reset clears delivery proof", v == ("const", 0, "u64"), show(v), key="%s:proof-reset" % rule, loc=a.loc)
        elif g.stable == CONN + "::handle_srtla_ack_specific":
            found = some_of(gpa, lambda x: is_call(x, name_contains="HashMap::<K, V, S, A>::remove"))
            ok = bool(found) and gpa.entails(pc, found[0][1]) and v == ("param", 4)
            ctx.chk.ob(rule, "an SRTLA ACK counts as delivery proof only if this link held the packet", ok, "PC = %s" % gpa.show(pc), key="%s:proof-earned-ack" % rule, loc=a.loc)
        elif g.stable == PUP:
            ka = some_of(gpa, lambda x: is_call(x, name_contains="handle_keepalive_response"))
            okk = bool(ka) and gpa.entails(pc, ka[0][1])
            ptv = ("field", ("as", pt, "Some"), "core::option::Option", "0")
            iska = type_is(gpa, 0x9000)
            okk = okk and gpa.entails(pc, iska)
            ctx.chk.ob(rule, "a keepalive counts as delivery proof only if it answered an outstanding probe", okk, "PC = %s" % gpa.show(pc, 3)[:300], key="%s:proof-answered-keepalive" % rule, loc=a.loc)
        else:
            ctx.chk.ob(rule, "no other site stamps delivery proof", False, g.stable, key="%s:proof-other-writer:%s" % (rule, g.stable), loc=a.loc)


def d3b_every_dequeued_datagram_is_processed(ctx):
    """At least once: a datagram taken out of the reader queue is handed to handle_uplink_packet on every path (a budget / shutdown
    test must come before the dequeue, not after it)."""
    HU = "srtla_send::sender::packet_handler::handle_uplink_packet"
    n = 0
    for f in ctx.w.fns.values():
        if "::tests" in f.stable or f.crate not in ctx.w.local_crates:
            continue
        recvs = [(bb, t) for (bb, t) in f.calls() if "UnboundedReceiver::<T>::try_recv" in t["f"].get("path", "") and "UplinkPacket" in " ".join(t["f"].get("substs", []) + [t.get("dty", "") or ""])]
        if not recvs:
            continue
        fa = ctx.fa(f)
        cfg = ctx.cfg(f)
        hs = set(bb for (bb, t) in calls_to(f, stable=HU))
        for (rb, rt) in recvs:
            n += 1
            arms = [a for (sb, a) in result_arms(f, fa, lambda e: is_call(strip_old(e), name_contains="try_recv")) if "Ok" in a]
            ok = len(arms) >= 1 and bool(hs)
            det = ""
            if ok:
                okb = arms[0]["Ok"]
                lost = cfg.can_reach(okb, rb, avoid=hs) or [r for r in cfg.returns if cfg.can_reach(okb, r, avoid=hs)]
                ok = not lost
                det = "" if ok else "a dequeued datagram can reach the next dequeue / the return without being handled"
            ctx.chk.ob("D3", "%s: every datagram taken from the reader queue is handed to handle_uplink_packet" % sname(f.stable), ok, det,
                       key="D3:dequeued-is-processed:%s" % f.stable, loc=rt.get("loc"))
    ctx.chk.floor("D3", "try_recv sites on the uplink packet queue", n, 1)
    # the event loop's own receive arm: `if let Some(packet) = packet_rx.recv().await { handle_uplink_packet(packet, ..) }`
    m = 0
    for f in ctx.w.fns.values():
        if not (f.stable.startswith("srtla_send::sender::run_sender_with_config") and f.kind == "coroutine" and calls_to(f, stable=HU)):
            continue
        cfg = ctx.cfg(f)
        hs = set(bb for (bb, t) in calls_to(f, stable=HU))
        for bi, blk in enumerate(f.blocks):
            if blk["cleanup"]:
                continue
            for st in blk["stmts"]:
                if st["k"] == "assign" and st["rv"]["k"] == "discr" and (st["rv"].get("pty") or "").replace(" ", "").endswith("Option<sender::uplink::UplinkPacket>"):
                    t = blk["term"]
                    if t["k"] != "switch":
                        continue
                    m += 1
                    some = [tgt for (val, tgt) in t["targets"] if val == 1] or [t["otherwise"]]
                    okb = some[0]
                    heads = [h for h in cfg.loop_heads() if bi in cfg.loop_body(h)]
                    lost = any(cfg.can_reach(okb, h, avoid=hs) for h in heads) or [r for r in cfg.returns if cfg.can_reach(okb, r, avoid=hs)]
                    ctx.chk.ob("D3", "the event loop hands every datagram it receives from the reader queue to handle_uplink_packet", not lost, "", key="D3:received-is-processed",
                               loc=st.get("loc"))
    ctx.chk.floor("D3", "receive arms of the event loop on the uplink packet queue", m, 1)


RULES = [d1_exact_dispatch, d2_identity, d3_delivery, d3b_every_dequeued_datagram_is_processed, d4_stamps]


def run(ctx):
    ctx.chk.not_decided = ["that the OS delivers the send_to; 'at least once' is decided as 'handed to send_to / try_send_to at least once when a client address is known'"]
    from . import panicfree
    ctx.run_rules(RULES + [panicfree.c09_d5])
