#!/usr/bin/env python3
"""Regenerate /verif/MANIFEST.json from the table below (one entry per claimed property)."""
import json
import os

HERE = os.path.dirname(os.path.dirname(os.path.abspath(__file__)))

BASELINE = ("cd /repo && cargo nextest run --workspace --no-fail-fast --tool-config-file pb:/w/lib/nextest.toml "
            "--profile pb --test-threads 8 --offline || (cd /repo && cargo test --workspace --no-fail-fast --offline)")

TRUSTED = ("Trusted base: rustc nightly's MIR construction and Instance resolution, the mirfacts serialiser, the "
           "analyser's transfer functions / std summaries; non-workspace crates are assumed total and to write "
           "workspace state only through what they are handed. Only cfg(unix) x86-64 Linux builds are analysed.")

# id -> (category, technique, text, design_ref, note)
CLAIMS = {}


def claim(pid, category, technique, text, ref, note=""):
    CLAIMS[pid] = (category, technique, text, ref, note)


claim("C12", "proof",
      "interprocedural effect analysis (transitive field write/read sets over resolved MIR call graph) + path-condition entailment on the guard-off branch",
      "Non-interference and guard-off == baseline are decided for every history at once: the transitive write set "
      "of select_connection_idx over all 48 reachable bodies contains only guard-private routing fields (plus the "
      "timeout copy and the quality cache), no whole-connection overwrite and only element-access foreign APIs; the "
      "!stall_deselect branch provably stores false/0 to flag, pull and both latch stamps for every element and "
      "reaches no update call; the selectors read only `stall_gated` of guard state and run after the gate.",
      "DESIGN.md 5 C12", "")

NOT_APPLICABLE = {}
ALL = ["C%02d" % i for i in range(1, 21)]


def main():
    checks = []
    for pid in ALL:
        if pid not in CLAIMS:
            continue
        cat, tech, text, ref, note = CLAIMS[pid]
        checks.append({
            "property_id": pid,
            "quick_cmd": "./check %s --tier quick" % pid,
            "thorough_cmd": "./check %s --tier thorough" % pid,
            "evidence_file": "/verif/evidence/%s.json" % pid,
            "replay_cmd_template": "./check %s --replay {path}" % pid,
            "engine": "sa",
            "level_claimed": {"category": cat, "text": text, "design_ref": ref},
            "level_note": (note + " " if note else "") + TRUSTED,
            "technique": tech,
        })
    na = []
    for pid in ALL:
        if pid in CLAIMS:
            continue
        na.append({"property_id": pid, "reason": NOT_APPLICABLE.get(
            pid, "static check for this property is still under construction in this build session; no claim is made yet")})
    m = {
        "version": 1,
        "setup_cmd": "./setup.sh",
        "hooks": {
            "guard": "none",
            "enable": "no source hooks: the analysis reads the unmodified program's MIR (cargo +nightly check with /verif/driver as RUSTC_WORKSPACE_WRAPPER)",
            "baseline_off_cmd": BASELINE,
            "source_commits": [],
            "add_only": True,
        },
        "engines": [
            {"name": "mirfacts", "path": "/verif/driver", "serves_properties": sorted(CLAIMS),
             "kind_free_text": "rustc_private fact extractor: type-checked pre-borrowck MIR of every body of every workspace crate unit, resolved callees, ADTs, evaluated constants"},
            {"name": "sa", "path": "/verif/sa", "serves_properties": sorted(CLAIMS),
             "kind_free_text": "static analyser (stdlib Python): CFG/dominators, call graph and field effect sets, value reconstruction, BDD path conditions, interval abstract interpretation, panic reachability, coroutine witnesses, codec/aggregate tables"},
        ],
        "checks": checks,
        "not_applicable": na,
        "notes": "Technique family: static analysis only. Every check re-extracts facts from /repo's current working tree (content-hash cache) and never executes repository code. See DESIGN.md.",
    }
    with open(os.path.join(HERE, "MANIFEST.json"), "w") as f:
        json.dump(m, f, indent=1)
    print("MANIFEST.json: %d checks, %d not_applicable" % (len(checks), len(na)))


if __name__ == "__main__":
    main()
