"""C06 - congestion windows stay in range and move in the right direction.

D1 writer set of `SrtlaConnection.window` (the field is pub: discovered over the whole workspace, incl. stores
   through `&mut self.window` handed to `congestion::*`);
D2 inductive range: entry `window in [1000, 60000]` => every writer exits with `window in [1000, 60000]`;
   constructor and resets store exactly 20000;
D3 direction: every store in the NAK writer is <= the entry value, every store in the ACK writers and in
   time-based recovery is >= the entry value (symbolic comparison against the entry symbol);
D4 fast recovery entered only at window <= 2000, left only at window >= 12000 or in `CongestionControl::reset`;
D5 classic mode never calls time-based recovery;
D6 constants.
"""
from ..absint import AbsInt, Bool, Entry, Num, Ptr
from ..ctx import CONN, sname
from ..expr import show
from ..pathcond import calls_to
from ..ptrflow import direct_param_stores, pointer_receivers

from ..roles import upvar_index  # noqa: E402

LEVEL = "proof"
CC = "srtla_core::connection::congestion::CongestionControl"
LO, HI, DEF = 1000, 60000, 20000

DIRECT_WRITERS = {CONN + "::handle_srtla_ack_global", CONN + "::reset_core_state"}
BORROWERS = {CONN + "::handle_nak", CONN + "::handle_srtla_ack_specific", CONN + "::perform_window_recovery"}
NAK_FAMILY = ("handle_nak",)


def W():
    return Num("i32", LO, HI, False, ("s", "w"))


def window_writers(ctx):
    """[(fn, how)] how = ('self',) for methods on the connection, ('ptr', local) for `window: &mut i32` receivers."""
    eff = ctx.eff
    out = []
    seen = set()
    for a in eff.writers_of(CONN, "window", ("store", "callstore", "mutborrow")):
        if a.fn.id not in seen:
            seen.add(a.fn.id)
            out.append((a.fn, ("self",)))
    recv, ext = pointer_receivers(ctx.w, CONN, "window")
    for (cid, l) in sorted(recv):
        out.append((ctx.w.fns[cid], ("ptr", l)))
    return out, ext


def d1_writers(ctx):
    ctx.WHO_WRITES("D1", CONN, "window", DIRECT_WRITERS | BORROWERS, floor=5,
                   allow_agg_in={CONN + "::new_registering"})
    writers, ext = window_writers(ctx)
    for (fn, bb, t, ai) in ext:
        ctx.chk.ob("D1", "&mut window never reaches foreign code (%s)" % sname(fn.stable), False,
                   "passed to %s" % t["f"].get("path"), key="D1:window-ptr-to-foreign:%s" % fn.stable, loc=t.get("loc"))
    nptr = sum(1 for (_f, how) in writers if how[0] == "ptr")
    ctx.chk.floor("D1", "functions receiving &mut window", nptr, 5)
    # whole-connection overwrites would bypass the field: only constructors may build a connection
    ww = ctx.eff.whole_writes.get(CONN, [])
    ctx.chk.ob("D1", "no whole-connection overwrite through a reference anywhere", not ww,
               "; ".join("%s at %s" % (a.fn.stable, a.loc) for a in ww[:3]), key="D1:whole-conn-write")


def _run(ctx, fn, how, snapshot=False):
    ai = AbsInt(ctx.w)
    ai.snapshot_stores = snapshot
    e = Entry().sym("w", LO, HI)
    if how[0] == "self":
        e.pointee(1, W(), (("f", "window"),))
    else:
        e.pointee(how[1], W())
    ai.run(fn, e)
    cell = (ai.top_frame, 1, ("deref", ("f", "window"))) if how[0] == "self" else (ai.top_frame, how[1], ("deref",))
    return ai, cell


def d2_d3_range_and_direction(ctx):
    writers, _ = window_writers(ctx)
    ctx.chk.floor("D2", "window writer bodies analysed", len(writers), 9)
    # "returns to 20000 whenever the link is torn down for recovery or reconnect": every entry point of a link reset (the callers of
    # reset_core_state) leaves exactly the default on every path, whatever the window was
    rc = ctx.w.fn(CONN + "::reset_core_state")
    if rc is not None:
        entry_points = sorted(set(c.stable for (c, bb, t) in ctx.eff.callers_of(rc.id) if "::tests" not in c.stable))
        ctx.chk.floor("D2", "link reset entry points (callers of reset_core_state)", len(entry_points), 2)
        for st in entry_points:
            g = ctx.w.fn(st)
            if g is None or not (g.argc >= 1 and "SrtlaConnection" in g.locals[1]["ty"]):
                ctx.chk.ob("D2", "%s: a link reset entry point that can be analysed" % sname(st), False, "", key="D2:teardown-default:%s" % st)
                continue
            ai, cell = _run(ctx, g, ("self", 1))
            ex = ai.exit_mem.get(cell)
            ctx.chk.ob("D2", "%s: every path leaves the window at %d" % (sname(st), DEF), isinstance(ex, Num) and ex.lo == ex.hi == DEF, "entry [1000, 60000] -> exit %r" % (ex,),
                       key="D2:teardown-default:%s" % st, loc=g.loc)
    for (fn, how) in writers:
        ai, cell = _run(ctx, fn, how)
        ex = ai.exit_mem.get(cell)
        name = sname(fn.stable)
        is_reset = fn.stable == CONN + "::reset_core_state"
        stores = [s for s in ai.stores if s.cell == cell]
        if ex is None:
            # never stored on any path: unchanged
            ex = W()
        ok = isinstance(ex, Num) and ex.lo >= LO and ex.hi <= HI
        ctx.chk.ob("D2", "%s: exit window within [%d, %d]" % (name, LO, HI), ok, "entry [1000, 60000] -> exit %r over %d store(s)" % (ex, len(stores)),
                   key="D2:range:%s" % fn.stable, loc=fn.loc)
        if is_reset:
            okr = isinstance(ex, Num) and ex.lo == ex.hi == DEF
            ctx.chk.ob("D2", "%s: window reset to %d" % (name, DEF), okr, "exit %r" % ex, key="D2:reset-default:%s" % fn.stable)
            continue
        nak = any(n in fn.stable.rsplit("::", 1)[-1] for n in NAK_FAMILY)
        for s in stores:
            v = s.value
            if not isinstance(v, Num) or v.sym is None:
                ctx.chk.ob("D3", "%s: stored window value is expressible over the entry value" % name, False,
                           "stored %r" % (v,), key="D3:direction:%s" % fn.stable, loc=s.loc)
                continue
            if nak:
                ok = ai.symenv.le(v.sym, ("s", "w"))
                what = "<= entry (a NAK never increases the window)"
            else:
                ok = ai.symenv.le(("s", "w"), v.sym)
                what = ">= entry (an ACK / recovery never decreases the window)"
            ctx.chk.ob("D3", "%s: stored window %s" % (name, what), ok, "stored %r" % (v,),
                       key="D3:direction:%s" % fn.stable, loc=s.loc)
        # overflow asserts on the window arithmetic are discharged by the entry range
        bad = [o for o in ai.obligations if o.kind.startswith("assert:") and not o.ok and o.fn.stable.startswith("srtla_core::connection::congestion")]
        ctx.chk.ob("D2", "%s: window arithmetic cannot overflow from an in-range window" % name, not bad,
                   "; ".join("%s %s at %s" % (o.kind, o.detail, o.loc) for o in bad[:3]), key="D2:no-overflow:%s" % fn.stable)
    # constructor value
    nr = ctx.fn(CONN + "::new_registering", "D2")
    if nr:
        ai = AbsInt(ctx.w)
        ret, _ = ai.run(nr, Entry())
        v = None
        from ..absint import Tup
        if isinstance(ret, Tup) and ret.tag and "window" in ret.tag:
            v = ret.items[ret.tag.index("window")]
        ctx.chk.ob("D2", "a new connection starts at window %d" % DEF, isinstance(v, Num) and v.lo == v.hi == DEF, "constructed %r" % (v,),
                   key="D2:constructor-default")


def d4_fast_recovery(ctx):
    eff = ctx.eff
    ctx.WHO_WRITES("D4", CC, "fast_recovery_mode",
                   {CC + "::reset", CC + "::handle_nak", CC + "::handle_srtla_ack_enhanced", CC + "::perform_window_recovery"}, floor=4,
                   allow_agg_in=None)
    # analyse the connection-level entry points: every store to fast_recovery_mode with the window at that moment
    entry_points = [CONN + "::handle_nak", CONN + "::handle_srtla_ack_specific", CONN + "::perform_window_recovery"]
    n_true = n_false = 0
    for st in entry_points:
        fn = ctx.fn(st, "D4")
        if not fn:
            continue
        ai, wcell = _run(ctx, fn, ("self",), snapshot=True)
        frm = (ai.top_frame, 1, ("deref", ("f", "congestion"), ("f", "fast_recovery_mode")))
        for s in ai.stores:
            if s.cell != frm:
                continue
            v = s.value
            w = s.snap.get(wcell) if s.snap is not None else None
            if not isinstance(w, Num):
                w = W()
            if isinstance(v, Bool) and v.t and not v.f:
                n_true += 1
                ctx.chk.ob("D4", "fast recovery entered only at window <= 2000 (%s)" % sname(s.fn.stable), w.hi <= 2000,
                           "window at the store: %r" % w, key="D4:enter-threshold:%s" % s.fn.stable, loc=s.loc)
            elif isinstance(v, Bool) and v.f and not v.t:
                n_false += 1
                ctx.chk.ob("D4", "fast recovery left only at window >= 12000 (%s)" % sname(s.fn.stable), w.lo >= 12000,
                           "window at the store: %r" % w, key="D4:leave-threshold:%s" % s.fn.stable, loc=s.loc)
            else:
                ctx.chk.ob("D4", "fast_recovery_mode store has a definite value (%s)" % sname(s.fn.stable), False, "stored %r" % (v,),
                           key="D4:indefinite-store:%s" % s.fn.stable, loc=s.loc)
    ctx.chk.floor("D4", "fast_recovery_mode := true stores analysed", n_true, 1)
    ctx.chk.floor("D4", "fast_recovery_mode := false stores analysed", n_false, 2)
    ctx.WHO_CALLS("D4", CC + "::reset", {CONN + "::clear_pre_registration_state", CONN + "::reset_for_reconnect"}, floor=2)


def d5_classic_no_time_recovery(ctx):
    hk = ctx.fn("srtla_send::sender::housekeeping::handle_housekeeping::{closure#0}", "D5")
    if not hk:
        return
    ctx.WHO_CALLS("D5", CONN + "::perform_window_recovery", {hk.stable}, floor=1)
    pa = ctx.pa(hk)
    ci = [i for i in [upvar_index(hk, "classic")] if i is not None]
    sites = calls_to(hk, stable=CONN + "::perform_window_recovery")
    if len(ci) != 1 or not sites:
        ctx.chk.missing("D5", "handle_housekeeping: classic flag / recovery call", "")
        return
    CL = pa.atom(("upvar", ci[0]))
    for (bb, t) in sites:
        ctx.GUARD("D5", hk, bb, len(hk.blocks[bb]["stmts"]), [("!classic", pa.bdd.NOT(CL))], "perform_window_recovery call",
                  key="D5:recovery-guarded-by-not-classic")
    # what callers pass as `classic`
    hk_fn = "srtla_send::sender::housekeeping::handle_housekeeping"
    n = 0
    for (caller, bb, t) in ctx.eff.callers_of(ctx.w.fn(hk_fn).id if ctx.w.fn(hk_fn) else ""):
        if caller.unit.crate != "srtla_send" or "::tests::" in caller.stable:
            continue
        n += 1
        fa = ctx.fa(caller)
        v = fa.val_operand(t["args"][3], (bb, len(caller.blocks[bb]["stmts"])))
        ok = v[0] == "call" and v[1].endswith("::is_classic") and v[2] and v[2][0][0] == "call" and v[2][0][1].endswith("::mode")
        ctx.chk.ob("D5", "housekeeping's classic flag is config.mode().is_classic()", ok, "argument %s" % show(v, caller.names)[:160],
                   key="D5:classic-flag-value:%s" % caller.stable, loc=t.get("loc"))
    ctx.chk.floor("D5", "production callers of handle_housekeeping", n, 2)


def d6_constants(ctx):
    P = "srtla_protocol::constants::"
    for name, v in (("WINDOW_MIN", 1), ("WINDOW_DEF", 20), ("WINDOW_MAX", 60), ("WINDOW_MULT", 1000), ("WINDOW_DECR", 100), ("WINDOW_INCR", 30)):
        ctx.CONST("D6", P + name, v)
    ctx.CONST("D6", "srtla_core::connection::congestion::enhanced::FAST_RECOVERY_DISABLE_WINDOW", 12000)


RULES = [d1_writers, d2_d3_range_and_direction, d4_fast_recovery, d5_classic_no_time_recovery, d6_constants]


def run(ctx):
    ctx.chk.not_decided = ["nothing in the statement: 'at all times' is decided as 'at every function boundary of every writer', "
                           "which with &mut exclusivity is every observable instant"]
    ctx.chk.assumptions = ["in-flight counts and clocks are arbitrary (full type range)",
                           "overflow checks are those of the analysed profile"]
    ctx.run_rules(RULES)
