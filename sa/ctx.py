"""Rule context: worlds + engines + the obligation recorder, and the rule primitives of DESIGN.md 3.8."""
from .cfg import cfg_of
from .effects import effects_of
from .expr import fna_of, show, walk
from .pathcond import PathA, patha_of

CONN = "srtla_core::connection::SrtlaConnection"


def sname(stable):
    """Short display name of a stable function name."""
    return stable.split("::", 1)[-1] if "::" in stable else stable


class Ctx:
    def __init__(self, worlds, chk, tier="quick", config="prod"):
        self.worlds = worlds
        self.chk = chk
        self.tier = tier
        self.config = config
        self.w = None
        self.baseline = None   # {world name: stable names of the production build} when analysing another feature set

    def feature_only(self, stable):
        """The body exists only because of a non-production cargo feature (not in the production build of this world)."""
        return self.baseline is not None and self.w is not None and stable not in self.baseline.get(self.w.name, set())

    # iteration -----------------------------------------------------------------
    def each_world(self):
        for w in self.worlds:
            self.w = w
            self.chk.set_world(w)
            yield w
        self.w = None
        self.chk.set_world(None)

    def run_rules(self, rules, core_only=()):
        """Evaluate every rule function in every world; a rule that cannot be evaluated fails closed."""
        import traceback
        for w in self.each_world():
            for r in rules:
                try:
                    r(self)
                except Exception as e:  # the code no longer has the shape the rule is written against
                    tb = traceback.format_exc().strip().splitlines()
                    self.chk.ob(r.__name__, "rule evaluation", False,
                                "rule could not be evaluated on this tree (%s: %s) %s" % (type(e).__name__, e, " | ".join(tb[-3:])),
                                key="%s:rule-not-evaluable" % r.__name__, kind="anchor")

    @property
    def eff(self):
        return effects_of(self.w)

    def pa(self, fn):
        return patha_of(self.w, fn)

    def fa(self, fn):
        return fna_of(self.w, fn)

    def cfg(self, fn):
        return cfg_of(fn)

    # anchors -------------------------------------------------------------------
    def fn(self, stable, rule):
        """Anchor lookup by stable name; fails closed."""
        f = self.w.fn(stable)
        if f is None:
            n = len(self.w.by_stable.get(stable, []))
            self.chk.missing(rule, stable, "function not found in world %s (%d candidates)" % (self.w.name, n))
        return f

    def closures(self, fn):
        return self.w.closures_of(fn)

    def const(self, cid, rule):
        v = self.w.const(cid)
        if v is None:
            self.chk.missing(rule, cid, "constant not found")
        return v

    # primitives ----------------------------------------------------------------
    def CONST(self, rule, cid, expected):
        v = self.const(cid, rule)
        if v is None:
            return False
        return self.chk.ob(rule, "const:" + cid.split("::")[-1], v == expected,
                           "%s = %r (required %r)" % (cid, v, expected), key="%s:const:%s" % (rule, cid))

    def WHO_WRITES(self, rule, adt, field, allowed, floor=1, kinds=("store", "callstore", "mutborrow", "setdiscr"),
                   include_inner=True, allow_agg_in=None):
        """Every function that stores to / mutably borrows adt.field is in `allowed` (set of stable names).

        Struct literals (`agg`) are constructors; they are accepted in `allow_agg_in` (None = anywhere).
        """
        eff = self.eff
        acc = eff.writers_of(adt, field, kinds + ("agg",), include_inner)
        fns = {}
        for a in acc:
            fns.setdefault(a.fn.stable, []).append(a)
        ok_all = True
        n = 0
        for st, lst in sorted(fns.items()):
            kinds_here = sorted(set(a.kind for a in lst))
            only_agg = kinds_here == ["agg"]
            if only_agg:
                ok = allow_agg_in is None or st in allow_agg_in
            else:
                ok = st in allowed
                n += 1
            if not ok and self.feature_only(st):
                self.chk.ob(rule, "writer:%s.%s:%s" % (adt.split("::")[-1], field, sname(st)), True,
                            "%s exists only under a non-production cargo feature (%s build); not part of the program the property speaks about" % (st, self.config),
                            key="%s:writer:%s.%s:%s" % (rule, adt.split("::")[-1], field, st), loc=lst[0].loc, nontrivial=False, kind="info")
                continue
            ok_all &= self.chk.ob(rule, "writer:%s.%s:%s" % (adt.split("::")[-1], field, sname(st)), ok,
                                  "%s writes %s.%s (%s)%s" % (st, adt.split("::")[-1], field, ",".join(kinds_here),
                                                              "" if ok else " - not an accepted writer"),
                                  key="%s:writer:%s.%s:%s" % (rule, adt.split("::")[-1], field, st), loc=lst[0].loc)
        self.chk.floor(rule, "writers:%s.%s" % (adt.split("::")[-1], field), n, floor)
        return ok_all

    def WHO_CALLS(self, rule, callee_stable, allowed, floor=1):
        f = self.fn(callee_stable, rule)
        if f is None:
            return False
        sites = self.eff.callers_of(f.id)
        ok_all = True
        for (caller, bb, t) in sites:
            ok = caller.stable in allowed
            if not ok and self.feature_only(caller.stable):
                self.chk.ob(rule, "caller:%s<-%s" % (sname(callee_stable), sname(caller.stable)), True,
                            "%s exists only under a non-production cargo feature (%s build)" % (caller.stable, self.config),
                            key="%s:caller:%s:%s" % (rule, callee_stable, caller.stable), loc=t.get("loc"), nontrivial=False, kind="info")
                continue
            ok_all &= self.chk.ob(rule, "caller:%s<-%s" % (sname(callee_stable), sname(caller.stable)), ok,
                                  "%s calls %s%s" % (caller.stable, callee_stable, "" if ok else " - not an accepted caller"),
                                  key="%s:caller:%s:%s" % (rule, callee_stable, caller.stable), loc=t.get("loc"))
        self.chk.floor(rule, "callers:%s" % sname(callee_stable), len(sites), floor)
        return ok_all

    def EFFECT_W_SUBSET(self, rule, fn, allowed_keys, what=None):
        """W(fn) (transitive stores and &mut borrows of workspace ADT fields) is within allowed_keys."""
        W = self.eff.W(fn.id)
        ok_all = True
        for k in sorted(W):
            ok = k in allowed_keys
            ok_all &= self.chk.ob(rule, "W(%s) has %s.%s" % (sname(fn.stable), k[0].split("::")[-1], k[1]), ok,
                                  "" if ok else self._why_written(fn, k),
                                  key="%s:effect-w:%s:%s.%s" % (rule, fn.stable, k[0], k[1]))
        return ok_all

    def _why_written(self, fn, key):
        reach = self.eff.reachable(fn.id)
        outs = []
        for a in self.eff.writes.get(key, []):
            if a.fn.id in reach and a.kind != "agg":
                outs.append("%s at %s (%s)" % (a.fn.stable, a.loc, a.kind))
        return "written in the call tree of %s: %s" % (fn.stable, "; ".join(outs[:4]))

    def EFFECT_W_DISJOINT(self, rule, fn, forbidden_pred, what):
        """No key of W(fn) satisfies forbidden_pred. One obligation per forbidden key present + one summary."""
        W = self.eff.W(fn.id)
        bad = [k for k in sorted(W) if forbidden_pred(k)]
        for k in bad:
            self.chk.ob(rule, "W(%s) must not contain %s.%s" % (sname(fn.stable), k[0].split("::")[-1], k[1]), False,
                        self._why_written(fn, k), key="%s:effect-w:%s:%s.%s" % (rule, fn.stable, k[0], k[1]))
        return self.chk.ob(rule, "W(%s) disjoint from %s" % (sname(fn.stable), what), not bad,
                           "|W| = %d keys over %d reachable bodies" % (len(W), len(self.eff.reachable(fn.id))),
                           key="%s:effect-w-disjoint:%s" % (rule, fn.stable))

    def EFFECT_R_SUBSET(self, rule, fn, allowed_pred, what):
        R = self.eff.R(fn.id)
        bad = [k for k in sorted(R) if not allowed_pred(k)]
        for k in bad:
            self.chk.ob(rule, "R(%s) must not contain %s.%s" % (sname(fn.stable), k[0].split("::")[-1], k[1]), False,
                        self._why_read(fn, k), key="%s:effect-r:%s:%s.%s" % (rule, fn.stable, k[0], k[1]))
        return self.chk.ob(rule, "R(%s) within %s" % (sname(fn.stable), what), not bad,
                           "|R| = %d keys over %d reachable bodies" % (len(R), len(self.eff.reachable(fn.id))),
                           key="%s:effect-r-subset:%s" % (rule, fn.stable))

    def _why_read(self, fn, key):
        reach = self.eff.reachable(fn.id)
        outs = []
        for a in self.eff.reads.get(key, []):
            if a.fn.id in reach:
                outs.append("%s at %s" % (a.fn.stable, a.loc))
        return "read in the call tree of %s: %s" % (fn.stable, "; ".join(outs[:4]))

    def REACHES_NOT(self, rule, fn, path_pred, what):
        ext = self.eff.ext_callees_reached(fn.id)
        bad = sorted(p for p in ext if path_pred(p))
        for p in bad:
            self.chk.ob(rule, "%s reaches %s" % (sname(fn.stable), p), False, "forbidden callee reachable",
                        key="%s:reaches:%s:%s" % (rule, fn.stable, p))
        return self.chk.ob(rule, "%s reaches no %s" % (sname(fn.stable), what), not bad,
                           "%d foreign callees reachable" % len(ext), key="%s:reaches-not:%s" % (rule, fn.stable))

    # guards --------------------------------------------------------------------
    def GUARD(self, rule, fn, blk, idx, required, what, key=None):
        """PC(site) entails every (formula) in `required` (list of (label, bdd)). Returns ok."""
        pa = self.pa(fn)
        pc = pa.pc_at(blk, idx)
        ok_all = True
        for (label, f) in required:
            ok = pa.entails(pc, f)
            detail = "PC = %s" % pa.show(pc, 6)
            if not ok:
                detail = "site reachable with %s ; %s" % (pa.counterexample(pc, f), detail)
            ok_all &= self.chk.ob(rule, "%s requires %s" % (what, label), ok, detail,
                                  key=key or ("%s:guard:%s:%s:%s" % (rule, fn.stable, what, label)),
                                  loc=_loc(fn, blk, idx))
        return ok_all

    # atom search ---------------------------------------------------------------
    def find_atoms(self, pa, pred):
        """BDD variables (as formulas) whose atom expression satisfies pred(expr)."""
        out = []
        for i, a in enumerate(pa.bdd.vars):
            try:
                if pred(a):
                    out.append((a, pa.bdd.var(a)))
            except Exception:
                pass
        return out


def _loc(fn, blk, idx):
    b = fn.blocks[blk]
    if idx < len(b["stmts"]):
        return b["stmts"][idx].get("loc")
    return b["term"].get("loc")


# ---------------------------------------------------------------- expression matchers

def is_call(e, name_contains=None, stable=None):
    if not (isinstance(e, tuple) and e and e[0] == "call"):
        return False
    if stable is not None:
        return e[4] == stable
    if name_contains is not None:
        return name_contains in e[1]
    return True


def is_field(e, name, adt=None):
    return isinstance(e, tuple) and e and e[0] == "field" and e[3] == name and (adt is None or e[2] == adt)


def mentions_field(e, name, adt=None):
    for x in walk(e):
        if is_field(x, name, adt):
            return True
    return False


def mentions_call(e, stable=None, name_contains=None):
    for x in walk(e):
        if is_call(x, name_contains=name_contains, stable=stable):
            return True
    return False


def strip_casts(e):
    while isinstance(e, tuple) and e and e[0] == "cast":
        e = e[2]
    return e


def is_iter_next(e):
    return isinstance(e, tuple) and e and e[0] == "call" and e[1].endswith("::next") and "Iterator" in e[1]


def mentions_iter_next(e):
    return any(is_iter_next(x) for x in walk(e))


def result_arms(fn, fa, pred):
    """Switches on the discriminant of a Result/Option-like value whose expression satisfies pred(expr):
    [(switch bb, {variant name: target bb})]."""
    from .cfg import cfg_of
    from .expr import VARIANTS
    cfg = cfg_of(fn)
    out = []
    for bi, blk in enumerate(fn.blocks):
        t = blk["term"]
        if blk["cleanup"] or t["k"] != "switch":
            continue
        v = fa.val_operand(t["d"], (bi, len(blk["stmts"])))
        if v[0] != "discr" or not pred(v[1]):
            continue
        names = dict(VARIANTS.get(v[1], ()))
        vals, other = cfg.feasible_switch_values(bi)
        arms = {}
        listed = set()
        for (val, tgt) in vals:
            arms[names.get(val, val)] = tgt
            listed.add(val)
        if other is not None:
            for val, nm in names.items():
                if val not in listed:
                    arms[nm] = other
        out.append((bi, arms))
    return out


def bool_branches(fn, fa, pred):
    """Bool switches whose tested expression satisfies pred(expr): [(switch bb, true target, false target)]."""
    from .cfg import cfg_of
    cfg = cfg_of(fn)
    out = []
    for bi, blk in enumerate(fn.blocks):
        t = blk["term"]
        if blk["cleanup"] or t["k"] != "switch" or t["ty"] != "bool":
            continue
        v = fa.val_operand(t["d"], (bi, len(blk["stmts"])))
        neg = False
        while v[0] == "not":
            v = v[1]
            neg = not neg
        if not pred(v):
            continue
        tt = ff = None
        for (val, tgt) in t["targets"]:
            if val == 0:
                ff = tgt
            else:
                tt = tgt
        if tt is None:
            tt = t["otherwise"]
        if ff is None:
            ff = t["otherwise"]
        if neg:
            tt, ff = ff, tt
        out.append((bi, tt, ff))
    return out


def is_awaited_result_of(e, stable, site=None):
    """e is the value produced by `.await`ing the future returned by a call to `stable` (optionally at block `site`)."""
    x = e
    for _ in range(12):
        if not isinstance(x, tuple) or not x:
            return False
        t = x[0]
        if t == "call" and x[4] == stable:
            return site is None or x[3] == (site,)
        if t in ("field", "as", "old"):
            x = x[1]
        elif t == "call" and (x[1].endswith("::{closure#0}") or "new_unchecked" in x[1] or "into_future" in x[1] or "IntoFuture" in x[1]):
            if not x[2]:
                return False
            x = x[2][0]
        else:
            return False
    return False


def link_next_path(link):
    for x in walk(link):
        if is_iter_next(x):
            return x[1]
    return ""


def full_slice_element(link, slice_expr=None):
    """link is the element of a plain `for x in slice.iter[_mut]()[.enumerate()]` loop - no filter / skip / take / rev / zip
    adaptor in between.  Returns the iterated slice expression, or None."""
    x = link
    # enumerate: (next(..) as Some).0.1 ; plain: (next(..) as Some).0
    if not (isinstance(x, tuple) and x and x[0] == "field"):
        return None
    if x[3] == "1" and x[1][0] == "field" and x[1][3] == "0":
        x = x[1]
        enum = True
    elif x[3] == "0":
        enum = False
    else:
        return None
    x = x[1]
    if not (x[0] == "as" and x[2] == "Some"):
        return None
    x = x[1]
    if not is_iter_next(x) or not x[2]:
        return None
    x = x[2][0]
    if is_call(x, name_contains="IntoIterator>::into_iter"):
        x = x[2][0]
    elif not enum and is_call(x) and x[1].endswith("::into_iter") and ("IntoIterator for &'a [T]" in x[1] or "IntoIterator for &'a mut [T]" in x[1]) \
            and "slice::Iter" in link_next_path(link):
        # `for x in slice_ref`: the slice's own IntoIterator, no adaptor
        sl = x[2][0]
        while isinstance(sl, tuple) and sl and sl[0] == "call" and (sl[1].endswith("::deref_mut") or sl[1].endswith("::deref")):
            sl = sl[2][0]
        if slice_expr is not None and sl != slice_expr:
            return None
        return sl
    if enum:
        if not is_call(x, name_contains="Iterator::enumerate"):
            return None
        x = x[2][0]
    if not (is_call(x) and (x[1].endswith("<impl [T]>::iter_mut") or x[1].endswith("<impl [T]>::iter"))):
        return None
    sl = x[2][0]
    while isinstance(sl, tuple) and sl and sl[0] == "call" and (sl[1].endswith("::deref_mut") or sl[1].endswith("::deref")):
        sl = sl[2][0]
    if slice_expr is not None and sl != slice_expr:
        return None
    return sl


def loop_of_element(fn, fa, link):
    """For the element expression of a `for` loop (any adaptor chain): {"switch", "some", "none", "head", "body", "exits"}.
    `exits` lists the CFG edges that leave the natural loop other than the iterator-exhausted arm (break / return / ?)."""
    from .cfg import cfg_of
    nxt = [x for x in walk(link) if is_iter_next(x)]
    if not nxt:
        return None
    from .expr import strip_old
    want = strip_old(nxt[0])
    arms = result_arms(fn, fa, lambda e: e == nxt[0] or strip_old(e) == want)
    if len(arms) != 1 or "Some" not in arms[0][1] or "None" not in arms[0][1]:
        return None
    cfg = cfg_of(fn)
    sw, a = arms[0]
    lp = cfg.innermost_loop_of(sw)
    if lp is None:
        return None
    head, body = lp
    exits = []
    for x in sorted(body):
        for y in cfg.succ[x]:
            if y not in body and not (x == sw and y == a["None"]):
                exits.append((x, y))
    return {"switch": sw, "some": a["Some"], "none": a["None"], "head": head, "body": body, "exits": exits}


def every_iteration_reaches(world, fn, fa, link, site_bb, allowed_atom):
    """The loop whose element is `link` has no early exit, and within one iteration block `site_bb` is reached under a
    condition built only from atoms accepted by allowed_atom (e.g. "this link has an I/O handle").  Returns (ok, detail)."""
    from .pathcond import PathA
    lp = loop_of_element(fn, fa, link)
    if lp is None:
        return False, "loop of the element not recognised"
    if lp["exits"]:
        return False, "loop can be left early by edges %s" % lp["exits"][:4]
    pa = PathA(world, fn, entry=lp["some"])
    pc = pa.pc_block(site_bb)
    if pc == pa.bdd.FALSE:
        return False, "site not reachable from the loop body entry"
    bad = [a for a in pa.atoms_of(pc) if not allowed_atom(a)]
    if bad:
        return False, "an iteration reaches the site only under %s" % pa.show(pc)[:200]
    return True, "per iteration: %s" % pa.show(pc)[:200]


def some_of(pa, subject_pred):
    """[(subject, formula `subject is Some`)] for Option-valued subjects satisfying the predicate, whatever the source form
    (`x.is_some()`, `x.is_none()`, `match x`, `if let Some(..) = x`): the path analysis reads them all as the atom `x is None`."""
    from .expr import strip_old
    out = []
    seen = set()
    for a in list(pa.bdd.vars):
        subj = None
        if isinstance(a, tuple) and a and a[0] == "is" and a[2] in ("None", "Some"):
            subj = a[1]
        elif isinstance(a, tuple) and a and a[0] == "call" and (a[1].endswith("Option::<T>::is_some") or a[1].endswith("Option::<T>::is_none")) and a[2]:
            subj = a[2][0]
        if subj is None or repr(subj) in seen:
            continue
        try:
            hit = subject_pred(subj) or subject_pred(strip_old(subj))
        except Exception:
            hit = False
        if hit:
            seen.add(repr(subj))
            out.append((subj, pa.bdd.NOT(pa.is_atom(("is", subj, "None")))))
    return out


def ok_of(pa, subject_pred):
    """Like some_of for Result-valued subjects: [(subject, formula `subject is Ok`)]."""
    from .expr import strip_old
    out = []
    seen = set()
    for a in list(pa.bdd.vars):
        if isinstance(a, tuple) and a and a[0] == "is" and a[2] in ("Ok", "Err") and repr(a[1]) not in seen:
            try:
                hit = subject_pred(a[1]) or subject_pred(strip_old(a[1]))
            except Exception:
                hit = False
            if hit:
                seen.add(repr(a[1]))
                out.append((a[1], pa.is_atom(("is", a[1], "Ok"))))
    return out
