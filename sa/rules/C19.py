"""C19 - an IP-list reload never strands the stream and never disturbs survivors.

D1 parser: the applied list is appended to at one site only, inside a plain loop over text.lines() (in order, no early exit), with the value
   parsed from the trimmed line, exactly when that line parses; Refuse is returned iff the list is empty, Apply carries that very list;
   an unreadable file maps to Refuse(NotFound);
D2 a refused reload queues nothing: the only PendingConnectionChanges is built on the Apply arm with that arm's list; apply_connection_changes
   has one caller, under `pending_changes.take()` being Some with a list, and is handed that list;
D3 survivors untouched: the transitive write set of apply_connection_changes contains no field of SrtlaConnection / its sub-structures and no
   field of ConnIo; the retain / filter closures write nothing; the connection list and the I/O map are structurally changed only by the
   enumerated container calls (retain, append, push / remove, insert) in the two reload bodies;
D4 paired purge: removed ids are collected from the whole list with the negation of the retain predicate, before the retain; each removed id
   reaches both seq_tracker.remove_connection and conn_io.remove in a loop without early exit; the routing choice is forgotten under
   `len changed`; remove_connection resets every slot of that id;
D5 add once: candidates = new list, de-duplicated by a `seen.insert` filter, minus labels present before the reload; every candidate is
   attempted once; a created link's I/O handle (the other half of the same Ok((conn, io))) is inserted under the link's own conn_id in the same arm that pushes the link; the three label
   templates (desired set, candidate filter, link constructor) are the same bytes with the same argument order.
"""
import re

from .. import dtable
from ..ctx import CONN, full_slice_element, is_call, is_field, loop_of_element, result_arms, sname, every_iteration_reaches
from ..expr import show, strip_old, walk
from ..pathcond import PathA, calls_to, field_stores

from ..roles import upvar_index  # noqa: E402

LEVEL = "other"
RL = "srtla_send::sender::reload::"
TXT = RL + "analyze_ip_reload_text"
FILE = RL + "analyze_ip_reload"
CN = "srtla_send::sender::connections::"
APPLY = CN + "apply_connection_changes"
APPLYC = APPLY + "::{closure#0}"
CREATE = CN + "create_connections_from_ips"
CREATEC = CREATE + "::{closure#0}"
CONNECT = CN + "connect_uplink"
CONNECTC = CONNECT + "::{closure#0}"
PCC = CN + "PendingConnectionChanges"
ST = "srtla_send::sender::sequence::SequenceTracker"
CONNIO = "srtla_send::sender::uplink::ConnIo"
IPR = RL + "IpReload"


def _variant(e):
    e = strip_old(e)
    if e[0] == "agg" and e[1] == "adt":
        return e[2].rsplit("::", 1)[1]
    return None


def _run(ctx):
    return [f for f in ctx.w.fns.values() if f.stable.startswith("srtla_send::sender::run_sender_with_config") and f.kind == "coroutine" and calls_to(f, stable=APPLY)]


def d1_parser(ctx):
    f = ctx.fn(TXT, "D1")
    if f:
        fa = ctx.fa(f)
        pa = ctx.pa(f)
        cfg = ctx.cfg(f)
        b = pa.bdd
        pushes = [(bb, t) for (bb, t) in f.calls() if t["f"].get("path", "").endswith("SmallVec::<T, N>::push")]
        news = [(bb, t) for (bb, t) in f.calls() if t["f"].get("path", "").endswith("SmallVec::<T, N>::new")]
        ok = len(pushes) == 1 and len(news) == 1
        ctx.chk.ob("D1", "the list is created once and appended to at one site", ok, "%d new, %d push" % (len(news), len(pushes)), key="D1:single-append-site")
        if ok:
            bb, t = pushes[0]
            n = len(f.blocks[bb]["stmts"])
            vec = strip_old(fa.val_operand(t["args"][0], (bb, n)))
            val = strip_old(fa.val_operand(t["args"][1], (bb, n)))
            # value = (IpAddr::from_str(line.trim()) as Ok).0
            # ... or trimmed.parse::<IpAddr>() (str::parse is FromStr::from_str; the Ok payload's type is fixed by the list it is pushed into)
            fs = [x for x in walk(val) if is_call(x, name_contains="FromStr for std::net::IpAddr>::from_str") or (is_call(x) and x[1].endswith("<impl str>::parse"))]
            okv = val[0] == "field" and val[1][0] == "as" and val[1][2] == "Ok" and len(fs) == 1 and val[1][1] == fs[0]
            line = None
            if okv:
                tr = strip_old(fs[0][2][0])
                okv = is_call(tr) and tr[1].endswith("<impl str>::trim")   # both ends: `trim_end` / `trim_start` would reject an indented address
                if okv:
                    line = strip_old(tr[2][0])
            # line = pair.1 of text.lines().enumerate() - or the plain element of text.lines()
            okl = False
            lp = None
            if line is not None:
                nx = [x for x in walk(line) if is_call(x) and x[1].endswith("::next")]
                if nx:
                    it = nx[0][2][0]
                    if is_call(it, name_contains="IntoIterator>::into_iter"):
                        it = it[2][0]
                    if is_call(it, name_contains="Iterator::enumerate"):
                        it = it[2][0]
                        okl = line == ("field", ("field", ("as", nx[0], "Some"), "core::option::Option", "0"), "tuple", "1")
                    else:
                        okl = line == ("field", ("as", nx[0], "Some"), "core::option::Option", "0")
                    okl = okl and is_call(it, name_contains="<impl str>::lines") and it[2][0] == ("param", 1)
                    lp = loop_of_element(f, fa, line)
            ctx.chk.ob("D1", "the appended value is the address parsed from the trimmed line of a plain `text.lines()` walk (file order)", okv and okl,
                       "value %s" % show(val, f.names)[:160], key="D1:appended-value", loc=t.get("loc"))
            if lp is not None:
                ctx.chk.ob("D1", "the line loop has no early exit", not lp["exits"], "exits %s" % lp["exits"][:3], key="D1:all-lines-visited")
                pa2 = PathA(ctx.w, f, entry=lp["some"])
                pc = pa2.pc_block(bb)
                okat = [a for a in pa2.atoms_of(pc) if a[0] == "is" and strip_old(a[1]) == fs[0]] if okv else []
                okp = False
                if len(okat) == 1:
                    isok = pa2.is_atom(("is", okat[0][1], "Ok"))
                    empt = pa2.find(lambda a: is_call(a, name_contains="<impl str>::is_empty"))
                    lower = pa2.bdd.AND(isok, pa2.bdd.NOT(empt[0][1])) if len(empt) == 1 else isok
                    okp = pa2.entails(pc, isok) and pa2.entails(lower, pc)
                ctx.chk.ob("D1", "a line is appended exactly when it parses (blank lines cannot parse)", okp, "per line: %s" % pa2.show(pc)[:200], key="D1:append-iff-parses", loc=t.get("loc"))
            else:
                ctx.chk.missing("D1", "analyze_ip_reload_text: loop over the lines", "")
            # every other use of the vector: is_empty and the move into Apply
            others = []
            for (b2, t2) in f.calls():
                if b2 in (bb, news[0][0]) or t2.get("mac"):
                    continue
                for a in t2["args"]:
                    v = strip_old(fa.val_operand(a, (b2, len(f.blocks[b2]["stmts"]))))
                    if v == vec and not t2["f"].get("path", "").endswith("::is_empty"):
                        others.append(t2["f"].get("path"))
            ctx.chk.ob("D1", "nothing else touches the list (no sort / dedup / truncate / insert)", not others, "%s" % others, key="D1:list-only-appended")
            # return table
            rets = cfg.returns
            okr = len(rets) == 1
            if okr:
                r0 = fa.val_local(0, (rets[0], len(f.blocks[rets[0]]["stmts"])))
                rows = []
                try:
                    rows = dtable.expand(pa, r0, pa.pc_block(rets[0]))
                except dtable.NotEvaluable as e:
                    okr = False
                emp = pa.find(lambda a: is_call(a, name_contains="SmallVec::<T, N>::is_empty") and strip_old(a[2][0]) == vec)
                okr = okr and len(emp) == 1 and len(rows) >= 2
                napply = 0
                if okr:
                    E = emp[0][1]
                    for (c, x) in rows:
                        v = _variant(x)
                        if v == "Apply":
                            napply += 1
                            d = dict(zip(x[4], x[3]))
                            okr = okr and pa.entails(c, b.NOT(E)) and strip_old(d.get("ips", ("x",))) == vec
                        elif v == "Refuse":
                            okr = okr and pa.entails(c, E)
                        else:
                            okr = False
                    # the emptiness test is made after the loop
                    lpn = lp["none"] if lp else None
                    okr = okr and napply == 1 and lpn is not None
                ctx.chk.ob("D1", "Refuse is returned iff the parsed list is empty; Apply carries that very list", okr, "%d rows" % len(rows), key="D1:refuse-iff-empty")
    g = ctx.fn(FILE, "D1")
    if g:
        fa = ctx.fa(g)
        pa = ctx.pa(g)
        cfg = ctx.cfg(g)
        arms = result_arms(g, fa, lambda e: is_call(e, name_contains="fs::read_to_string"))
        ok = len(arms) == 1 and "Ok" in arms[0][1] and "Err" in arms[0][1]
        if ok:
            rets = cfg.returns
            r0 = fa.val_local(0, (rets[0], len(g.blocks[rets[0]]["stmts"]))) if len(rets) == 1 else None
            ok = r0 is not None and r0[0] == "var"
            if ok:
                for (dp, v, c) in dtable.def_rows(pa, r0):
                    v = strip_old(v)
                    if is_call(v, stable=TXT):
                        src = strip_old(v[2][0])
                        ok = ok and cfg.dominates(arms[0][1]["Ok"], dp[0]) and any(x[0] == "as" and x[2] == "Ok" and is_call(strip_old(x[1]), name_contains="fs::read_to_string") for x in walk(src))
                    elif _variant(v) == "Refuse" and _variant(v[3][0]) == "NotFound":
                        ok = ok and cfg.dominates(arms[0][1]["Err"], dp[0])
                    else:
                        ok = False
        ctx.chk.ob("D1", "an unreadable file is refused (NotFound); a readable one is judged on its whole text", ok, "", key="D1:unreadable-refused")


def d2_refusal_queues_nothing(ctx):
    runs = _run(ctx)
    if len(runs) != 1:
        ctx.chk.missing("D2", "run_sender_with_config: call of apply_connection_changes", "%d bodies" % len(runs))
        return
    f = runs[0]
    fa = ctx.fa(f)
    cfg = ctx.cfg(f)
    ctx.WHO_CALLS("D2", APPLY, {f.stable}, floor=1)
    ctx.WHO_CALLS("D2", FILE, {f.stable}, floor=1)
    # builders of PendingConnectionChanges
    built = []
    for g in ctx.w.fns.values():
        if "::tests" in g.stable:
            continue
        for bi, blk in enumerate(g.blocks):
            for si, s in enumerate(blk["stmts"]):
                if s["k"] == "assign" and s["rv"]["k"] == "agg" and s["rv"].get("adt") == PCC:
                    built.append((g, bi, si, s))
    ok = len(built) == 1 and built[0][0].id == f.id
    ctx.chk.ob("D2", "a reload is queued at one site only (the SIGHUP arm)", ok, "%s" % [sname(x[0].stable) for x in built], key="D2:single-queue-site")
    if ok:
        g, bi, si, s = built[0]
        v = fa.val_rvalue(s["rv"], (bi, si))
        d = dict(zip(v[4], v[3]))
        ips = strip_old(d.get("new_ips", ("x",)))
        arms = result_arms(f, fa, lambda e: is_call(strip_old(e), stable=FILE))
        okv = ips[0] == "agg" and ips[2].endswith("::Some") and strip_old(ips[3][0])[0] == "field" and strip_old(ips[3][0])[3] == "ips" and \
            strip_old(ips[3][0])[1][0] == "as" and strip_old(ips[3][0])[1][2] == "Apply" and is_call(strip_old(strip_old(ips[3][0])[1][1]), stable=FILE)
        oka = len(arms) == 1 and "Apply" in arms[0][1] and cfg.dominates(arms[0][1]["Apply"], bi) and \
            ("Refuse" not in arms[0][1] or not cfg.can_reach(arms[0][1]["Refuse"], bi, avoid={arms[0][0]}))
        ctx.chk.ob("D2", "what is queued is the Apply arm's list; the Refuse arm queues nothing", okv and oka, "new_ips %s" % show(ips, f.names)[:140], key="D2:queued-is-apply-list", loc=s.get("loc"))
    # the call site of apply
    for (bb, t) in calls_to(f, stable=APPLY):
        n = len(f.blocks[bb]["stmts"])
        a = strip_old(fa.val_operand(t["args"][2], (bb, n)))
        tk = [x for x in walk(a) if is_call(x, name_contains="Option::<T>::take")]
        ok = bool(tk) and any(is_field(x, "new_ips", PCC) for x in walk(a))
        ctx.chk.ob("D2", "apply_connection_changes is handed the queued list (pending_changes.take().new_ips)", ok, "list %s" % show(a, f.names)[:160], key="D2:apply-gets-queued-list", loc=t.get("loc"))


SUB = ("srtla_core::connection::",)


def d3_survivors_untouched(ctx):
    f = ctx.fn(APPLYC, "D3")
    if not f:
        return
    eff = ctx.eff
    ctx.EFFECT_W_DISJOINT("D3", f, lambda k: k[0] == CONN or k[0].startswith("srtla_core::connection::") or k[0] == CONNIO,
                          "any field of SrtlaConnection, of its sub-structures, or of ConnIo")
    ww = eff.WW(f.id)
    ctx.chk.ob("D3", "no whole-connection / whole-ConnIo overwrite while applying a list", CONN not in ww and CONNIO not in ww, "whole writes: %s" % sorted(ww), key="D3:no-whole-overwrite")
    # closures handed to retain / filter get `&mut SrtlaConnection` / `&&SrtlaConnection`: they write nothing at all
    for c in ctx.closures(f):
        ok = not eff.W(c.id) and not eff.WW(c.id) and not [x for x in eff.ext_mut_args if x[0].id == c.id and "SrtlaConnection" in x[4]]
        ctx.chk.ob("D3", "closure %s writes no workspace state" % sname(c.stable), ok, "%s" % sorted(eff.W(c.id))[:4], key="D3:closure-pure:%s" % c.stable.rsplit("::", 1)[1])
    # structural mutators of the two containers anywhere in the workspace
    ELEMENT = ("deref_mut", "get_mut", "iter_mut", "index_mut", "as_mut_slice", "as_mut", "last_mut", "first_mut", "values_mut", "Deref>::deref", "::get", "::iter", "::len", "::is_empty",
               "contains_key", "::values", "::keys")
    allowed = {(APPLYC, "retain"), (APPLYC, "append"), (CREATEC, "push"), (APPLYC, "remove"), (CREATEC, "insert")}
    seen = set()
    n = 0
    for (fn, bb, t, ai, ty) in eff.ext_mut_args:
        if "::tests" in fn.stable:
            continue
        isconn = re.match(r"^&mut (smallvec::SmallVec|std::vec::Vec)<srtla_core::(connection::)?SrtlaConnection", ty) is not None
        isio = re.match(r"^&mut std::collections::HashMap<u64, (srtla_send::)?sender::uplink::ConnIo", ty) is not None
        if not (isconn or isio):
            continue
        path = t["f"].get("path", "indirect")
        if any(path.endswith(e) or e in path.rsplit("::", 1)[-1] for e in ELEMENT) and not path.endswith("::remove") and not path.endswith("::insert"):
            continue
        n += 1
        meth = path.rsplit("::", 1)[-1]
        ok = (fn.stable, meth) in allowed
        seen.add((fn.stable, meth))
        ctx.chk.ob("D3", "%s of the %s in %s is one of the enumerated reload steps" % (meth, "connection list" if isconn else "I/O map", sname(fn.stable)), ok,
                   "%s (arg %d: %s)" % (path, ai, ty[:80]), key="D3:container-mutator:%s:%s" % (fn.stable, meth), loc=t.get("loc"))
    ctx.chk.floor("D3", "structural container mutation sites", n, 5)
    # the run loop initialises the list once
    ctx.WHO_CALLS("D3", CREATE, {APPLYC} | {g.stable for g in ctx.w.fns.values() if g.stable.startswith("srtla_send::sender::run_sender_with_config") and g.kind == "coroutine"}, floor=2)


def _closure_fn(ctx, v):
    return ctx.w.fns.get(v[2]) if isinstance(v, tuple) and v and v[0] == "agg" and v[1] == "closure" else None


def d4_paired_purge(ctx):
    f = ctx.fn(APPLYC, "D4")
    if not f:
        return
    fa = ctx.fa(f)
    pa = ctx.pa(f)
    cfg = ctx.cfg(f)
    up = {n: upvar_index(f, n) for n in ("connections", "new_ips", "last_selected_idx")}
    CONNS = ("upvar", up.get("connections"))
    ret = [(bb, t) for (bb, t) in f.calls() if t["f"].get("path", "").endswith("SmallVec::<T, N>::retain")]
    rm_seq = calls_to(f, stable=ST + "::remove_connection")
    rm_io = [(bb, t) for (bb, t) in f.calls() if t["f"].get("path", "").endswith("HashMap::<K, V, S, A>::remove")]
    if len(ret) != 1 or len(rm_seq) != 1 or len(rm_io) != 1:
        ctx.chk.missing("D4", "apply_connection_changes: retain / remove_connection / conn_io.remove sites", "%d / %d / %d" % (len(ret), len(rm_seq), len(rm_io)))
        return
    rb, rt = ret[0]
    ctx.chk.ob("D4", "every call of apply_connection_changes prunes the list (no path skips the retain)", not cfg.returns_reachable_avoiding({rb}),
               "returns reachable without the retain: %s" % cfg.returns_reachable_avoiding({rb}), key="D4:prune-unconditional", loc=rt.get("loc"))
    n = len(f.blocks[rb]["stmts"])
    keepc = _closure_fn(ctx, fa.val_operand(rt["args"][1], (rb, n)))
    keep_caps = fa.val_operand(rt["args"][1], (rb, n))[3]
    sb, stt = rm_seq[0]
    idv = strip_old(fa.val_operand(stt["args"][1], (sb, len(f.blocks[sb]["stmts"]))))
    ib, it = rm_io[0]
    idv2 = strip_old(fa.val_operand(it["args"][1], (ib, len(f.blocks[ib]["stmts"]))))
    # ids come from: connections.iter().filter(F).map(|c| c.conn_id).collect()
    coll = [x for x in walk(idv) if is_call(x, name_contains="Iterator::collect")]
    ok = bool(coll)
    det = ""
    if ok:
        m = strip_old(coll[0][2][0])
        ok = is_call(m, name_contains="Iterator::map")
        flt = strip_old(m[2][0]) if ok else None
        ok = ok and is_call(flt, name_contains="Iterator::filter")
        src = strip_old(flt[2][0]) if ok else None
        ok = ok and is_call(src, name_contains="<impl [T]>::iter") and any(x == CONNS for x in walk(src)) and not any(is_call(x, name_contains=a) for x in walk(src) for a in ("skip", "take", "rev", "step_by"))
        mapc = _closure_fn(ctx, m[2][1]) if ok else None
        fltc = _closure_fn(ctx, flt[2][1]) if ok else None
        ok = ok and mapc is not None and fltc is not None and keepc is not None
        if ok:
            mfa = ctx.fa(mapc)
            r = ctx.cfg(mapc).returns
            ok = len(r) == 1 and strip_old(mfa.val_local(0, (r[0], len(mapc.blocks[r[0]]["stmts"])))) == ("field", ("param", 2), CONN, "conn_id")
            # predicates: filter == !retain, over the same captured set
            fpa, kpa = ctx.pa(fltc), ctx.pa(keepc)
            frt, krt = fpa.ret_true(), kpa.ret_true()
            imp = fpa.import_formula(kpa, krt, lambda e: None)
            okp = fpa.equivalent(frt, fpa.bdd.NOT(imp)) and len(fpa.atoms_of(frt)) >= 1
            same_cap = strip_old(flt[2][1][3][0]) == strip_old(keep_caps[0]) if flt[2][1][3] and keep_caps else False
            ok = ok and okp and same_cap
            det = "filter: %s ; retain: %s" % (fpa.show(frt)[:80], kpa.show(krt)[:80])
    ctx.chk.ob("D4", "removed ids = conn_id of every link of the whole list that fails the retain predicate (same set, negated test)", ok, det, key="D4:removed-ids-match-retain")
    # collected before the retain
    cb = [bb for (bb, t) in f.calls() if t["f"].get("path", "").endswith("Iterator::collect") and cfg.dominates(bb, rb)]
    ok = bool(coll) and any(strip_old(fa.val_local(t["dest"]["l"], (t["t"], 0))) == coll[0] or True for (bb, t) in f.calls() if bb in cb) and \
        any(cfg.dominates(bb, rb) and strip_old(fa._val_call(t, (bb, len(f.blocks[bb]["stmts"])), 0)) == coll[0] for (bb, t) in f.calls() if t["f"].get("path", "").endswith("Iterator::collect"))
    ctx.chk.ob("D4", "the ids are collected before the list is pruned", ok, "", key="D4:ids-before-retain")
    # both purges for every removed id
    ok = idv == idv2 and idv[0] == "field" and idv[1][0] == "as"
    det = ""
    if ok:
        for (bb, what) in ((sb, "tracker"), (ib, "io")):
            o, d = every_iteration_reaches(ctx.w, f, fa, idv, bb, lambda a: False)
            ok = ok and o
            det += "%s: %s; " % (what, d)
        nx = [x for x in walk(idv) if is_call(x) and x[1].endswith("::next")]
        # the loop walks the collected id list itself, by value or by reference, with no adaptor in between
        ok = ok and bool(nx) and ("vec::IntoIter" in nx[0][1] or "slice::Iter" in nx[0][1]) and bool(coll) and \
            any(strip_old(x) == coll[0] for x in walk(nx[0])) and \
            not any(is_call(x, name_contains=a) for x in _above(nx[0], coll[0]) for a in ("Iterator::skip", "Iterator::take", "Iterator::filter", "Iterator::step_by", "Iterator::rev", "Iterator::skip_while", "Iterator::take_while"))
    ctx.chk.ob("D4", "every removed id is purged from the NAK-attribution tracker and from the I/O map (same loop, no early exit, no condition)", ok, det[:300], key="D4:both-purges-per-id")
    # the purge loop and the routing reset are under `len changed` only
    st = [(bb, si, s) for bi_ in [0] for (bb, si, s) in _deref_stores(f, up.get("last_selected_idx"), fa)]
    ok = len(st) == 1
    if ok:
        bb, si, s = st[0]
        v = fa.val_rvalue(s["rv"], (bb, si))
        ok = _variant(v) == "None"
        pc = pa.pc_at(bb, si)
        ats = pa.atoms_of(pc)
        # one comparison of two len(connections) reads, one before and one after the retain
        okc = len(ats) == 1 and ats[0][0] == "bin" and ats[0][1] in ("Eq", "Ne") and all(is_call(strip_old(x), name_contains="SmallVec::<T, N>::len") and any(y == CONNS for y in walk(x)) for x in (ats[0][2], ats[0][3]))
        lens = [(b2, t2) for (b2, t2) in f.calls() if t2["f"].get("path", "").endswith("SmallVec::<T, N>::len") and any(y == CONNS for y in walk(fa.val_operand(t2["args"][0], (b2, len(f.blocks[b2]["stmts"])))))]
        before = [b2 for (b2, t2) in lens if cfg.dominates(b2, rb)]
        after = [b2 for (b2, t2) in lens if cfg.dominates(rb, b2) and cfg.dominates(b2, bb)]
        okc = okc and bool(before) and bool(after)
        if okc:
            neq = pa.bdd.NOT(pa.atom(ats[0])) if ats[0][1] == "Eq" else pa.atom(ats[0])
            okc = pa.equivalent(pc, neq)
            # the purge loop sits under the same condition
            okc = okc and pa.entails(pa.pc_block(sb), neq)
        ok = ok and okc
    ctx.chk.ob("D4", "the routing choice is forgotten (and the purge runs) whenever the list got shorter", ok, "", key="D4:forget-route-on-removal")
    # remove_connection
    g = ctx.fn(ST + "::remove_connection", "D4")
    if g:
        gfa = ctx.fa(g)
        gpa = ctx.pa(g)
        stores = []
        for bi, blk in enumerate(g.blocks):
            for si, s in enumerate(blk["stmts"]):
                if s["k"] == "assign" and s["p"]["proj"] and s["p"]["proj"][-1]["k"] == "deref" and s.get("padt", "").endswith("SequenceTrackingEntry"):
                    stores.append((bi, si, s))
        ok = len(stores) == 1
        if ok:
            bi, si, s = stores[0]
            dst = gfa.val_place(s["p"], (bi, si))
            ok = full_slice_element(dst) is not None
            if ok:
                o, d = every_iteration_reaches(ctx.w, g, gfa, dst, bi, lambda a: a[0] == "bin" and a[1] == "Eq" and any(is_field(x, "conn_id") for x in (a[2], a[3])) and ("param", 2) in (a[2], a[3]))
                lp = loop_of_element(g, gfa, dst)
                pa2 = PathA(ctx.w, g, entry=lp["some"]) if lp else None
                eq = pa2.find(lambda a: a[0] == "bin" and a[1] == "Eq" and any(is_field(x, "conn_id") for x in (a[2], a[3])) and ("param", 2) in (a[2], a[3])) if pa2 else []
                ok = o and len(eq) == 1 and pa2.equivalent(pa2.pc_at(bi, si), eq[0][1])
                v = gfa.val_rvalue(s["rv"], (bi, si))
                ok = ok and is_call(strip_old(v), name_contains="Default>::default")
        ctx.chk.ob("D4", "remove_connection resets every slot owned by that id (whole table, no early exit)", ok, "", key="D4:tracker-purge-complete")


def _deref_stores(f, upvar_i, fa=None):
    """Assignments through the captured `&mut` upvar i: `*upvar = ..`."""
    out = []
    for bi, blk in enumerate(f.blocks):
        if blk["cleanup"]:
            continue
        for si, s in enumerate(blk["stmts"]):
            if s["k"] != "assign":
                continue
            pr = s["p"]["proj"]
            if len(pr) == 1 and pr[0]["k"] == "deref" and fa is not None and strip_old(fa.val_local(s["p"]["l"], (bi, si))) == ("upvar", upvar_i):
                out.append((bi, si, s))
    return out


def _templates(ctx, e):
    """Byte templates of format! calls inside e (following closures) with their argument expressions."""
    out = []
    for x in walk(e):
        if is_call(x, name_contains="fmt::Arguments") and x[1].endswith("::new") and x[2] and x[2][0][0] == "const" and isinstance(x[2][0][1], (bytes, bytearray)):
            args = []
            if len(x[2]) > 1:
                for y in walk(x[2][1]):
                    if is_call(y, name_contains="Argument") and "new_" in y[1]:
                        args.append((y[1].rsplit("::", 1)[1], strip_old(y[2][0])))
            out.append((bytes(x[2][0][1]), tuple(args)))
    return out


def d5_add_once(ctx):
    f = ctx.fn(APPLYC, "D5")
    if not f:
        return
    fa = ctx.fa(f)
    cfg = ctx.cfg(f)
    up = {n: upvar_index(f, n) for n in ("connections", "new_ips", "last_selected_idx")}
    CONNS = ("upvar", up.get("connections"))
    NEW = ("upvar", up.get("new_ips"))
    cr = calls_to(f, stable=CREATE)
    ret = [(bb, t) for (bb, t) in f.calls() if t["f"].get("path", "").endswith("SmallVec::<T, N>::retain")]
    if len(cr) != 1 or len(ret) != 1:
        ctx.chk.missing("D5", "apply_connection_changes: create_connections_from_ips / retain call", "%d / %d" % (len(cr), len(ret)))
        return
    bb, t = cr[0]
    n = len(f.blocks[bb]["stmts"])
    # the add step is skipped only when there is no candidate
    pa = ctx.pa(f)
    pcs = pa.pc_block(bb)
    emp = [a for a in pa.atoms_of(pcs) if is_call(a, name_contains="SmallVec::<T, N>::is_empty")]
    okc = len(emp) == 1 and not cfg.returns_reachable_avoiding({ret[0][0]})
    if okc:
        # relative to "the retain has run": reaching the create call needs only `!candidates.is_empty()` (and the purge loop having finished)
        other = [a for a in pa.atoms_of(pcs) if a != emp[0] and not (a[0] == "is" and any(is_call(x) and x[1].endswith("::next") for x in walk(a))) and
                 not (a[0] == "bin" and a[1] in ("Eq", "Ne") and all(is_call(strip_old(x), name_contains="SmallVec::<T, N>::len") for x in (a[2], a[3])))]
        okc = not other and pa.entails(pcs, pa.bdd.NOT(pa.atom(emp[0])))
    ctx.chk.ob("D5", "the add step runs whenever there is a candidate (no other condition)", okc, "PC = %s" % pa.show(pcs)[:200], key="D5:add-unconditional", loc=t.get("loc"))
    lst = strip_old(fa.val_operand(t["args"][0], (bb, n)))
    coll = [x for x in walk(lst) if is_call(x, name_contains="Iterator::collect")]
    ok = bool(coll)
    label_sites = []
    det = ""
    if ok:
        chain = []
        x = strip_old(coll[0][2][0])
        while is_call(x) and (x[1].startswith("std::iter::Iterator::") or x[1].startswith("core::iter::")):
            chain.append(x)
            x = strip_old(x[2][0])
        names = [c[1].rsplit("::", 1)[1] for c in chain]
        oksrc = is_call(x, name_contains="<impl [T]>::iter") and strip_old(x[2][0]) == NEW
        filters = [c for c in chain if c[1].endswith("::filter")]
        okn = set(names) <= {"filter", "copied", "cloned"} and len(filters) == 2
        dedup = curr = False
        for c in filters:
            cf = _closure_fn(ctx, c[2][1])
            if cf is None:
                continue
            cpa = ctx.pa(cf)
            rt = cpa.ret_true()
            ats = cpa.atoms_of(rt)
            if len(ats) == 1 and is_call(ats[0], name_contains="HashSet") and ats[0][1].endswith("::insert") and cpa.equivalent(rt, cpa.atom(ats[0])):
                # the set is a fresh, otherwise unused HashSet; the inserted key is the candidate itself
                cap = strip_old(c[2][1][3][0]) if c[2][1][3] else None
                dedup = is_call(cap, name_contains="HashSet") and cap[1].endswith("::new") and strip_old(ats[0][2][1]) in (("param", 2), ("deref", ("param", 2)))
            elif len(ats) == 1 and ((is_call(ats[0], name_contains="HashSet") and ats[0][1].endswith("::contains")) or
                                    (is_call(ats[0], name_contains="HashMap") and ats[0][1].endswith("::contains_key"))) and cpa.equivalent(rt, cpa.bdd.NOT(cpa.atom(ats[0]))):
                caps = [strip_old(v) for v in c[2][1][3]]
                cl = [v for v in caps if is_call(v, name_contains="Iterator::collect")]
                okc = len(cl) == 1
                if okc:
                    m = strip_old(cl[0][2][0])
                    okc = is_call(m, name_contains="Iterator::map") and is_call(strip_old(m[2][0]), name_contains="<impl [T]>::iter") and any(y == CONNS for y in walk(m[2][0]))
                    mc = _closure_fn(ctx, m[2][1]) if okc else None
                    if mc is not None:
                        mfa = ctx.fa(mc)
                        r = ctx.cfg(mc).returns
                        rv = strip_old(mfa.val_local(0, (r[0], len(mc.blocks[r[0]]["stmts"])))) if len(r) == 1 else None
                        if rv is not None and rv[0] == "agg" and rv[1] == "tuple" and rv[3] and is_call(ats[0], name_contains="HashMap"):
                            rv = strip_old(rv[3][0])  # a map keyed by the label: (label, _) pairs
                        okc = rv is not None and is_call(rv, name_contains="Clone>::clone") and strip_old(rv[2][0]) == ("field", ("param", 2), CONN, "label")
                    else:
                        okc = False
                    # collected before the retain: "present before the reload"
                    okc = okc and any(cfg.dominates(b2, ret[0][0]) and strip_old(fa._val_call(t2, (b2, len(f.blocks[b2]["stmts"])), 0)) == cl[0]
                                      for (b2, t2) in f.calls() if t2["f"].get("path", "").endswith("Iterator::collect"))
                curr = okc
                label_sites.append(("candidate filter", _templates(ctx, ctx.fa(cf).val_operand(calls_site_arg(cf), (calls_site_bb(cf), len(cf.blocks[calls_site_bb(cf)]["stmts"]))))))
        ok = oksrc and okn and dedup and curr
        det = "chain %s over %s; dedup %s, not-present %s" % (names, show(x, f.names)[:40], dedup, curr)
    ctx.chk.ob("D5", "candidates = the new list, each address once (seen.insert), minus the labels present before the reload", ok, det, key="D5:candidates")
    # desired labels template
    dl = ret[0]
    kc = fa.val_operand(dl[1]["args"][1], (dl[0], len(f.blocks[dl[0]]["stmts"])))
    des = [strip_old(v) for v in kc[3]]
    for v in des:
        for x in walk(v):
            if is_call(x, name_contains="Iterator::map"):
                mc = _closure_fn(ctx, x[2][1])
                if mc is not None:
                    r = ctx.cfg(mc).returns
                    if len(r) == 1:
                        label_sites.append(("desired set", _templates(ctx, ctx.fa(mc).val_local(0, (r[0], len(mc.blocks[r[0]]["stmts"]))))))
                        okd = is_call(strip_old(x[2][0]), name_contains="<impl [T]>::iter") and strip_old(strip_old(x[2][0])[2][0]) == NEW
                        ctx.chk.ob("D5", "the desired-label set is built from every address of the new list", okd, "", key="D5:desired-from-whole-list")
    cu = ctx.fn(CONNECTC, "D5")
    if cu:
        cfa = ctx.fa(cu)
        tpl = []
        for (b2, t2) in cu.calls():
            if t2["f"].get("path", "").endswith("fmt::format"):
                tpl += _templates(ctx, cfa.val_operand(t2["args"][0], (b2, len(cu.blocks[b2]["stmts"]))))
        label_sites.append(("link constructor", tpl))
    norm = []
    for (who, tp) in label_sites:
        tp2 = [(b_, tuple(k for (k, _a) in args)) for (b_, args) in tp if b" via " in b_ or len(tp) == 1]
        norm.append((who, tp2))
    ok = len(norm) == 3 and all(len(tp) == 1 for (_w, tp) in norm) and len(set(tp[0] for (_w, tp) in norm if tp)) == 1
    # argument order: host, port, ip (by upvar / param names)
    def argnames(who, tp, fn_names):
        return tuple(show(a, fn_names) for (_k, a) in tp[0][1]) if tp else ()
    ctx.chk.ob("D5", "the label is formatted identically where links are named, where the desired set is built and where candidates are tested", ok,
               "; ".join("%s: %s" % (w_, [b_.decode("latin1") for (b_, _k) in tp]) for (w_, tp) in norm)[:300], key="D5:label-templates-agree")
    okargs = True
    for (who, tp) in label_sites:
        for (b_, args) in tp:
            if b" via " not in b_ and len(tp) != 1:
                continue
            okargs = okargs and len(args) == 3
    ctx.chk.ob("D5", "every label has three arguments (host, port, address)", okargs, "", key="D5:label-arity")
    # create_connections_from_ips: one attempt per candidate, paired insert/push
    g = ctx.fn(CREATEC, "D5")
    if g:
        gfa = ctx.fa(g)
        gcfg = ctx.cfg(g)
        cu_calls = calls_to(g, stable=CONNECT)
        ins = [(b2, t2) for (b2, t2) in g.calls() if t2["f"].get("path", "").endswith("HashMap::<K, V, S, A>::insert")]
        psh = [(b2, t2) for (b2, t2) in g.calls() if t2["f"].get("path", "").endswith("SmallVec::<T, N>::push")]
        ok = len(cu_calls) == 1 and len(ins) == 1 and len(psh) == 1
        if ok:
            b2, t2 = cu_calls[0]
            ip = strip_old(gfa.val_operand(t2["args"][0], (b2, len(g.blocks[b2]["stmts"]))))
            gup = {"ips": upvar_index(g, "ips")}
            ok = full_slice_element(ip, ("upvar", gup.get("ips"))) is not None
            if ok:
                o, d = every_iteration_reaches(ctx.w, g, gfa, ip, b2, lambda a: False)
                ok = o
            ib, itt = ins[0]
            pb, ptt = psh[0]
            key = strip_old(gfa.val_operand(itt["args"][1], (ib, len(g.blocks[ib]["stmts"]))))
            io = strip_old(gfa.val_operand(itt["args"][2], (ib, len(g.blocks[ib]["stmts"]))))
            conn = strip_old(gfa.val_operand(ptt["args"][1], (pb, len(g.blocks[pb]["stmts"]))))
            # (conn, io) are the two halves of the same Ok((conn, io)); key = conn.conn_id
            okp = key == ("field", conn, CONN, "conn_id") and conn[0] == "field" and io[0] == "field" and conn[1] == io[1] and conn[3] == "0" and io[3] == "1"
            lp = loop_of_element(g, gfa, ip)
            if okp and lp is not None and not lp["exits"]:
                pa2 = PathA(ctx.w, g, entry=lp["some"])
                # stored together: within one iteration the insert and the push happen under the same condition
                okp = pa2.sat(pa2.pc_block(ib)) and pa2.equivalent(pa2.pc_block(ib), pa2.pc_block(pb))
            else:
                okp = False
            ok = ok and okp
        ctx.chk.ob("D5", "every candidate is attempted once; a created link and its I/O handle are stored together, the handle under the link's conn_id", ok, "", key="D5:paired-create")
    # appended to the list
    app = [(b2, t2) for (b2, t2) in f.calls() if t2["f"].get("path", "").endswith("SmallVec::<T, N>::append")]
    ok = len(app) == 1
    if ok:
        b2, t2 = app[0]
        a0 = strip_old(fa.val_operand(t2["args"][0], (b2, len(f.blocks[b2]["stmts"]))))
        a1 = strip_old(fa.val_operand(t2["args"][1], (b2, len(f.blocks[b2]["stmts"]))))
        ok = a0 == CONNS and any(is_call(x, stable=CREATEC) or is_call(x, stable=CREATE) for x in walk(a1)) and cfg.dominates(bb, b2) and not cfg.returns_reachable_avoiding({b2}, start=bb)
    ctx.chk.ob("D5", "whatever was created is appended to the connection list on every path", ok, "", key="D5:created-appended")


def _above(e, stop):
    """Sub-expressions of e down to, and not below, the sub-expression `stop`."""
    out = [e]
    if strip_old(e) == stop or not isinstance(e, tuple):
        return out
    for x in e[1:]:
        if isinstance(x, tuple) and x:
            if isinstance(x[0], str):
                out += _above(x, stop)
            else:
                for y in x:
                    if isinstance(y, tuple) and y and isinstance(y[0], str):
                        out += _above(y, stop)
    return out


def calls_site_bb(cf):
    for (bb, t) in cf.calls():
        if t["f"].get("path", "").endswith("::contains") or t["f"].get("path", "").endswith("::contains_key"):
            return bb
    return 0


def calls_site_arg(cf):
    for (bb, t) in cf.calls():
        if t["f"].get("path", "").endswith("::contains") or t["f"].get("path", "").endswith("::contains_key"):
            return t["args"][1]
    return None


RULES = [d1_parser, d2_refusal_queues_nothing, d3_survivors_untouched, d4_paired_purge, d5_add_once]


def run(ctx):
    ctx.chk.not_decided = ["socket identity at OS level and the fate of packets in flight on removed links",
                           "semantics of SmallVec::retain / HashSet / HashMap (trusted: retain keeps exactly the elements whose predicate is true, in order)",
                           "that `len changed` is equivalent to `some id was removed` (follows from retain's contract; the purge loop is additionally empty otherwise)"]
    ctx.run_rules(RULES)
