"""E7 - layout tables of frame builders and parsers, extracted from reconstructed values."""
from .ctx import is_call, is_field
from .expr import fna_of, show, strip_old, walk


def _const(e):
    e = strip_old(e)
    if e[0] == "const" and isinstance(e[1], int):
        return e[1]
    if e[0] == "bin" and e[1] in ("Add", "Sub", "Mul") and _const(e[2]) is not None and _const(e[3]) is not None:
        a, b = _const(e[2]), _const(e[3])
        return a + b if e[1] == "Add" else a - b if e[1] == "Sub" else a * b
    return None


def builder_table(world, fn):
    """[(start, end|None, source expr, encoding)] for every `pkt[a..b].copy_from_slice(..)` and `pkt[k] = v` of a builder."""
    fa = fna_of(world, fn)
    rows = []
    for (bb, t) in fn.calls():
        path = t["f"].get("path", "")
        if not path.endswith("<impl [T]>::copy_from_slice"):
            continue
        nst = len(fn.blocks[bb]["stmts"])
        dst = strip_old(fa.val_operand(t["args"][0], (bb, nst)))
        src = strip_old(fa.val_operand(t["args"][1], (bb, nst)))
        rng = None
        for x in walk(dst):
            if x[0] == "agg" and x[1] == "adt" and "ops::range::Range" in x[2]:
                rng = x
                break
        start = end = None
        if rng is not None:
            names = rng[4]
            vals = dict(zip(names, rng[3]))
            start = _const(vals["start"]) if "start" in vals else 0
            end = _const(vals["end"]) if "end" in vals else None
            if "start" in vals and start is None:
                start = ("expr", vals["start"])
            if "end" in vals and end is None:
                end = ("expr", vals["end"])
        enc = "raw"
        val = src
        for x in walk(src):
            if x[0] == "call" and x[1].endswith("::to_be_bytes"):
                enc = "be"
                val = x[2][0]
                break
            if x[0] == "call" and x[1].endswith("::to_le_bytes"):
                enc = "le"
                val = x[2][0]
                break
        rows.append((start, end, val, enc, t.get("loc")))
    rows.sort(key=lambda r: (r[0] if isinstance(r[0], int) else 1 << 30))
    return rows


def be_reads(e):
    """[(indices tuple, width, kind)] for every from_be_bytes([buf[i], ..]) inside expression e."""
    out = []
    for x in walk(e):
        if x[0] == "call" and (x[1].endswith("::from_be_bytes") or x[1].endswith("::from_le_bytes")):
            arr = x[2][0]
            if arr[0] == "agg" and arr[1] == "array":
                idx = []
                for el in arr[3]:
                    el = strip_old(el)
                    if el[0] == "index":
                        idx.append(el[2])
                    else:
                        idx.append(None)
                out.append((tuple(idx), "be" if x[1].endswith("from_be_bytes") else "le", x))
    return out


def width_of(path):
    # "core::num::<impl u32>::from_be_bytes"
    if "<impl " in path:
        ty = path[path.index("<impl ") + 6:]
        ty = ty[:ty.index(">")]
        return {"u8": 1, "i8": 1, "u16": 2, "i16": 2, "u32": 4, "i32": 4, "u64": 8, "i64": 8}.get(ty)
    return None


def json_inserts(fn, fa):
    """[(block, map local, key string|None, value expr, loc)] for every `serde_json::Map::insert(&mut m, key.into(), value)` of a body
    (what `json!({...})` lowers to)."""
    out = []
    for (bb, t) in fn.calls():
        path = t["f"].get("path", "")
        if not (path.startswith("serde_json::Map::<") and path.endswith("::insert")):
            continue
        n = len(fn.blocks[bb]["stmts"])
        a0 = t["args"][0]
        ml = None
        # `&mut m` temp -> m
        l = a0.get("p", {}).get("l") if isinstance(a0, dict) else None
        for _ in range(3):
            if l is None:
                break
            ds = fa.defs.get(l, [])
            if len(ds) == 1 and ds[0][2] == "assign" and ds[0][3]["k"] in ("ref", "raw"):
                ml = ds[0][3]["p"]["l"]
                break
            if len(ds) == 1 and ds[0][2] == "assign" and ds[0][3]["k"] == "use" and isinstance(ds[0][3]["o"], dict):
                l = ds[0][3]["o"].get("p", {}).get("l")
            else:
                break
        key = strip_old(fa.val_operand(t["args"][1], (bb, n)))
        ks = None
        for x in walk(key):
            if x[0] == "const" and isinstance(x[1], str):
                ks = x[1]
                break
        val = strip_old(fa.val_operand(t["args"][2], (bb, n)))
        out.append((bb, ml, ks, val, t.get("loc")))
    return out
