"""C12 - the stall guard is a routing penalty only; off means baseline.

D1 non-interference: the transitive write set of `select_connection_idx` touches only guard-private
   routing state (plus the per-link timeout copy and the quality cache); nothing in the selection call
   tree overwrites a whole connection or hands the slice to a reordering / replacing foreign API.
D2 off clears everything: on the `!stall_deselect` path every element gets `stall_gated := false`,
   `silence_pulled := false` and `clear_stall_latch()`, and no `update_*` call is reachable on that path.
D3 off means baseline: the selectors read, of all guard-private state, only `stall_gated`.
"""
from ..ctx import full_slice_element, CONN, sname
from ..expr import show
from ..pathcond import calls_to, field_stores

LEVEL = "proof"

SEL = "srtla_core::selection::select_connection_idx"
GATE = "srtla_core::selection::apply_stall_gate"
CLASSIC = "srtla_core::selection::classic::select_connection"
ENH = "srtla_core::selection::enhanced::select_connection"
CQ = "srtla_core::connection::CachedQuality"

GUARD_PRIVATE = {"stall_gated", "stall_latched_since_ms", "stall_recovery_since_ms", "stall_gate_events",
                 "silence_pulled", "silence_pulls"}
# what a routing decision may write: guard-private state, the liveness-timeout copy refreshed from the
# configuration, and the 50 ms quality cache
ALLOWED_W = set((CONN, f) for f in GUARD_PRIVATE) | {(CONN, "conn_timeout_ms"), (CONN, "quality_cache"),
                                                      (CQ, "multiplier"), (CQ, "last_calculated_ms")}
# the liveness / accounting state named by the property
PROTECTED = {"connected", "last_received", "last_sent", "last_keepalive_sent", "window", "in_flight_packets",
             "packet_log", "highest_acked_seq", "congestion", "phase", "reconnection", "rtt", "bitrate",
             "batch_sender", "last_ack_or_rtt_sample_ms", "conn_id", "label", "local_ip", "weak", "cc_backing_off",
             "cc_target_bps", "loss_degraded", "stall_probe_counter"}

# foreign APIs that receive `&mut [SrtlaConnection]` (or an iterator over it) and only hand out element access
ELEMENT_ACCESS = ("::iter_mut", "IntoIterator>::into_iter", "Iterator>::next", "Iterator>::enumerate",
                  "::get_mut", "IndexMut", "::iter", "Iterator>::any", "::len", "DerefMut", "::as_mut_slice",
                  "Iterator>::position", "::first_mut", "::last_mut")


def d1_noninterference(ctx):
    sel = ctx.fn(SEL, "D1")
    if not sel:
        return
    eff = ctx.eff
    reach = eff.reachable(sel.id)
    ctx.chk.floor("D1", "bodies reachable from select_connection_idx", len(reach), 40)
    ctx.EFFECT_W_SUBSET("D1", sel, ALLOWED_W)
    ctx.EFFECT_W_DISJOINT("D1", sel, lambda k: k[0] == CONN and k[1] in PROTECTED,
                          "liveness/accounting state {connected, last_received, last_sent, window, in_flight, packet_log, congestion.*, phase, reconnection.*, rtt.*, bitrate.*, batch_sender.*}")
    # sub-structures: nothing of CongestionControl / RttTracker / BitrateTracker / ReconnectionState / BatchSender
    sub = ("srtla_core::connection::congestion::CongestionControl", "srtla_core::connection::rtt::RttTracker",
           "srtla_core::connection::bitrate::BitrateTracker", "srtla_core::connection::reconnection::ReconnectionState",
           "srtla_core::connection::batch_send::BatchSender")
    ctx.EFFECT_W_DISJOINT("D1", sel, lambda k: k[0] in sub, "the accounting sub-structures")
    # whole-value overwrites of a connection in the call tree
    ww = eff.WW(sel.id)
    ctx.chk.ob("D1", "no whole-connection overwrite in the selection call tree", CONN not in ww,
               "ADTs overwritten as a whole: %s" % sorted(ww), key="D1:whole-write:%s" % SEL)
    # foreign callees that get `&mut` access to connections must be element-access APIs
    n = 0
    for (fn, bb, t, ai, ty) in eff.ext_mut_args:
        if fn.id not in reach:
            continue
        if "SrtlaConnection" not in ty:
            continue
        n += 1
        path = t["f"].get("path", "indirect")
        ok = any(m in path for m in ELEMENT_ACCESS)
        ctx.chk.ob("D1", "foreign callee with &mut connections: %s in %s" % (path, sname(fn.stable)), ok,
                   "arg %d : %s" % (ai, ty), key="D1:ext-mut:%s:%s" % (fn.stable, path), loc=t.get("loc"))
    ctx.chk.floor("D1", "foreign &mut-connection call sites in the selection tree", n, 8)


def d2_off_clears(ctx):
    gate = ctx.fn(GATE, "D2")
    if not gate:
        return
    pa = ctx.pa(gate)
    cfg = ctx.cfg(gate)
    b = pa.bdd
    # the guard-off atom: `config.stall_deselect`
    atoms = ctx.find_atoms(pa, lambda a: a[0] == "field" and a[3] == "stall_deselect")
    if len(atoms) != 1:
        ctx.chk.missing("D2", "apply_stall_gate: test of config.stall_deselect", "found %d atoms" % len(atoms))
        return
    on = atoms[0][1]
    off = b.NOT(on)
    clr = calls_to(gate, stable=CONN + "::clear_stall_latch")
    st_gated = [(bb, si, s) for (bb, si, s) in field_stores(gate, CONN, "stall_gated")]
    st_pull = [(bb, si, s) for (bb, si, s) in field_stores(gate, CONN, "silence_pulled")]
    upd = calls_to(gate, stable=CONN + "::update_stall_latch") + calls_to(gate, stable=CONN + "::update_silence_pull")
    ctx.chk.floor("D2", "clear_stall_latch call sites", len(clr), 1)
    ctx.chk.floor("D2", "update_* call sites", len(upd), 2)
    # sites on the off path: their PC entails !stall_deselect
    off_gated = [x for x in st_gated if pa.entails(pa.pc_at(x[0], x[1]), off)]
    off_pull = [x for x in st_pull if pa.entails(pa.pc_at(x[0], x[1]), off)]
    off_clr = [x for x in clr if pa.entails(pa.pc_block(x[0]), off)]
    ok = bool(off_gated) and bool(off_pull) and bool(off_clr)
    ctx.chk.ob("D2", "guard-off path has the three clears", ok,
               "stall_gated stores %d, silence_pulled stores %d, clear_stall_latch calls %d under !stall_deselect" % (
                   len(off_gated), len(off_pull), len(off_clr)), key="D2:off-path-clears:%s" % GATE)
    # stored constants are `false`
    for (bb, si, s) in off_gated + off_pull:
        val = pa.fa.val_rvalue(s["rv"], (bb, si))
        ctx.chk.ob("D2", "guard-off store %s := false" % s["p"]["proj"][-1]["n"], val == ("const", False, "bool"),
                   "stored value %r" % (val,), key="D2:off-store-false:%s" % s["p"]["proj"][-1]["n"], loc=s.get("loc"))
    # all three in the same loop body, executed for every element: same block chain, each post-dominated within the iteration
    if off_gated and off_pull and off_clr:
        g, p, c = off_gated[0][0], off_pull[0][0], off_clr[0][0]
        loop = cfg.innermost_loop_of(g)
        same = loop is not None and p in loop[1] and c in loop[1]
        ctx.chk.ob("D2", "the three clears are in one loop over the links", same,
                   "loop head bb%s" % (loop[0] if loop else None), key="D2:off-one-loop:%s" % GATE)
        if same:
            head, body = loop
            # every iteration that enters the loop body (Some arm) passes all three before the back edge
            backs = [t for (t, h) in cfg.back_edges() if h == head]
            for nm, blk in (("stall_gated", g), ("silence_pulled", p), ("clear_stall_latch", c)):
                okd = all(cfg.dominates(blk, t) for t in backs)
                ctx.chk.ob("D2", "every iteration passes the %s clear before the back edge" % nm, okd,
                           "back edges from %s" % backs, key="D2:off-each-iter:%s" % nm)
            # the loop ranges over every link: a plain `for c in conns.iter_mut()` with no filtering adaptor
            (gb, gsi, gs) = off_gated[0]
            link = pa.fa.val_place({"l": gs["p"]["l"], "proj": gs["p"]["proj"][:-1]}, (gb, gsi))
            sl = full_slice_element(link, ("param", 1))
            ctx.chk.ob("D2", "the guard-off clearing loop visits every link (no filter / skip / take)", sl is not None,
                       "element %s" % show(link, gate.names)[:200], key="D2:off-loop-full-slice")
    # clear_stall_latch itself zeroes both latch fields unconditionally
    clf = ctx.fn(CONN + "::clear_stall_latch", "D2")
    if clf:
        pac = ctx.pa(clf)
        for fld in ("stall_latched_since_ms", "stall_recovery_since_ms"):
            sts = field_stores(clf, CONN, fld)
            okz = bool(sts) and all(pac.fa.val_rvalue(s["rv"], (bb, si)) == ("const", 0, "u64") and
                                    pac.pc_at(bb, si) == pac.bdd.TRUE for (bb, si, s) in sts)
            ctx.chk.ob("D2", "clear_stall_latch stores %s := 0 unconditionally" % fld, okz,
                       "%d store(s)" % len(sts), key="D2:clear-latch-zero:%s" % fld)
    # NEVER-BOTH: no update_* call is reachable from the off branch
    for (bb, t) in upd:
        pcu = pa.pc_block(bb)
        ctx.chk.ob("D2", "update call (bb%d) not on the guard-off path" % bb, pa.entails(pcu, on),
                   "PC = %s" % pa.show(pcu, 4), key="D2:update-not-on-off-path:%s" % t["f"]["stable"], loc=t.get("loc"))
    # off path returns without reaching the gating stores of the on path
    on_gated = [x for x in st_gated if x not in off_gated]
    for (bb, si, s) in on_gated:
        pcs = pa.pc_at(bb, si)
        ctx.chk.ob("D2", "gating store (bb%d) only with the guard on" % bb, pa.entails(pcs, on),
                   "PC = %s" % pa.show(pcs, 4), key="D2:gating-store-on-only", loc=s.get("loc"))
    ctx.chk.floor("D2", "gating stores on the guard-on path", len(on_gated), 1)


def _iter_local(fn, head):
    return None


def d3_selectors_read_only_flag(ctx):
    for st in (CLASSIC, ENH):
        f = ctx.fn(st, "D3")
        if not f:
            continue
        R = ctx.eff.R(f.id)
        priv = sorted(k[1] for k in R if k[0] == CONN and k[1] in GUARD_PRIVATE)
        ctx.chk.ob("D3", "R(%s) meets guard-private state in {stall_gated} only" % sname(st), priv == ["stall_gated"],
                   "guard-private fields read: %s (|R| = %d)" % (priv, len(R)), key="D3:selector-reads:%s" % st)
    # the selectors run after the gate: apply_stall_gate dominates the mode dispatch
    sel = ctx.fn(SEL, "D3")
    if sel:
        cfg = ctx.cfg(sel)
        g = calls_to(sel, stable=GATE)
        c = calls_to(sel, stable=CLASSIC) + calls_to(sel, stable=ENH)
        ctx.chk.floor("D3", "selector call sites in select_connection_idx", len(c), 2)
        if len(g) == 1:
            for (bb, t) in c:
                ctx.chk.ob("D3", "apply_stall_gate dominates %s" % sname(t["f"]["stable"]), cfg.dominates(g[0][0], bb),
                           "gate bb%d, selector bb%d" % (g[0][0], bb), key="D3:gate-dominates:%s" % t["f"]["stable"])
        else:
            ctx.chk.missing("D3", "single apply_stall_gate call in select_connection_idx", "found %d" % len(g))


def d2b_every_pass_reaches_a_flag_loop(ctx):
    """"guard off clears every flag": the clearing loop is not only correct but reached - no path through apply_stall_gate returns
    without running one of the two whole-slice loops that store the flag (guard-off clear / guard-on recompute), whatever the pool
    looks like.  C03.D2b, decided once and reported under both properties."""
    from . import C03
    C03.d2b_flag_never_stale(ctx)


RULES = [d1_noninterference, d2_off_clears, d2b_every_pass_reaches_a_flag_loop, d3_selectors_read_only_flag]


def run(ctx):
    ctx.chk.not_decided = [
        "none of the statement's clauses: non-interference and guard-off == baseline are facts about every path "
        "of the selection call tree; the per-link timeout copy and the quality cache are the only non-guard writes "
        "and are reported here",
    ]
    ctx.chk.assumptions = ["no interior mutability in SrtlaConnection and its sub-structures (field types are plain data)",
                           "safe Rust: nothing can be written through a shared borrow"]
    ctx.run_rules(RULES)
