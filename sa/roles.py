"""Identify locals by the role they play in a body, not by their source name.

Rules need to speak about "the running best score", "the counter of connected links", "the list that is returned".
Source names are the natural handle, but renaming a local is a behaviour-preserving edit and must not raise an
alarm, so every lookup here is structural (definitions, types, where the value flows); the debug name is used only
to break a tie between several structural candidates.
"""
from .cfg import cfg_of
from .expr import fna_of, strip_old, walk


def _defs(fa, l):
    return [d for d in fa.defs.get(l, []) if d[2] == "assign"]


def _val(fa, d):
    return fa.val_rvalue(d[3], (d[0], d[1]))


def _pick(fn, cands, hint):
    cands = sorted(set(cands))
    if len(cands) == 1:
        return cands[0]
    named = [l for l in cands if fn.names.get(l) == hint]
    if len(named) == 1:
        return named[0]
    return None


def result_local(world, fn, hint=None):
    """The local whose value is copied / moved into the return place by a plain `_0 = L` (not an aggregate)."""
    cands = []
    for bi, blk in enumerate(fn.blocks):
        if blk["cleanup"]:
            continue
        for s in blk["stmts"]:
            if s["k"] == "assign" and s["p"]["l"] == 0 and not s["p"]["proj"] and s["rv"]["k"] == "use" and isinstance(s["rv"]["o"], dict) \
                    and s["rv"]["o"].get("k") in ("copy", "move") and not s["rv"]["o"]["p"]["proj"]:
                cands.append(s["rv"]["o"]["p"]["l"])
    return _pick(fn, cands, hint)


def running_extreme(world, fn, init=None, tys=("i32", "f64"), hint=None):
    """Numeric local with a literal definition (`init` if given) outside every loop and another definition inside a loop (the running best)."""
    fa = fna_of(world, fn)
    cfg = cfg_of(fn)
    cands = []
    for l, loc in enumerate(fn.locals):
        if loc["ty"] not in tys:
            continue
        ds = _defs(fa, l)
        if len(ds) < 2:
            continue
        outside = [d for d in ds if not cfg.in_cycle(d[0])]
        inside = [d for d in ds if cfg.in_cycle(d[0])]
        if len(outside) == 1 and inside:
            v0 = _val(fa, outside[0])
            if v0[0] == "const" and (init is None or v0 == ("const", init, loc["ty"])):
                cands.append(l)
    return _pick(fn, cands, hint)


def assigned_from(world, fn, target, in_loop=True, hint=None):
    """The local whose value is stored into `target` by its in-loop definition (`best = score`)."""
    fa = fna_of(world, fn)
    cfg = cfg_of(fn)
    cands = []
    for d in _defs(fa, target):
        if in_loop and not cfg.in_cycle(d[0]):
            continue
        rv = d[3]
        if rv["k"] == "use" and isinstance(rv["o"], dict) and rv["o"].get("k") in ("copy", "move") and not rv["o"]["p"]["proj"]:
            cands.append(_root(fn, fa, rv["o"]["p"]["l"]))
    return _pick(fn, cands, hint)


def _root(fn, fa, l):
    """Follow `_t = copy/move x` temporaries back to the first user-visible local."""
    for _ in range(4):
        if fn.names.get(l):
            return l
        ds = fa.defs.get(l, [])
        if len(ds) == 1 and ds[0][2] == "assign" and ds[0][3]["k"] == "use" and isinstance(ds[0][3]["o"], dict) and ds[0][3]["o"].get("k") in ("copy", "move") \
                and not ds[0][3]["o"]["p"]["proj"]:
            l = ds[0][3]["o"]["p"]["l"]
        else:
            return l
    return l


def option_latch(world, fn, ty_contains, hint=None):
    """Option-typed local with a `None` definition outside the loops and a `Some(..)` definition inside one (a per-pass record)."""
    fa = fna_of(world, fn)
    cfg = cfg_of(fn)
    cands = []
    for l, loc in enumerate(fn.locals):
        if not (loc["ty"].startswith("std::option::Option<") and ty_contains in loc["ty"]):
            continue
        ds = _defs(fa, l)
        def variant(d):
            v = strip_old(_val(fa, d))
            return v[2].rsplit("::", 1)[1] if v[0] == "agg" and v[1] == "adt" else None
        none_out = [d for d in ds if not cfg.in_cycle(d[0]) and variant(d) == "None"]
        some_in = [d for d in ds if cfg.in_cycle(d[0]) and variant(d) == "Some"]
        if none_out and some_in:
            cands.append(l)
    return _pick(fn, cands, hint)


def counter(world, fn, ty="usize", start=0, step=1, hint=None, any_update=False):
    """Integer local initialised to the literal `start` (any literal if None) outside the loops and incremented by `step` inside one
    (any_update: any in-loop re-definition, e.g. a shift-or accumulator)."""
    fa = fna_of(world, fn)
    cfg = cfg_of(fn)
    cands = []
    for l, loc in enumerate(fn.locals):
        if loc["ty"] != ty:
            continue
        ds = _defs(fa, l)
        outside = [d for d in ds if not cfg.in_cycle(d[0])]
        inside = [d for d in ds if cfg.in_cycle(d[0])]
        if len(outside) != 1 or not inside:
            continue
        v0 = _val(fa, outside[0])
        if v0[0] != "const" or (start is not None and v0 != ("const", start, ty)):
            continue
        ok = True
        for d in inside:
            v = _val(fa, d)
            if any_update:
                continue
            if not (v[0] == "bin" and v[1] == "Add" and (step is None or ("const", step, ty) in (v[2], v[3]))):
                ok = False
        if ok:
            cands.append(l)
    return _pick(fn, cands, hint)


def upvar(world, fn, hint, ty=None):
    """Capture index of a coroutine / closure: by the parameter's type in the parent signature when `ty` (a predicate on the type
    string) singles one out, else by its source name."""
    if ty is not None and fn.stable.endswith("::{closure#0}"):
        parent = world.fn(fn.stable[:-len("::{closure#0}")])
        if parent is not None:
            c = [i for i in range(parent.argc) if ty(parent.locals[i + 1]["ty"])]
            if len(c) == 1:
                return c[0]
            named = [i for i in c if fn.upvar_names.get(i) == hint]
            if len(named) == 1:
                return named[0]
    for i, nm in fn.upvar_names.items():
        if nm == hint:
            return i
    return None


def param(world, fn, hint, ty=None):
    if ty is not None:
        c = [i for i in range(1, fn.argc + 1) if ty(fn.locals[i]["ty"])]
        if len(c) == 1:
            return c[0]
        named = [i for i in c if fn.names.get(i) == hint]
        if len(named) == 1:
            return named[0]
    for l, nm in fn.names.items():
        if nm == hint and isinstance(l, int) and 1 <= l <= fn.argc:
            return l
    return None


# ---------------------------------------------------------------------------------------------------------------------------
# Parameters of the shell's async fns, as seen from their coroutine bodies.  A rule names the parameter it means; the lookup is
# by source name first and, when the name is gone (a rename), by the parameter's type if that type is unique in the signature.
PARAM_TYPES = {
    "connections": lambda t: t.startswith("&mut") and "SrtlaConnection" in t and ("[" in t or "SmallVec" in t),
    "conns": lambda t: t.startswith("&mut") and "SrtlaConnection" in t and ("[" in t or "SmallVec" in t),
    "conn": lambda t: t.replace(" ", "") in ("&mutsrtla_core::SrtlaConnection", "&mutsrtla_core::connection::SrtlaConnection"),
    "conn_io": lambda t: "HashMap<u64" in t and "ConnIo" in t,
    "sel_idx": lambda t: t == "usize",
    "idx": lambda t: t == "usize",
    "conn_idx": lambda t: t == "usize",
    "classic": lambda t: t == "bool",
    "registration_complete": lambda t: t == "bool",
    "seq": lambda t: t == "std::option::Option<u32>",
    "packet_time_ms": lambda t: t == "u64",
    "now_ms": lambda t: t == "u64",
    "pkt": lambda t: t == "&[u8]",
    "data": lambda t: t in ("&[u8]", "serde_json::Value"),
    "recv_buf": lambda t: t == "&mut [u8]",
    "res": lambda t: t.startswith("std::result::Result<(usize, std::net::SocketAddr)"),
    "packet": lambda t: t.endswith("UplinkPacket"),
    "last_client_addr": lambda t: "Option<std::net::SocketAddr>" in t,
    "client_addr": lambda t: "Option<std::net::SocketAddr>" in t,
    "last_selected_idx": lambda t: t == "&mut std::option::Option<usize>",
    "seq_tracker": lambda t: "SequenceTracker" in t,
    "new_ips": lambda t: t == "&[std::net::IpAddr]",
    "ips": lambda t: t == "&[std::net::IpAddr]",
    "receiver_host": lambda t: t == "&str",
    "receiver_port": lambda t: t == "u16",
    "topic": lambda t: t == "&str",
    "id": lambda t: t == "&str",
    "push_tx": lambda t: "mpsc::Sender<" in t,
    "incoming": lambda t: t.endswith("SrtlaIncoming"),
    "reg": lambda t: "SrtlaRegistrationManager" in t,
}

_parent_cache = {}


def parent_of(fn):
    """The fn item whose body this `::{closure#0}` coroutine / closure is (same crate unit)."""
    if not fn.stable.endswith("::{closure#0}"):
        return None
    key = (fn.unit.path, fn.stable)
    if key not in _parent_cache:
        want = fn.stable[:-len("::{closure#0}")]
        c = [g for g in fn.unit.fns.values() if g.stable == want]
        _parent_cache[key] = c[0] if len(c) == 1 else None
    return _parent_cache[key]


def upvar_index(fn, name):
    for i, nm in fn.upvar_names.items():
        if nm == name:
            return i
    pred = PARAM_TYPES.get(name)
    parent = parent_of(fn)
    if pred is not None and parent is not None and fn.kind == "coroutine":
        c = [i for i in range(parent.argc) if pred(parent.locals[i + 1]["ty"])]
        if len(c) == 1 and c[0] not in fn.upvar_names:
            return c[0]
        if len(c) == 1:
            # the position carries another name now: a rename; types still single it out
            return c[0]
    return None


def up(fn, name):
    i = upvar_index(fn, name)
    return ("upvar", i) if i is not None else None
