#!/usr/bin/env python3
"""tools/mkbenign.py <name> <about> <file> <regex> <replacement> [<file> <regex> <replacement> ...]
Create benign/<name>.patch: a behaviour-preserving edit (word-boundary regex replace) that no check may report."""
import difflib, os, re, sys
name, about = sys.argv[1:3]
rest = sys.argv[3:]
out = ["# about: %s" % about]
files = {}
order = []
for i in range(0, len(rest), 3):
    f, rx, rep = rest[i:i+3]
    if f not in files:
        files[f] = open(os.path.join("/repo", f)).read()
        order.append(f)
    new, n = re.subn(rx, rep, files[f])
    if n == 0:
        print("no match for", rx, "in", f); sys.exit(1)
    files[f] = new
for f in order:
    src = open(os.path.join("/repo", f)).read()
    out.append("".join(difflib.unified_diff(src.splitlines(True), files[f].splitlines(True), "a/" + f, "b/" + f, n=3)).rstrip("\n"))
os.makedirs("/verif/benign", exist_ok=True)
p = "/verif/benign/%s.patch" % name
open(p, "w").write("\n".join(out) + "\n")
print("wrote", p)
