"""Follow a `&mut field` borrow into the local callees that receive it (transitively)."""
from .effects import effects_of


def pointer_receivers(world, adt, field):
    """{(fn id, param local)}: functions that receive a `&mut adt.field` (directly or forwarded) as that parameter,
    plus [(fn, bb, term, arg index)] sites where the borrow is handed to a non-local callee."""
    eff = effects_of(world)
    recv = set()
    ext = []
    work = []
    for a in eff.writers_of(adt, field, ("mutarg",)):
        t = a.fn.blocks[a.bb]["term"]
        path, ai = a.detail
        ids = eff._callee_ids(t["f"]) if "id" in t["f"] else []
        if ids:
            for cid in ids:
                work.append((cid, ai + 1))
        else:
            ext.append((a.fn, a.bb, t, ai))
    while work:
        cid, l = work.pop()
        if (cid, l) in recv:
            continue
        recv.add((cid, l))
        fn = world.fns[cid]
        ref = eff._ref_targets(fn)
        for (bb, t) in fn.calls():
            for ai, a in enumerate(t["args"]):
                if a["k"] not in ("copy", "move") or a["p"]["proj"]:
                    continue
                al = a["p"]["l"]
                forwards = (al == l)
                for (tp, tm) in ref.get(al, []):
                    if tp["l"] == l and tp["proj"] == [{"k": "deref"}]:
                        forwards = True
                if forwards:
                    ids = eff._callee_ids(t["f"]) if "id" in t["f"] else []
                    if ids:
                        for c2 in ids:
                            work.append((c2, ai + 1))
                    else:
                        ext.append((fn, bb, t, ai))
    return recv, ext


def direct_param_stores(fn, l):
    """[(bb, si, stmt)] of `(*_l) = ..` stores (through the parameter itself or a reborrow of it)."""
    out = []
    aliases = {l}
    changed = True
    while changed:
        changed = False
        for b in fn.blocks:
            for s in b["stmts"]:
                if s["k"] == "assign" and not s["p"]["proj"] and s["rv"]["k"] in ("ref", "use"):
                    src = s["rv"].get("p") or s["rv"].get("o", {}).get("p")
                    if src and src["l"] in aliases and (src["proj"] == [{"k": "deref"}] or not src["proj"]) and s["p"]["l"] not in aliases:
                        if s["rv"]["k"] == "ref" and src["proj"] != [{"k": "deref"}]:
                            continue
                        aliases.add(s["p"]["l"])
                        changed = True
    for bi, b in enumerate(fn.blocks):
        if b["cleanup"]:
            continue
        for si, s in enumerate(b["stmts"]):
            if s["k"] == "assign" and s["p"]["l"] in aliases and s["p"]["proj"] == [{"k": "deref"}]:
                out.append((bi, si, s))
    return out
