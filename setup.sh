#!/bin/sh
# Build the fact extractor and warm the dependency artefacts + the `prod` fact set. Offline.
set -e
cd "$(dirname "$0")"
export CARGO_NET_OFFLINE=true
(cd driver && cargo +nightly build --offline --release 2>&1 | tail -3)
python3 -m sa.extract /repo prod
