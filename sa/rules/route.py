"""Shared by C04 / C10 / C01: where does the index that `handle_srt_packet` routes on come from?"""
from ..ctx import CONN, is_call, is_field, is_iter_next, sname
from ..expr import show, walk
from ..linkpred import LINK, NOW, LinkSpace, find_link_and_now, mapping_for
from ..pathcond import calls_to

HSP = "srtla_send::sender::packet_handler::handle_srt_packet::{closure#0}"
FWD = "srtla_send::sender::packet_handler::forward_via_connection"
SEL = "srtla_core::selection::select_connection_idx"
PRE = "srtla_send::sender::packet_handler::select_pre_registration_connection"


from ..roles import upvar_index  # noqa: E402


class Source:
    def __init__(self, kind, point, pc, expr, producer=None, index_expr=None):
        self.kind = kind            # "selector" | "producer" | "other"
        self.point = point
        self.pc = pc
        self.expr = expr
        self.producer = producer    # stable name of the local function that produced the index
        self.index_expr = index_expr


def routing_sources(ctx, rule):
    """(fn, pa, post-registration forward site bb, [Source]) for handle_srt_packet; None if anchors are missing."""
    fn = ctx.fn(HSP, rule)
    if not fn:
        return None
    pa = ctx.pa(fn)
    fwd = calls_to(fn, stable=FWD)
    rc = upvar_index(fn, "registration_complete")
    if rc is None or len(fwd) < 2:
        ctx.chk.missing(rule, "handle_srt_packet: registration_complete / forward_via_connection sites",
                        "upvar %s, %d forward sites" % (rc, len(fwd)))
        return None
    RC = pa.atom(("upvar", rc))
    post = [(bb, t) for (bb, t) in fwd if pa.entails(pa.pc_block(bb), RC)]
    pre = [(bb, t) for (bb, t) in fwd if pa.entails(pa.pc_block(bb), pa.bdd.NOT(RC))]
    if len(post) != 1 or len(pre) != 1 or len(fwd) != 2:
        ctx.chk.ob(rule, "one pre-registration and one post-registration forward site", False,
                   "%d forward sites: %d under registration_complete, %d under its negation" % (len(fwd), len(post), len(pre)),
                   key="%s:forward-sites-shape" % rule)
        return None
    bb, t = post[0]
    nst = len(fn.blocks[bb]["stmts"])
    arg0 = pa.fa.val_operand(t["args"][0], (bb, nst))
    # arg0 = (X as Some).0 ; X is the routing decision
    dec = arg0
    if dec[0] == "field" and dec[1][0] == "as" and dec[1][2] == "Some":
        dec = dec[1][1]
    sources = []
    if dec[0] == "var":
        for (dp, e) in pa.fa.def_values(dec[1], (bb, nst)):
            sources.append(_classify(ctx, pa, fn, dp, e))
    else:
        sources.append(_classify(ctx, pa, fn, (bb, nst), dec))
    return fn, pa, (bb, t), (pre[0][0], pre[0][1]), sources, RC


def _classify(ctx, pa, fn, dp, e):
    pc = pa.pc_at(dp[0], dp[1]) if dp != "entry" else pa.bdd.TRUE
    if is_call(e, stable=SEL):
        return Source("selector", dp, pc, e, SEL)
    # Some(x) with x = (producer(..) as Some).0
    if e[0] == "agg" and e[2].endswith("Option::Some") and len(e[3]) == 1:
        x = e[3][0]
        y = x
        if y[0] == "field" and y[1][0] == "as":
            y = y[1][1]
        if y[0] == "call" and y[4]:
            return Source("producer", dp, pc, e, y[4], x)
    if e[0] == "call" and e[4]:
        return Source("producer", dp, pc, e, e[4], None)
    return Source("other", dp, pc, e)


def producer_admission(ctx, sp, producer_stable, rule):
    """Formula over LINK under which `producer` (a loop over links returning Option<usize>) may yield a link's index."""
    fn = ctx.fn(producer_stable, rule)
    if not fn:
        return None
    pa = ctx.pa(fn)
    b = pa.bdd
    # index production sites: assignments of `Some(i)` inside a loop where i comes from the iterator
    cfg = ctx.cfg(fn)
    res = sp.bdd.FALSE
    n = 0
    for bi, blk in enumerate(fn.blocks):
        if blk["cleanup"] or not cfg.in_cycle(bi):
            continue
        for si, s in enumerate(blk["stmts"]):
            if s["k"] != "assign" or s["rv"]["k"] != "agg" or s["rv"].get("vn") != "Some":
                continue
            v = pa.fa.val_rvalue(s["rv"], (bi, si))
            idx = v[3][0]
            # idx = (next(..) as Some).0.0 ; link = (next(..) as Some).0.1
            if not (idx[0] == "field" and idx[3] == "0" and idx[1][0] == "field"):
                continue
            link = ("field", idx[1], idx[2], "1")
            pc = pa.pc_at(bi, si)
            f = sp.import_formula(pa, pc, mapping_for(link, None))
            vis = frozenset(i for i in sp.bdd.support(f) if _is_iter_atom(sp.bdd.vars[i]))
            res = sp.bdd.OR(res, sp.bdd.exists(f, vis))
            n += 1
    if n == 0:
        return None
    return res


def _is_iter_atom(a):
    for x in walk(a):
        if is_iter_next(x):
            return True
    return False
