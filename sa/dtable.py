"""Decision tables: expand multi-definition locals ('var' nodes left by value reconstruction) into guarded alternatives.

A `let x = if c { a } else { b }` (or a `let mut` with staged re-assignments) reconstructs to ('var', l, def sites).  For a
rule that wants to state *under which condition which value* reaches a use, expand() turns an expression containing such
nodes into rows [(condition BDD, var-free expression)], where the condition of a definition d is

    PC(d)  &  AND over definitions d' that can follow d inside the region:  !PC(d')

and atoms of conditions that mention an expanded local are re-evaluated with the chosen alternative substituted (constant
folded when the alternative is a literal / aggregate).  Regions are acyclic pieces of a body (one loop iteration: pass the
PathA built with entry=<iteration start> and avoid_blocks={loop switch}); the result is checked for exclusivity and the
caller can check coverage.
"""
from .expr import mk_bin, mk_not, subst, walk

MAX_ROWS = 4096


class NotEvaluable(Exception):
    pass


def simp(e):
    """Constant-fold projections of aggregates, variant tests of literal enums and comparisons of literals."""
    def f(x):
        return None
    return _simp(e)


def _simp(e):
    if not isinstance(e, tuple) or not e:
        return e
    t = e[0]
    if t in ("param", "upvar", "const", "constdef", "fn", "unknown", "resume", "var"):
        return e
    out = []
    for x in e:
        if isinstance(x, tuple) and x and isinstance(x[0], str):
            out.append(_simp(x))
        elif isinstance(x, tuple) and x and isinstance(x[0], tuple):
            out.append(tuple(_simp(y) if isinstance(y, tuple) else y for y in x))
        else:
            out.append(x)
    r = tuple(out)
    t = r[0]
    if t == "field" and r[1][0] == "agg" and r[1][1] in ("tuple", "adt"):
        ops = r[1][3]
        names = r[1][4] if len(r[1]) > 4 else ()
        n = r[3]
        if names and n in names:
            return ops[names.index(n)]
        if n.isdigit() and int(n) < len(ops):
            return ops[int(n)]
    if t == "field" and r[1][0] == "as" and r[1][1][0] == "agg":
        return _simp(("field", r[1][1]) + r[2:])
    if t == "as" and r[1][0] == "agg":
        return r
    if t == "is" and r[1][0] == "agg" and r[1][1] == "adt":
        return ("const", r[1][2].endswith("::" + r[2]), "bool")
    if t == "is" and r[1][0] == "const" and isinstance(r[1][1], str):
        return ("const", r[1][1].endswith(r[2]), "bool")
    if t == "discr" and r[1][0] == "agg":
        return r
    if t == "call" and len(r[2]) >= 1 and r[2][0][0] == "agg" and r[2][0][1] == "adt" and "option::Option::" in r[2][0][2]:
        some = r[2][0][2].endswith("::Some")
        if r[1].endswith("Option::<T>::is_some"):
            return ("const", some, "bool")
        if r[1].endswith("Option::<T>::is_none"):
            return ("const", not some, "bool")
        if r[1].endswith("Option::<T>::unwrap") and some:
            return r[2][0][3][0]
        if r[1].endswith("Option::<T>::unwrap_or"):
            return r[2][0][3][0] if some else r[2][1]
    if t == "not":
        return mk_not(r[1])
    if t == "bin" and r[2][0] == "const" and r[3][0] == "const" and isinstance(r[2][1], (int, float)) and isinstance(r[3][1], (int, float)) \
            and not isinstance(r[2][1], bool) and not isinstance(r[3][1], bool):
        a, b, op = r[2][1], r[3][1], r[1]
        if op == "Lt":
            return ("const", a < b, "bool")
        if op == "Le":
            return ("const", a <= b, "bool")
        if op == "Eq":
            return ("const", a == b, "bool")
        if op == "Ne":
            return ("const", a != b, "bool")
    if t == "bin":
        return mk_bin(r[1], r[2], r[3], r[4])
    return r


def subst_formula(pa, f, mapping):
    """Rebuild BDD f with every atom rewritten by `mapping` (expr -> expr|None) and constant folded."""
    b = pa.bdd
    memo = {}

    def atom_formula(a):
        a2 = _simp(subst(a, mapping))
        if a2 == a:
            return b.var(a)
        if a2[0] == "const" and isinstance(a2[1], bool):
            return b.TRUE if a2[1] else b.FALSE
        if a2[0] == "is":
            return pa.is_atom(a2)
        if a2[0] in ("bin", "not"):
            return pa.formula(a2, (0, 0))
        return pa.atom(a2)

    def rec(n):
        if n <= 1:
            return n
        r = memo.get(n)
        if r is not None:
            return r
        v, lo, hi = b.nodes[n]
        r = b.ITE(atom_formula(b.vars[v]), rec(hi), rec(lo))
        memo[n] = r
        return r
    return rec(f)


def def_rows(pa, var, avoid_blocks=()):
    """[(def point, value expr, reach condition)] for a ('var', l, sites) node."""
    fa, cfg, b = pa.fa, pa.cfg, pa.bdd
    l = var[1]
    rows = []
    for site in var[2]:
        if site == "entry" or site == ("entry",):
            rows.append((None, ("param", l), b.TRUE))
            continue
        d = [x for x in fa.defs.get(l, []) if (x[0], x[1]) == tuple(site)]
        if not d:
            raise NotEvaluable("definition of _%d at %s not found" % (l, site))
        d = d[0]
        if d[2] == "assign":
            v = fa.val_rvalue(d[3], (d[0], d[1]))
        elif d[2] == "call":
            v = fa._val_call(d[3], (d[0], d[1]), 0)
        else:
            raise NotEvaluable("definition of _%d at %s is a resume value" % (l, site))
        rows.append(((d[0], d[1]), v, pa.pc_at(d[0], d[1])))
    out = []
    for i, (dp, v, pc) in enumerate(rows):
        cond = pc
        for j, (dq, _v, pcq) in enumerate(rows):
            if i == j or dq is None:
                continue
            if dp is None:
                later = True
            elif dp[0] == dq[0]:
                later = dq[1] > dp[1]
            else:
                later = dq[0] in cfg.reach_strict(dp[0], avoid_blocks)
            if later:
                cond = b.AND(cond, b.NOT(pcq))
        out.append((dp, v, cond))
    return out


def in_region_cycle(pa, var, avoid_blocks=()):
    """Some definition of the local sits on a cycle of the analysed region: its path condition then speaks about *an*
    iteration, not about the last one, so the local cannot be expanded (it stays an opaque atom)."""
    for site in var[2]:
        if site == "entry" or site == ("entry",):
            continue
        bb = site[0]
        if bb in pa.cfg.reach_strict(bb, avoid_blocks):
            return True
    return False


def expand(pa, e, cond=None, avoid_blocks=(), keep=lambda var: False):
    """Rows [(condition, var-free expr)] for expression e under `cond` (default TRUE)."""
    b = pa.bdd
    user_keep = keep
    memo = {}

    def keep(var):
        r = memo.get(var)
        if r is None:
            r = bool(user_keep(var)) or in_region_cycle(pa, var, avoid_blocks)
            memo[var] = r
        return r
    work = [(b.TRUE if cond is None else cond, e)]
    done = []
    guard = 0
    while work:
        guard += 1
        if guard > 20000 or len(work) + len(done) > MAX_ROWS:
            raise NotEvaluable("decision table too large")
        c, x = work.pop()
        if c == b.FALSE:
            continue
        x = _simp(x)
        vs = [y for y in walk(x) if y[0] == "var" and not keep(y)]
        # variables mentioned only by the condition's atoms must be expanded as well
        if not vs:
            for a in pa.atoms_of(c):
                vs = [y for y in walk(a) if isinstance(y, tuple) and y and y[0] == "var" and not keep(y)]
                if vs:
                    break
        if not vs:
            done.append((c, x))
            continue
        v = vs[0]
        for (dp, val, rc) in def_rows(pa, v, avoid_blocks):
            m = (lambda y, v=v, val=val: val if y == v else None)
            c2 = b.AND(subst_formula(pa, c, m), subst_formula(pa, rc, m))
            if pa.sat(c2):
                work.append((c2, _simp(subst(x, m))))
    return done


def merge(pa, rows):
    """Group rows by value: {expr: OR of conditions}."""
    out = {}
    for c, x in rows:
        out[x] = pa.bdd.OR(out.get(x, pa.bdd.FALSE), c)
    return out


def exclusive(pa, rows):
    b = pa.bdd
    for i in range(len(rows)):
        for j in range(i + 1, len(rows)):
            if rows[i][1] != rows[j][1] and pa.sat(b.AND(rows[i][0], rows[j][0])):
                return False
    return True
