"""Predicates over one link: bring formulas from different bodies (selector loops, `any` closures,
return-value formulas of helpers) into one space with the link under the alias LINK and the clock NOW."""
from .ctx import CONN, is_call, is_field
from .expr import subst, walk
from .pathcond import FormulaSpace, PathA, patha_of

LINK = ("sym", "LINK")
NOW = ("sym", "NOW")


class LinkSpace(FormulaSpace):
    def __init__(self):
        FormulaSpace.__init__(self)

    # canonical atoms -----------------------------------------------------------
    def _find_or_fresh(self, pred, label):
        hits = self.find(pred)
        if hits:
            return hits[0][1]
        return self.atom(("sym", label))

    def timed_out(self):
        return self._find_or_fresh(lambda a: is_call(a, stable=CONN + "::is_timed_out") and a[2][0] == LINK,
                                   "is_timed_out(LINK) [not tested anywhere]")

    def schedulable(self):
        return self._find_or_fresh(lambda a: is_call(a, stable=CONN + "::is_schedulable") and a[2][0] == LINK,
                                   "is_schedulable(LINK) [not tested anywhere]")

    def field(self, name):
        return self._find_or_fresh(lambda a: is_field(a, name, CONN) and a[1] == LINK, "LINK.%s [not tested anywhere]" % name)

    def call(self, stable_suffix):
        return self._find_or_fresh(lambda a: is_call(a) and a[4] and a[4].endswith(stable_suffix) and a[2] and a[2][0] == LINK,
                                   "%s(LINK) [not tested anywhere]" % stable_suffix)


def mapping_for(link_expr, now_expr, extra=None):
    def m(e):
        if link_expr is not None and e == link_expr:
            return LINK
        if now_expr is not None and e == now_expr:
            return NOW
        if extra:
            return extra(e)
        return None
    return m


def closure_rt(space, world, closure_fn, parent_fn, now_expr_parent=None):
    """RT of an `|c| ...` closure over links, imported into `space` (param 2 -> LINK, upvars -> parent values)."""
    pa = patha_of(world, closure_fn)
    rt = pa.ret_true()
    ppa = patha_of(world, parent_fn)
    # captured values: operands of the closure aggregate in the parent
    ups = {}
    for bi, b in enumerate(parent_fn.blocks):
        if b["cleanup"]:
            continue
        for si, s in enumerate(b["stmts"]):
            if s["k"] == "assign" and s["rv"]["k"] == "agg" and s["rv"].get("def") == closure_fn.id:
                for i, o in enumerate(s["rv"]["ops"]):
                    ups[i] = ppa.fa.val_operand(o, (bi, si))

    def m(e):
        if e == ("param", 2):
            return LINK
        if e[0] == "upcap":
            # capture i of the closure captured as upvar k
            v = ups.get(e[1])
            while isinstance(v, tuple) and v and v[0] in ("old", "deref"):
                v = v[1]
            if isinstance(v, tuple) and v and v[0] == "agg" and v[1] == "closure" and e[2] < len(v[3]):
                c = v[3][e[2]]
                if now_expr_parent is not None and c == now_expr_parent:
                    return NOW
                return ("sym", "captured:%r" % (c,))
            return ("sym", "captured:%r" % (e,))
        if e[0] == "upvar":
            v = ups.get(e[1])
            if v is not None:
                if now_expr_parent is not None and v == now_expr_parent:
                    return NOW
                return ("sym", "captured:%r" % (v,))
        return None
    return space.import_formula(pa, rt, m), ups


def find_link_and_now(pa, fn, within=None):
    """The expression that denotes the current link / the clock in a selector loop: arguments of its
    `is_timed_out(link, now)` call."""
    for (bb, t) in fn.calls():
        f = t["f"]
        if f.get("stable") == CONN + "::is_timed_out" and (within is None or bb in within):
            nst = len(fn.blocks[bb]["stmts"])
            return (pa.fa.val_operand(t["args"][0], (bb, nst)), pa.fa.val_operand(t["args"][1], (bb, nst)), bb)
    return None


def iter_elem_exprs(pa, fn):
    """Expressions of the shape `(next(..) as Some).0[.k]` used as link / index in loops over connections."""
    out = set()
    for a in pa.bdd.vars:
        for x in walk(a):
            if x and x[0] == "field" and x[1] and x[1][0] in ("as", "field"):
                pass
    return out
