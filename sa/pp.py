"""Readable rendering of the extracted MIR (debugging aid and evidence samples)."""
from .facts import const_value


def place_s(fn, p):
    l = p["l"]
    nm = fn.name_of(l) if fn is not None else None
    s = "_%d" % l + (("<%s>" % nm) if nm else "")
    for e in p["proj"]:
        k = e["k"]
        if k == "deref":
            s = "(*%s)" % s
        elif k == "field":
            s = "%s.%s" % (s, e["n"])
        elif k == "index":
            s = "%s[_%d]" % (s, e["l"])
        elif k == "cindex":
            s = "%s[%s%d]" % (s, "-" if e["end"] else "", e["off"])
        elif k == "subslice":
            s = "%s[%d..%s%d]" % (s, e["from"], "-" if e["end"] else "", e["to"])
        elif k == "downcast":
            s = "(%s as %s)" % (s, e["n"])
        else:
            s = "%s.<%s>" % (s, k)
    return s


def short_path(path):
    return path


def operand_s(fn, o):
    k = o["k"]
    if k in ("copy", "move"):
        return ("move " if k == "move" else "") + place_s(fn, o["p"])
    if k == "const":
        if "fn" in o:
            return "fn:" + o["fn"]["path"]
        v = const_value(o)
        d = o.get("def")
        if v is not None:
            if d and "promoted" not in o:
                return "%s{%r}" % (d.split("::")[-1], v)
            return "%r_%s" % (v, o["ty"])
        if d:
            return "const:%s%s" % (d, (":promoted%d" % o["promoted"]) if "promoted" in o else "")
        return "const<%s>" % o["ty"]
    return "<%s>" % o.get("txt", k)


def rvalue_s(fn, rv):
    k = rv["k"]
    if k == "use":
        return operand_s(fn, rv["o"])
    if k == "ref":
        return ("&mut " if rv["mut"] else "&") + place_s(fn, rv["p"])
    if k == "raw":
        return ("&raw mut " if rv["mut"] else "&raw const ") + place_s(fn, rv["p"])
    if k == "bin":
        return "%s(%s, %s)" % (rv["op"], operand_s(fn, rv["a"]), operand_s(fn, rv["b"]))
    if k == "un":
        return "%s(%s)" % (rv["op"], operand_s(fn, rv["a"]))
    if k == "cast":
        return "%s as %s [%s]" % (operand_s(fn, rv["a"]), rv["ty"], rv["ck"])
    if k == "agg":
        ops = [operand_s(fn, o) for o in rv["ops"]]
        ak = rv["ak"]
        if ak == "adt":
            fields = rv.get("fields", [])
            if len(fields) == len(ops):
                body = ", ".join("%s: %s" % (f, o) for f, o in zip(fields, ops))
            else:
                body = ", ".join(ops)
            return "%s::%s{%s}" % (rv["adt"].split("::")[-1], rv["vn"], body)
        if ak in ("closure", "coroutine", "coroutine_closure"):
            return "%s[%s](%s)" % (ak, rv["def"], ", ".join(ops))
        return "%s(%s)" % (ak, ", ".join(ops))
    if k == "discr":
        return "discriminant(%s)" % place_s(fn, rv["p"])
    if k == "repeat":
        return "[%s; %s]" % (operand_s(fn, rv["a"]), rv["n"])
    return rv.get("txt", k)


def stmt_s(fn, s):
    k = s["k"]
    if k == "assign":
        return "%s = %s" % (place_s(fn, s["p"]), rvalue_s(fn, s["rv"]))
    if k == "setdiscr":
        return "discriminant(%s) = %d" % (place_s(fn, s["p"]), s["v"])
    if k in ("live", "dead"):
        return "Storage%s(_%d)" % ("Live" if k == "live" else "Dead", s["l"])
    return s.get("txt", k)


def term_s(fn, t):
    k = t["k"]
    if k == "goto":
        return "goto -> bb%d" % t["t"]
    if k == "switch":
        tg = ", ".join("%s: bb%d" % (v, b) for v, b in t["targets"])
        return "switchInt(%s) -> [%s, otherwise: bb%d]" % (operand_s(fn, t["d"]), tg, t["otherwise"])
    if k == "call":
        f = t["f"]
        if "id" in f:
            name = f["path"]
        else:
            name = "indirect:" + operand_s(fn, f["o"])
        args = ", ".join(operand_s(fn, a) for a in t["args"])
        tgt = ("bb%d" % t["t"]) if t["t"] is not None else "!"
        return "%s = %s(%s) -> %s" % (place_s(fn, t["dest"]), name, args, tgt)
    if k == "assert":
        extra = ""
        if t["ak"] == "BoundsCheck":
            extra = " len=%s index=%s" % (operand_s(fn, t["len"]), operand_s(fn, t["index"]))
        elif t["ak"] == "Overflow":
            extra = " %s(%s, %s)" % (t["op"], operand_s(fn, t["a"]), operand_s(fn, t["b"]))
        return "assert(%s == %s) [%s%s] -> bb%d" % (operand_s(fn, t["cond"]), t["expected"], t["ak"], extra, t["t"])
    if k == "drop":
        return "drop(%s) -> bb%d" % (place_s(fn, t["p"]), t["t"])
    if k == "yield":
        return "yield(%s) -> bb%d" % (operand_s(fn, t["v"]), t["resume"])
    return k


def dump_fn(fn, show_storage=False, show_cleanup=False):
    out = []
    out.append("fn %s   [%s]  %s  kind=%s argc=%d" % (fn.stable, fn.id, fn.loc, fn.kind, fn.argc))
    for i, l in enumerate(fn.locals):
        nm = fn.name_of(i)
        out.append("    let _%d: %s%s" % (i, l["ty"], ("  // " + nm) if nm else ""))
    for dbg in fn.debug:
        if dbg["p"]["proj"]:
            out.append("    debug %s => %s" % (dbg["name"], place_s(None, dbg["p"])))
    for i, b in enumerate(fn.blocks):
        if b["cleanup"] and not show_cleanup:
            continue
        out.append("  bb%d%s:" % (i, " (cleanup)" if b["cleanup"] else ""))
        for s in b["stmts"]:
            if s["k"] in ("live", "dead") and not show_storage:
                continue
            mac = (" <%s>" % s["mac"]) if s.get("mac") else ""
            out.append("      %s;%s  // %s" % (stmt_s(fn, s), mac, s.get("loc", "").rsplit(":", 1)[-1]))
        t = b["term"]
        mac = (" <%s>" % t["mac"]) if t.get("mac") else ""
        out.append("      %s%s  // %s" % (term_s(fn, t), mac, t.get("loc", "").rsplit(":", 1)[-1]))
    return "\n".join(out)
