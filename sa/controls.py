"""Positive controls: seeded one-line variants that a rule family must flag (thorough tier).

Each control is a unified diff in /verif/controls/<prop>/<name>.patch whose first lines are
  # expect: <substring of the violation key that must be reported>
  # about: <one line>
It is applied to a scratch copy of /repo's *current* working tree (outside /repo and /verif), the copy is
extracted and analysed with the same rules, and then removed together with its build output.  A control that
no longer applies is skipped and reported; one that applies but does not fire is a checker error (exit 2).
"""
import fcntl
import glob
import os
import random
import shutil
import subprocess

from . import extract, facts, report
from .ctx import Ctx

SCRATCH = "/var/tmp/srtla_verif_scratch"


def make_scratch(repo="/repo", dest=SCRATCH):
    shutil.rmtree(dest, ignore_errors=True)
    os.makedirs(dest)
    subprocess.check_call(["rsync", "-a", "--exclude", "target", "--exclude", ".git", repo + "/", dest + "/"])
    return dest


def apply_patch(dest, patch_path):
    with open(patch_path) as f:
        text = f.read()
    body = "\n".join(l for l in text.splitlines() if not l.startswith("# ")) + "\n"
    p = subprocess.run(["patch", "-p1", "--no-backup-if-mismatch", "-s", "-f"], cwd=dest, input=body, text=True,
                       stdout=subprocess.PIPE, stderr=subprocess.STDOUT)
    return p.returncode == 0, p.stdout


def header(patch_path):
    h = {}
    with open(patch_path) as f:
        for l in f:
            if l.startswith("# ") and ":" in l:
                k, v = l[2:].split(":", 1)
                h[k.strip()] = v.strip()
            elif not l.startswith("#"):
                break
    return h


def drop_variant_facts(repo_dir):
    """Variant facts are single-use: remove them (never the entry of /repo's own tree)."""
    h = extract.source_hash(repo_dir)[0]
    if h != extract.source_hash("/repo")[0]:
        shutil.rmtree(os.path.join(extract.CACHE, "facts", h), ignore_errors=True)


def violations_in(repo_dir, mod, prop, config="prod"):
    """Run the property's rules on a checkout; return {violation key: [detail]}."""
    fdir, _info = extract.facts_for(repo_dir, config)
    worlds = facts.load_worlds(fdir)
    sub = report.Check(prop, "quick", 0, "other")
    ctx = Ctx(worlds, sub, "quick", config)
    mod.run(ctx)
    out = {}
    for o in sub.obs:
        if not o.ok:
            out.setdefault(o.key, []).append(o.detail)
    return out


def run_controls(prop, mod, chk, seed=0):
    pats = sorted(glob.glob(os.path.join(report.VERIF, "controls", prop, "*.patch")))
    rnd = random.Random(seed)
    rnd.shuffle(pats)
    fired, skipped = [], []
    os.makedirs(extract.CACHE, exist_ok=True)
    with open(os.path.join(extract.CACHE, "scratch.lock"), "w") as lock:
        fcntl.flock(lock, fcntl.LOCK_EX)
        try:
            for p in pats:
                h = header(p)
                name = os.path.basename(p)
                dest = make_scratch()
                ok, out = apply_patch(dest, p)
                if not ok:
                    skipped.append({"control": name, "why": "patch does not apply to the current tree"})
                    continue
                try:
                    v = violations_in(dest, mod, prop)
                except extract.ExtractError as e:
                    skipped.append({"control": name, "why": "variant does not build: %s" % str(e)[-300:]})
                    continue
                drop_variant_facts(dest)
                exp = h.get("expect", "")
                hits = [k for k in v if exp in k]
                if not hits:
                    raise report.CheckerError("positive control %s applies but rule did not fire (expected key containing %r; got %s)"
                                              % (name, exp, sorted(v)[:8]))
                fired.append({"control": name, "about": h.get("about", ""), "reported": hits[:3]})
        finally:
            shutil.rmtree(SCRATCH, ignore_errors=True)
            fcntl.flock(lock, fcntl.LOCK_UN)
    if True:
        # negative controls: behaviour-preserving edits (renames, reordered independent stores, added logging, commuted conjuncts,
        # an extracted helper ..) that this property's rules must not report
        quiet = []
        base = None
        with open(os.path.join(extract.CACHE, "scratch.lock"), "w") as lock2:
            fcntl.flock(lock2, fcntl.LOCK_EX)
            try:
                for p in sorted(glob.glob(os.path.join(report.VERIF, "benign", "*.patch"))):
                    name = os.path.basename(p)
                    dest = make_scratch()
                    ok, out = apply_patch(dest, p)
                    if not ok:
                        skipped.append({"control": "benign/" + name, "why": "patch does not apply to the current tree"})
                        continue
                    try:
                        # the facts of a benign variant do not depend on the property: they stay in the content-addressed cache so
                        # that the thorough runs of the other properties reuse them (pruned by age / count in extract._prune_cache)
                        v = violations_in(dest, mod, prop)
                    except extract.ExtractError as e:
                        skipped.append({"control": "benign/" + name, "why": "variant does not build"})
                        continue
                    if base is None:
                        base = set(violations_in("/repo", mod, prop))
                    new = sorted(set(v) - base)
                    if new:
                        raise report.CheckerError("benign variant %s (%s) is reported by the rules of %s: %s - a false alarm of the checker"
                                                  % (name, header(p).get("about", ""), prop, new[:4]))
                    quiet.append({"variant": name, "about": header(p).get("about", "")})
            finally:
                shutil.rmtree(SCRATCH, ignore_errors=True)
                fcntl.flock(lock2, fcntl.LOCK_UN)
        chk.info["benign_variants_silent"] = quiet
    chk.info["controls_fired"] = fired
    chk.info["controls_skipped"] = skipped
    for f in fired:
        chk.ob("CONTROL", "control %s fires" % f["control"], True, "reported %s" % f["reported"], kind="control",
               nontrivial=False)
