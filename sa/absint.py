"""E4 - forward abstract interpretation over MIR: intervals (+NaN), symbolic bounds, pointers, LEN facts.

Values
  Num(ty, lo, hi, nan, sym)   integer / float interval; `sym` is an optional expression over entry symbols in the
                              grammar {('s',name) ('c',v) ('+',a,b) ('-',a,b) ('min',a,b) ('max',a,b) ('*c',a,c) ('/c',a,c)}
  Bool(t, f, cmp)             may-be-true / may-be-false, plus the comparison (op, lhs ref, rhs ref) that produced it
  Ptr(targets)                set of cell keys
  Tup(items)                  small tuples / aggregates by position (checked-op pairs, Option payloads)
  Top                         anything

Cells are (frame, local, proj) with proj a tuple of 'deref' | ('f', name) | 'idx' | ('dc', variant).
Loads of a cell that was never stored materialise the declared type's full range (or a rule-supplied field
invariant / entry constraint).  A local loaded from a cell remembers it (`src`) so that refining the local on
a branch also refines the cell, until the cell is stored to.
"""
import math
from collections import defaultdict

from .cfg import cfg_of
from .effects import effects_of
from .facts import const_value

INT_RANGE = {
    "i8": (-2**7, 2**7 - 1), "i16": (-2**15, 2**15 - 1), "i32": (-2**31, 2**31 - 1), "i64": (-2**63, 2**63 - 1),
    "i128": (-2**127, 2**127 - 1), "isize": (-2**63, 2**63 - 1),
    "u8": (0, 2**8 - 1), "u16": (0, 2**16 - 1), "u32": (0, 2**32 - 1), "u64": (0, 2**64 - 1),
    "u128": (0, 2**128 - 1), "usize": (0, 2**64 - 1), "char": (0, 0x10FFFF),
}
FLOATS = ("f32", "f64")
INF = float("inf")


def is_int(ty):
    return ty in INT_RANGE


def is_float(ty):
    return ty in FLOATS


# --------------------------------------------------------------------------- values

class Num:
    __slots__ = ("ty", "lo", "hi", "nan", "sym", "src", "lin")

    def __init__(self, ty, lo, hi, nan=False, sym=None, src=None, lin=None):
        self.ty = ty
        self.lo = lo
        self.hi = hi
        self.nan = nan
        self.sym = sym
        self.src = src      # cell key this value was loaded from (still equal to it)
        self.lin = lin      # (coeff, symbol name, const): value == coeff*symbol + const (index reasoning)

    def copy(self, **kw):
        n = Num(self.ty, self.lo, self.hi, self.nan, self.sym, self.src, self.lin)
        for k, v in kw.items():
            setattr(n, k, v)
        return n

    def is_const(self):
        return self.lo == self.hi and not self.nan

    def __repr__(self):
        s = "%s[%s, %s]" % (self.ty, _fmt(self.lo), _fmt(self.hi))
        if self.nan:
            s += "+NaN"
        if self.sym is not None:
            s += " = " + sym_str(self.sym)
        return s

    def key(self):
        return ("N", self.ty, self.lo, self.hi, self.nan, self.sym, self.lin)


def _fmt(x):
    if isinstance(x, float):
        return "%g" % x
    return str(x)


class Bool:
    __slots__ = ("t", "f", "cmp", "src")

    def __init__(self, t=True, f=True, cmp=None, src=None):
        self.t = t
        self.f = f
        self.cmp = cmp
        self.src = src

    def __repr__(self):
        return "bool{%s%s}" % ("T" if self.t else "", "F" if self.f else "")

    def key(self):
        return ("B", self.t, self.f)


class Ptr:
    __slots__ = ("targets", "lencell", "src")

    def __init__(self, targets, lencell=None, src=None):
        self.targets = frozenset(targets)
        self.lencell = lencell   # for slice / array pointers: the memory cell that holds the length (a usize Num)
        self.src = src

    def __repr__(self):
        return "ptr%s%s" % (sorted(self.targets, key=repr)[:2], (" len@%s" % (self.lencell,)) if self.lencell is not None else "")

    def key(self):
        return ("P", self.targets, self.lencell)


class Tup:
    __slots__ = ("items", "src", "tag")

    def __init__(self, items, tag=None):
        self.items = list(items)
        self.src = None
        self.tag = tag

    def __repr__(self):
        return "(%s)" % ", ".join(repr(i) for i in self.items)

    def key(self):
        return ("T", self.tag, tuple(i.key() for i in self.items))


class TopV:
    __slots__ = ("ty", "src")

    def __init__(self, ty=None):
        self.ty = ty
        self.src = None

    def __repr__(self):
        return "T"

    def key(self):
        return ("Top",)


TOP = TopV()


class Facts:
    """Linear facts `symA + k <= symB` that hold on the current path (k maximal known)."""
    __slots__ = ("d", "src")

    def __init__(self, d=None):
        self.d = dict(d or {})
        self.src = None

    def key(self):
        return ("F", tuple(sorted(self.d.items())))

    def add(self, a, k, b):
        """Add a + k <= b and close transitively (one step through the new edge)."""
        if a == b:
            return self
        if (a, b) in self.d and self.d[(a, b)] >= k:
            return self
        d = dict(self.d)
        d[(a, b)] = k
        ins = [(x, k0) for (x, y), k0 in self.d.items() if y == a and x != b]
        outs = [(y, k2) for (x, y), k2 in self.d.items() if x == b and y != a]
        for (y, k2) in outs:
            if d.get((a, y), -(2**80)) < k + k2:
                d[(a, y)] = k + k2
        for (x, k0) in ins:
            if d.get((x, b), -(2**80)) < k0 + k:
                d[(x, b)] = k0 + k
            for (y, k2) in outs:
                if x != y and d.get((x, y), -(2**80)) < k0 + k + k2:
                    d[(x, y)] = k0 + k + k2
        if len(d) > 1500:
            # keep the analysis bounded: prefer facts about lengths
            d = {kk: v for kk, v in d.items() if kk[1].startswith("LEN") or kk[0].startswith("LEN")}
        return Facts(d)

    def drop_symbol(self, sym):
        return Facts({k: v for k, v in self.d.items() if sym not in k})

    def get(self, a, b):
        return self.d.get((a, b))

    def about(self, a):
        return [(b, k) for (x, b), k in self.d.items() if x == a]

    def __repr__(self):
        return "facts{%s}" % ", ".join("%s+%d<=%s" % (a, k, b) for (a, b), k in sorted(self.d.items()))


FACTS = ("$facts",)


def top_of(ty):
    if ty is None:
        return TOP
    if is_int(ty):
        lo, hi = INT_RANGE[ty]
        return Num(ty, lo, hi)
    if is_float(ty):
        return Num(ty, -INF, INF, True)
    if ty == "bool":
        return Bool()
    return TopV(ty)


def const_num(ty, v):
    if is_float(ty):
        if v != v:
            return Num(ty, INF, -INF, True)
        return Num(ty, v, v, False, ("c", v))
    return Num(ty, v, v, False, ("c", v))


# --------------------------------------------------------------------------- symbolic expressions

def sym_str(e):
    t = e[0]
    if t == "s":
        return e[1]
    if t == "c":
        return _fmt(e[1])
    if t in ("+", "-"):
        return "(%s %s %s)" % (sym_str(e[1]), t, sym_str(e[2]))
    if t in ("min", "max"):
        return "%s(%s, %s)" % (t, sym_str(e[1]), sym_str(e[2]))
    if t == "*c":
        return "(%s * %s)" % (sym_str(e[1]), _fmt(e[2]))
    if t in ("/c", "/f"):
        return "(%s / %s)" % (sym_str(e[1]), _fmt(e[2]))
    if t == "*k":
        return "(%s * [%s..%s])" % (sym_str(e[1]), _fmt(e[2][0]), _fmt(e[2][1]))
    if t == "floor":
        return "floor(%s)" % sym_str(e[1])
    return str(e)


def _linear(e):
    """Linear normal form {symbol: coeff} + const, or None if e contains min/max//c."""
    t = e[0]
    if t == "s":
        return ({e[1]: 1}, 0)
    if t == "c":
        return ({}, e[1])
    if t in ("+", "-"):
        a = _linear(e[1])
        b = _linear(e[2])
        if a is None or b is None:
            return None
        sgn = 1 if t == "+" else -1
        d = dict(a[0])
        for k, v in b[0].items():
            d[k] = d.get(k, 0) + sgn * v
        return ({k: v for k, v in d.items() if v != 0}, a[1] + sgn * b[1])
    if t == "*c":
        a = _linear(e[1])
        if a is None:
            return None
        return ({k: v * e[2] for k, v in a[0].items() if v * e[2] != 0}, a[1] * e[2])
    if t == "/f" and e[2] != 0:
        a = _linear(e[1])
        if a is None:
            return None
        return ({k: v / e[2] for k, v in a[0].items()}, a[1] / e[2])
    return None


def _resolve_k(e, upper, env):
    """Replace interval-coefficient products by their upper / lower bound expression."""
    t = e[0]
    if t in ("s", "c"):
        return e
    if t == "*k":
        inner_lo = env.bounds(e[1])[0]
        a = _resolve_k(e[1], upper, env)
        if inner_lo >= 0:
            return ("*c", a, e[2][1] if upper else e[2][0])
        return None
    if t in ("+", "min", "max"):
        a, b = _resolve_k(e[1], upper, env), _resolve_k(e[2], upper, env)
        if a is None or b is None:
            return None
        return (t, a, b)
    if t == "-":
        a, b = _resolve_k(e[1], upper, env), _resolve_k(e[2], not upper, env)
        if a is None or b is None:
            return None
        return (t, a, b)
    if t in ("*c", "/c", "/f"):
        a = _resolve_k(e[1], upper if e[2] >= 0 else not upper, env)
        if a is None:
            return None
        return (t, a, e[2])
    if t == "floor":
        a = _resolve_k(e[1], upper, env)
        return None if a is None else (t, a)
    return e


def _has_k(e):
    if not isinstance(e, tuple):
        return False
    if e[0] == "*k":
        return True
    return any(_has_k(x) for x in e[1:] if isinstance(x, tuple))


class SymEnv:
    """Intervals of the entry symbols; decides e1 <= e2 soundly (True only when derivable)."""

    def __init__(self, ranges=None, integral=True):
        self.ranges = dict(ranges or {})
        self.float_syms = set()

    def bounds(self, e):
        t = e[0]
        if t == "s":
            return self.ranges.get(e[1], (-INF, INF))
        if t == "c":
            return (e[1], e[1])
        if t == "+":
            a, b = self.bounds(e[1]), self.bounds(e[2])
            return (a[0] + b[0], a[1] + b[1])
        if t == "-":
            a, b = self.bounds(e[1]), self.bounds(e[2])
            return (a[0] - b[1], a[1] - b[0])
        if t == "min":
            a, b = self.bounds(e[1]), self.bounds(e[2])
            return (min(a[0], b[0]), min(a[1], b[1]))
        if t == "max":
            a, b = self.bounds(e[1]), self.bounds(e[2])
            return (max(a[0], b[0]), max(a[1], b[1]))
        if t == "*c":
            a = self.bounds(e[1])
            c = e[2]
            x, y = a[0] * c, a[1] * c
            return (min(x, y), max(x, y))
        if t == "/c":
            a = self.bounds(e[1])
            c = e[2]
            if c > 0:
                return (_idiv(a[0], c), _idiv(a[1], c))
            return (-INF, INF)
        if t == "/f":
            a = self.bounds(e[1])
            c = e[2]
            if c > 0:
                return (a[0] / c, a[1] / c)
            if c < 0:
                return (a[1] / c, a[0] / c)
            return (-INF, INF)
        if t == "*k":
            a = self.bounds(e[1])
            ps = [x * y for x in a for y in e[2] if not (x in (INF, -INF) and y == 0)] or [-INF, INF]
            return (min(ps), max(ps))
        if t == "floor":
            a = self.bounds(e[1])
            return (a[0] if a[0] in (INF, -INF) else math.floor(a[0]), a[1] if a[1] in (INF, -INF) else math.floor(a[1]))
        return (-INF, INF)

    def integral(self, e):
        t = e[0]
        if t == "s":
            return e[1] not in self.float_syms
        if t == "c":
            return float(e[1]).is_integer()
        if t in ("+", "-", "min", "max"):
            return self.integral(e[1]) and self.integral(e[2])
        if t == "*c":
            return self.integral(e[1]) and float(e[2]).is_integer()
        if t in ("floor", "/c"):
            return True
        return False

    def le(self, a, b, depth=0):
        """a <= b ?  (True = proved, False = unknown)"""
        if depth > 14:
            return False
        if a == b:
            return True
        if _has_k(a) or _has_k(b):
            a2, b2 = _resolve_k(a, True, self), _resolve_k(b, False, self)
            if a2 is None or b2 is None:
                return False
            return self.le(a2, b2, depth + 1)
        if a[0] == "floor":
            if self.le(a[1], b, depth + 1):
                return True
        if b[0] == "floor":
            if self.integral(a) and self.le(a, b[1], depth + 1):
                return True
        ba, bb = self.bounds(a), self.bounds(b)
        if ba[1] <= bb[0]:
            return True
        # structural rules
        if a[0] == "max":
            return self.le(a[1], b, depth + 1) and self.le(a[2], b, depth + 1)
        if b[0] == "min":
            return self.le(a, b[1], depth + 1) and self.le(a, b[2], depth + 1)
        if a[0] == "min":
            if self.le(a[1], b, depth + 1) or self.le(a[2], b, depth + 1):
                return True
        if b[0] == "max":
            if self.le(a, b[1], depth + 1) or self.le(a, b[2], depth + 1):
                return True
        # x + max(y - x, 0) patterns: distribute + over max/min
        for (x, y, swap) in ((a, b, False),):
            pass
        if a[0] == "+" and a[2][0] in ("max", "min"):
            k = a[2][0]
            return self.le((k, ("+", a[1], a[2][1]), ("+", a[1], a[2][2])), b, depth + 1)
        if a[0] == "+" and a[1][0] in ("max", "min"):
            k = a[1][0]
            return self.le((k, ("+", a[1][1], a[2]), ("+", a[1][2], a[2])), b, depth + 1)
        if b[0] == "+" and b[2][0] in ("max", "min"):
            k = b[2][0]
            return self.le(a, (k, ("+", b[1], b[2][1]), ("+", b[1], b[2][2])), depth + 1)
        if b[0] == "+" and b[1][0] in ("max", "min"):
            k = b[1][0]
            return self.le(a, (k, ("+", b[1][1], b[2]), ("+", b[1][2], b[2])), depth + 1)
        # monotone: x*c <= y*c, x/c <= y/c
        if a[0] == "*c" and b[0] == "*c" and a[2] == b[2] and a[2] > 0:
            return self.le(a[1], b[1], depth + 1)
        if a[0] in ("/c", "/f") and b[0] == a[0] and a[2] == b[2] and a[2] > 0:
            return self.le(a[1], b[1], depth + 1)
        # x*p/q <= x for 0 <= p <= q, x >= 0   and   x <= x*p/q for p >= q
        if a[0] in ("/c", "/f") and a[1][0] == "*c" and a[2] > 0:
            inner, p, q = a[1][1], a[1][2], a[2]
            if 0 <= p <= q and self.bounds(inner)[0] >= 0 and self.le(inner, b, depth + 1):
                return True
        if b[0] in ("/c", "/f") and b[1][0] == "*c" and b[2] > 0 and b[0] == "/f":
            inner, p, q = b[1][1], b[1][2], b[2]
            if p >= q and self.bounds(inner)[0] >= 0 and self.le(a, inner, depth + 1):
                return True
        # linear difference
        la, lb = _linear(a), _linear(b)
        if la is not None and lb is not None:
            d = dict(lb[0])
            for k, v in la[0].items():
                d[k] = d.get(k, 0) - v
            c = lb[1] - la[1]
            lo = c
            for k, v in d.items():
                r = self.ranges.get(k, (-INF, INF))
                if v > 0:
                    lo += v * r[0]
                elif v < 0:
                    lo += v * r[1]
            if lo == lo and lo >= 0:
                return True
        return False


def _idiv(a, c):
    if a in (INF, -INF):
        return a
    # Rust integer division truncates toward zero
    q = abs(a) // c
    return q if a >= 0 else -q


# --------------------------------------------------------------------------- interval arithmetic

def _wrap(ty, lo, hi, checked):
    """Result interval of an integer operation whose exact result is [lo, hi]."""
    tlo, thi = INT_RANGE[ty]
    if lo >= tlo and hi <= thi:
        return lo, hi, False
    if checked:
        # the overflow assert guards the use: clamp (the failing part panics)
        return max(lo, tlo), min(hi, thi), True
    return tlo, thi, True


def _fmul(a, b):
    if (a == 0 and b in (INF, -INF)) or (b == 0 and a in (INF, -INF)):
        return None
    return a * b


def num_bin(op, a, b, ty, checked=False):
    """Abstract binary arithmetic. Returns (Num, may_overflow)."""
    if is_float(ty):
        nan = a.nan or b.nan
        if a.lo > a.hi or b.lo > b.hi:
            return Num(ty, INF, -INF, True), False
        if op == "Add":
            lo, hi = a.lo + b.lo, a.hi + b.hi
            if (a.lo == -INF and b.lo == INF) or (a.hi == INF and b.hi == -INF) or (a.hi == INF and b.lo == -INF) or (a.lo == -INF and b.hi == INF):
                nan = True
            if lo != lo:
                lo = -INF
            if hi != hi:
                hi = INF
        elif op == "Sub":
            lo, hi = a.lo - b.hi, a.hi - b.lo
            if (a.hi == INF and b.hi == INF) or (a.lo == -INF and b.lo == -INF):
                nan = True
            if lo != lo:
                lo = -INF
            if hi != hi:
                hi = INF
        elif op == "Mul":
            ps = [_fmul(x, y) for x in (a.lo, a.hi) for y in (b.lo, b.hi)]
            if any(p is None for p in ps):
                nan = True
                ps = [p for p in ps if p is not None] + [0.0]
            if (a.lo <= 0 <= a.hi and (b.lo == -INF or b.hi == INF)) or (b.lo <= 0 <= b.hi and (a.lo == -INF or a.hi == INF)):
                nan = True
            lo, hi = min(ps), max(ps)
        elif op == "Div":
            if b.lo <= 0 <= b.hi:
                lo, hi = -INF, INF
                if a.lo <= 0 <= a.hi:
                    nan = True
                if (a.lo == -INF or a.hi == INF) and (b.lo == -INF or b.hi == INF):
                    nan = True
            else:
                qs = []
                for x in (a.lo, a.hi):
                    for y in (b.lo, b.hi):
                        if x in (INF, -INF) and y in (INF, -INF):
                            nan = True
                            continue
                        qs.append(x / y)
                if not qs:
                    qs = [-INF, INF]
                lo, hi = min(qs), max(qs)
        elif op == "Rem":
            lo, hi = -INF, INF
            nan = True
        else:
            return top_of(ty), False
        # outward slack for rounding
        return Num(ty, _down(lo), _up(hi), nan), False
    # integers
    if a.lo > a.hi or b.lo > b.hi:
        return Num(ty, 1, 0), False
    if op == "Add":
        lo, hi = a.lo + b.lo, a.hi + b.hi
    elif op == "Sub":
        lo, hi = a.lo - b.hi, a.hi - b.lo
    elif op == "Mul":
        ps = [x * y for x in (a.lo, a.hi) for y in (b.lo, b.hi)]
        lo, hi = min(ps), max(ps)
    elif op == "Div":
        if b.lo <= 0 <= b.hi:
            tl, th = INT_RANGE[ty]
            return Num(ty, tl, th), False
        qs = [_idiv(x, abs(y)) * (1 if y > 0 else -1) for x in (a.lo, a.hi) for y in (b.lo, b.hi)]
        lo, hi = min(qs), max(qs)
    elif op == "Rem":
        if b.lo <= 0 <= b.hi:
            tl, th = INT_RANGE[ty]
            return Num(ty, tl, th), False
        m = max(abs(b.lo), abs(b.hi)) - 1
        if a.lo >= 0:
            lo, hi = 0, min(m, a.hi)
        else:
            lo, hi = -m, m
    elif op == "BitAnd":
        if a.lo >= 0 and b.lo >= 0:
            lo, hi = 0, min(a.hi, b.hi)
        elif b.lo >= 0:
            lo, hi = 0, b.hi
        elif a.lo >= 0:
            lo, hi = 0, a.hi
        else:
            lo, hi = INT_RANGE[ty]
    elif op in ("BitOr", "BitXor"):
        if a.lo >= 0 and b.lo >= 0:
            bits = max(a.hi, b.hi).bit_length()
            lo, hi = 0, (1 << bits) - 1
            if op == "BitOr":
                lo = max(a.lo, b.lo)
        else:
            lo, hi = INT_RANGE[ty]
    elif op == "Shl":
        if a.lo >= 0 and b.lo >= 0 and b.hi < 128:
            lo, hi = a.lo << b.lo, a.hi << b.hi
        else:
            lo, hi = INT_RANGE[ty]
    elif op == "Shr":
        if a.lo >= 0 and b.lo >= 0 and b.hi < 128:
            lo, hi = a.lo >> b.hi, a.hi >> b.lo
        else:
            lo, hi = INT_RANGE[ty]
    else:
        lo, hi = INT_RANGE[ty]
    lo2, hi2, ovf = _wrap(ty, lo, hi, checked)
    return Num(ty, lo2, hi2), ovf


def _down(x):
    if x in (INF, -INF) or x != x or x == 0:
        return x
    return x - abs(x) * 1e-12


def _up(x):
    if x in (INF, -INF) or x != x or x == 0:
        return x
    return x + abs(x) * 1e-12


_fresh = [0]


def sym_bin(op, a, b, ty, env=None):
    if a.sym is None and b.sym is None:
        return None
    if env is not None and is_int(ty) and op in ("Add", "Sub"):
        # give an interval-only operand a fresh symbol carrying its range
        for x in (a, b):
            if x.sym is None and x.lo <= x.hi:
                _fresh[0] += 1
                name = "t%d" % _fresh[0]
                env.ranges[name] = (x.lo, x.hi)
                x.sym = ("s", name)
    if op == "Mul":
        # symbolic x interval coefficient (e.g. a step chosen from a small table)
        for x, y in ((a, b), (b, a)):
            if x.sym is not None and (y.sym is None or y.sym[0] != "c") and not y.nan and y.lo <= y.hi and y.lo >= 0 and y.hi < INF and not x.nan:
                if y.sym is None or y.sym[0] not in ("s",):
                    if y.lo == y.hi:
                        return ("*c", x.sym, y.lo)
                    if y.sym is None:
                        return ("*k", x.sym, (y.lo, y.hi))
    if a.sym is None or b.sym is None:
        return None
    if (a.nan or b.nan):
        return None
    if op == "Add":
        return ("+", a.sym, b.sym)
    if op == "Sub":
        return ("-", a.sym, b.sym)
    if op == "Mul":
        if b.sym[0] == "c":
            return ("*c", a.sym, b.sym[1])
        if a.sym[0] == "c":
            return ("*c", b.sym, a.sym[1])
        return None
    if op == "Div":
        if b.sym[0] == "c" and b.sym[1] > 0:
            return ("/f" if is_float(ty) else "/c", a.sym, b.sym[1])
        return None
    return None


def join(a, b):
    if a is None:
        return b
    if b is None:
        return a
    if isinstance(a, Facts) or isinstance(b, Facts):
        if not (isinstance(a, Facts) and isinstance(b, Facts)):
            return Facts()
        return Facts({k: min(v, b.d[k]) for k, v in a.d.items() if k in b.d})
    if isinstance(a, Num) and isinstance(b, Num) and a.ty == b.ty:
        if a.lo > a.hi and not a.nan:
            return b
        if b.lo > b.hi and not b.nan:
            return a
        return Num(a.ty, min(a.lo, b.lo), max(a.hi, b.hi), a.nan or b.nan, a.sym if a.sym == b.sym else None,
                   a.src if a.src == b.src else None, a.lin if a.lin == b.lin else None)
    if isinstance(a, Bool) and isinstance(b, Bool):
        return Bool(a.t or b.t, a.f or b.f, a.cmp if a.cmp == b.cmp else None, a.src if a.src == b.src else None)
    if isinstance(a, Ptr) and isinstance(b, Ptr):
        return Ptr(a.targets | b.targets, a.lencell if a.lencell == b.lencell else None)
    if isinstance(a, Tup) and isinstance(b, Tup) and len(a.items) == len(b.items) and a.tag == b.tag:
        return Tup([join(x, y) for x, y in zip(a.items, b.items)], a.tag)
    return TOP


def widen(old, new, thresholds):
    if isinstance(old, Num) and isinstance(new, Num) and old.ty == new.ty:
        lo, hi = min(old.lo, new.lo), max(old.hi, new.hi)
        if new.lo < old.lo:
            cands = [t for t in thresholds if t <= new.lo]
            lo = max(cands) if cands else (INT_RANGE[new.ty][0] if is_int(new.ty) else -INF)
        if new.hi > old.hi:
            cands = [t for t in thresholds if t >= new.hi]
            hi = min(cands) if cands else (INT_RANGE[new.ty][1] if is_int(new.ty) else INF)
        if is_int(new.ty):
            lo = max(lo, INT_RANGE[new.ty][0])
            hi = min(hi, INT_RANGE[new.ty][1])
        return Num(new.ty, lo, hi, old.nan or new.nan, new.sym if new.sym == old.sym else None, None,
                   new.lin if new.lin == old.lin else None)
    return join(old, new)


def same(a, b):
    if a is None or b is None:
        return a is b
    return a.key() == b.key()


# --------------------------------------------------------------------------- the interpreter

class Obligation:
    __slots__ = ("kind", "fn", "bb", "loc", "ok", "detail", "chain")

    def __init__(self, kind, fn, bb, loc, ok, detail, chain):
        self.kind = kind
        self.fn = fn
        self.bb = bb
        self.loc = loc
        self.ok = ok
        self.detail = detail
        self.chain = chain


class StoreEvent:
    __slots__ = ("cell", "value", "fn", "bb", "si", "loc", "before", "chain", "snap")

    def __init__(self, cell, value, fn, bb, si, loc, before, chain, snap=None):
        self.snap = snap
        self.cell = cell
        self.value = value
        self.fn = fn
        self.bb = bb
        self.si = si
        self.loc = loc
        self.before = before
        self.chain = chain


class CallEvent:
    __slots__ = ("callee", "args", "fn", "bb", "loc", "chain", "path")

    def __init__(self, callee, path, args, fn, bb, loc, chain):
        self.callee = callee
        self.path = path
        self.args = args
        self.fn = fn
        self.bb = bb
        self.loc = loc
        self.chain = chain


class Entry:
    """Entry assumptions of an analysis run."""

    def __init__(self):
        self.params = {}        # local -> value
        self.cells = {}         # (local, proj) -> value        (proj as in cell keys)
        self.sym_ranges = {}
        self.float_syms = set()
        self.field_inv = {}     # (adt, field) -> factory() -> value   used when a never-stored field is loaded

    def param(self, l, v):
        self.params[l] = v
        return self

    def pointee(self, l, v, path=()):
        self.cells[(l, ("deref",) + tuple(path))] = v
        return self

    def sym(self, name, lo, hi, is_float=False):
        self.sym_ranges[name] = (lo, hi)
        if is_float:
            self.float_syms.add(name)
        return self

    def invariant(self, adt, field, factory):
        self.field_inv[(adt, field)] = factory
        return self


class AbsInt:
    def __init__(self, world, max_depth=4, checked_overflow=True, summaries=None):
        self.world = world
        self.eff = effects_of(world)
        self.max_depth = max_depth
        self.checked = checked_overflow
        self.obligations = []
        self.stores = []
        self.calls = []
        self.returns = []        # (fn id, value) of the top frame
        self.trusted_ext = set()
        self.unknown_ext = set()
        self.frame_counter = 0
        self.field_inv = {}
        self.symenv = SymEnv()
        self.extra_summaries = summaries or {}
        self.steps = 0
        self.max_steps = 400000
        self.snapshot_stores = False
        self.local_defs = []     # (fn, local, name, value, bb, si, loc) for assignments to named user variables
        self.name_syms = {}      # (fn stable, variable name) -> symbol name
        self.len_syms = {}       # LEN symbol -> its length cell
        self._cur_mem = None

    # ------------------------------------------------------------------ running
    def run(self, fn, entry=None):
        entry = entry or Entry()
        self.field_inv = entry.field_inv
        self.symenv = SymEnv(entry.sym_ranges)
        self.symenv.float_syms = set(entry.float_syms)
        mem = {}
        frame = self._new_frame()
        for l in range(1, fn.argc + 1):
            ty = fn.locals[l]["ty"]
            v = entry.params.get(l)
            if v is None:
                if ty.startswith("&") or ty.startswith("*"):
                    v = self._fresh_ptr((frame, l, ("deref",)), ty, mem)
                else:
                    v = top_of(ty)
                    if isinstance(v, Num) and is_int(v.ty):
                        v = self._with_cell_symbol(v, (frame, l, ()))
            mem[(frame, l, ())] = v
        for (l, proj), v in entry.cells.items():
            mem[(frame, l, proj)] = v
            # the param itself points at its pointee cell
            mem[(frame, l, ())] = Ptr([(frame, l, ("deref",))], getattr(mem.get((frame, l, ())), "lencell", None))
        ret, mem_out = self._analyze(fn, frame, mem, [fn.stable])
        self.top_frame = frame
        self.exit_mem = mem_out
        self.ret = ret
        return ret, mem_out

    def _fresh_ptr(self, target, ty, mem):
        """Pointer to `target`; for slice pointers a length cell is created next to it."""
        p = Ptr([target])
        if "[" in ty and ty.rstrip().endswith("]") and ";" not in ty:
            elem = ty[ty.index("[") + 1:-1]
            lc = (target[0], target[1], target[2] + ("len",))
            if lc not in mem:
                size = {"u8": 1, "i8": 1, "u16": 2, "i16": 2, "u32": 4, "i32": 4, "u64": 8, "i64": 8}.get(elem, 1)
                hi = (2**63 - 1) // size
                name = "LEN%s" % _cellname(lc)
                self.symenv.ranges.setdefault(name, (0, hi))
                self.len_syms[name] = lc
                mem[lc] = Num("usize", 0, hi, False, ("s", name), None, (1, name, 0))
            p.lencell = lc
        else:
            n = _array_len(ty.lstrip("&").replace("mut ", "").strip())
            if n is not None:
                lc = (target[0], target[1], target[2] + ("len",))
                mem[lc] = const_num("usize", n)
                p.lencell = lc
        return p

    def _with_cell_symbol(self, v, cell):
        """An integer of unknown value gets a symbol of its own so that comparisons against it can be remembered."""
        if v.lin is None and v.lo < v.hi:
            name = "C%s" % _cellname(cell)
            self.symenv.ranges.setdefault(name, (v.lo, v.hi))
            return v.copy(lin=(1, name, 0))
        return v

    def len_of(self, p, mem):
        if isinstance(p, Ptr) and p.lencell is not None:
            v = mem.get(p.lencell)
            if isinstance(v, Num):
                return _with_src(v, p.lencell)
        return None

    def _new_frame(self):
        self.frame_counter += 1
        return self.frame_counter

    # ------------------------------------------------------------------ memory
    def cell_of_place(self, frame, place, mem, fn):
        """Resolve a place to a list of cell keys (following pointers for deref)."""
        cells = [(frame, place["l"], ())]
        for e in place["proj"]:
            k = e["k"]
            nxt = []
            if k == "deref":
                for c in cells:
                    v = mem.get(c)
                    if isinstance(v, Ptr) and v.targets:
                        nxt.extend(v.targets)
                    else:
                        nxt.append((c[0], c[1], c[2] + ("deref",)))
            elif k == "field":
                for c in cells:
                    nxt.append((c[0], c[1], c[2] + (("f", e["n"]),)))
            elif k in ("index", "cindex", "subslice"):
                for c in cells:
                    nxt.append((c[0], c[1], c[2] + ("idx",)))
            elif k == "downcast":
                for c in cells:
                    nxt.append((c[0], c[1], c[2] + (("dc", e["n"]),)))
            else:
                for c in cells:
                    nxt.append((c[0], c[1], c[2] + (k,)))
            cells = nxt
        return cells

    def load(self, frame, place, mem, fn, ty=None):
        cells = self.cell_of_place(frame, place, mem, fn)
        out = None
        for c in cells:
            v = mem.get(c)
            if v is None:
                v = self._from_parent(c, mem)
            if v is None:
                self._cur_mem = mem
                v = self._materialise(c, place, ty, fn)
                mem[c] = v
            if len(cells) == 1 and isinstance(v, (Num, Bool)):
                v = _with_src(v, c)
            out = v if out is None else join(out, v)
        return out if out is not None else TOP

    def _from_parent(self, c, mem):
        """A component of a stored tuple / aggregate."""
        if not c[2]:
            return None
        parent = (c[0], c[1], c[2][:-1])
        last = c[2][-1]
        pv = mem.get(parent)
        if pv is None and len(c[2]) >= 2:
            pv = self._from_parent(parent, mem)
        if isinstance(pv, Tup) and isinstance(last, tuple) and last[0] == "f":
            try:
                i = int(last[1])
            except ValueError:
                i = None
                if pv.tag and isinstance(pv.tag, tuple) and last[1] in pv.tag:
                    i = pv.tag.index(last[1])
            if i is not None and i < len(pv.items):
                return pv.items[i]
        if isinstance(pv, Tup) and isinstance(last, tuple) and last[0] == "dc":
            return pv
        return None

    def _materialise(self, c, place, ty, fn):
        # field invariant supplied by the rule?
        last = None
        for e in reversed(place["proj"]):
            if e["k"] == "field":
                last = e
                break
        if last is not None and place["proj"][-1] is last:
            inv = self.field_inv.get((last.get("adt"), last["n"]))
            if inv is not None:
                return inv()
        if ty is None and not place["proj"]:
            ty = fn.locals[place["l"]]["ty"]
        if ty is not None and (ty.startswith("&") or ty.startswith("*")):
            return self._fresh_ptr((c[0], c[1], c[2] + ("deref",)), ty, self._cur_mem)
        v = top_of(ty)
        if isinstance(v, Num) and is_int(v.ty):
            v = self._with_cell_symbol(v, c)
        return v

    def store(self, frame, place, val, mem, fn, bb, si, loc, chain, weak=False):
        cells = self.cell_of_place(frame, place, mem, fn)
        weak = weak or len(cells) > 1 or any("idx" in c[2] for c in cells)
        for c in cells:
            before = mem.get(c)
            v = val
            if getattr(v, "src", None) is not None and (v.src == c or weak):
                v = _with_src(v, None)
            if weak and before is not None:
                v = join(before, v)
            newfacts = None
            if isinstance(v, Num) and is_int(v.ty) and not weak:
                v, newfacts = self._cell_symbol_on_store(c, v, mem)
            self._invalidate(c, mem)
            if newfacts:
                f = mem.get(FACTS) or Facts()
                for (a_, k_, b_) in newfacts:
                    f = f.add(a_, k_, b_)
                mem[FACTS] = f
            mem[c] = v
            if c[2]:
                self.stores.append(StoreEvent(c, val, fn, bb, si, loc, before, tuple(chain),
                                              dict(mem) if self.snapshot_stores else None))

    def _cell_symbol_on_store(self, c, v, mem):
        """Every integer cell has a symbol `C<cell>` for its current content. Storing v = s + k re-expresses what is known
        about s for the cell; a value with nothing linear known just becomes `C<cell> + 0`."""
        name = "C" + _cellname(c)
        f = mem.get(FACTS) or Facts()
        new = []
        if v.lin is not None and v.lin[0] == 1:
            s_, cc = v.lin[1], v.lin[2]
            for (b, k) in f.about(s_):
                if b != name:
                    new.append((name, k - cc, b))
            for (a, b), k in f.d.items():
                if b == s_ and a != name:
                    new.append((a, k + cc, name))
            if s_ != name:
                # exact relation both ways: name == s + cc
                new.append((name, -cc, s_))
                new.append((s_, cc, name))
        # what the intervals say about the known lengths
        for lname, lc in self.len_syms.items():
            lv = mem.get(lc)
            if isinstance(lv, Num) and v.hi < 2**62 and lv.lo - v.hi > -(2**40):
                new.append((name, lv.lo - v.hi, lname))
        self.symenv.ranges[name] = (min(v.lo, self.symenv.ranges.get(name, (v.lo, v.hi))[0]), max(v.hi, self.symenv.ranges.get(name, (v.lo, v.hi))[1]))
        return v.copy(lin=(1, name, 0)), new

    def _invalidate(self, c, mem):
        """A cell is overwritten: forget sub-cells, `src` links to it, and what was known about its old content."""
        name = "C" + _cellname(c)
        f = mem.get(FACTS)
        if f is not None and any(name in k for k in f.d):
            mem[FACTS] = f.drop_symbol(name)
        for k, v in list(mem.items()):
            if isinstance(v, Num) and v.lin is not None and v.lin[1] == name and k != c:
                mem[k] = v.copy(lin=None)
        pre = c[2]
        n = len(pre)
        dead = []
        for k, v in mem.items():
            if k[0] == c[0] and k[1] == c[1] and len(k[2]) > n and k[2][:n] == pre:
                dead.append(k)
            s = getattr(v, "src", None)
            if s is not None and s[0] == c[0] and s[1] == c[1] and s[2][:n] == pre and len(s[2]) >= n:
                mem[k] = _with_src(v, None)
        for k in dead:
            del mem[k]

    def havoc_prefix(self, cell, mem, keys=None):
        """Forget everything stored under a cell prefix (optionally only cells whose last field is in keys)."""
        pre = cell[2]
        n = len(pre)
        for k in list(mem):
            if k[0] == cell[0] and k[1] == cell[1] and len(k[2]) >= n and k[2][:n] == pre and k[2]:
                if keys is None or any(isinstance(p, tuple) and p[0] == "f" and p[1] in keys for p in k[2]):
                    self._invalidate(k, mem)
                    if k in mem:
                        del mem[k]

    # ------------------------------------------------------------------ operands / rvalues
    def eval_operand(self, frame, o, mem, fn):
        k = o["k"]
        if k == "const":
            ty = o["ty"]
            if "fn" in o:
                return TopV("fn")
            if o.get("promoted") is not None and o.get("def") == fn.id and o["promoted"] < len(getattr(fn, "promoted", []) or []):
                pv = self._eval_promoted(fn, o["promoted"], mem)
                if pv is not None:
                    return pv
            v = const_value(o)
            if v is None:
                return top_of(ty)
            if ty == "bool":
                return Bool(bool(v), not bool(v))
            if is_int(ty) or is_float(ty):
                return const_num(ty, v)
            return TopV(ty)
        if k in ("copy", "move"):
            p = o["p"]
            ty = o.get("ty") if p["proj"] else fn.locals[p["l"]]["ty"]
            return self.load(frame, p, mem, fn, ty)
        return TOP

    def _eval_promoted(self, fn, idx, mem):
        """`&<constant expression>` promoted out of the body (e.g. `&(1..=10_000)`): run the tiny promoted body and keep its cells."""
        from .facts import PromotedFn
        try:
            pf = PromotedFn(fn, idx)
            if len(pf.blocks) > 6:
                return None
            frame = "P%s#%d" % (abs(hash(fn.id)) % 10**8, idx)   # one fixed frame per promoted constant: re-evaluation in a loop must converge
            m2 = dict(mem)
            ret, mem_out = self._analyze(pf, frame, m2, ["promoted"])
            if ret is None:
                return None
            for k, v in mem_out.items():
                if isinstance(k, tuple) and k and k[0] == frame:
                    mem[k] = v
            return ret
        except Exception:
            return None

    def eval_rvalue(self, frame, rv, mem, fn, bb, si, loc, chain, dest_ty=None):
        k = rv["k"]
        if k == "use":
            return self.eval_operand(frame, rv["o"], mem, fn)
        if k in ("ref", "raw"):
            cells = self.cell_of_place(frame, rv["p"], mem, fn)
            lc = None
            # &(*p) of a slice pointer keeps its length cell; &array has a constant length
            p = rv["p"]
            if p["proj"] and p["proj"][-1]["k"] == "deref":
                base = self.load(frame, {"l": p["l"], "proj": p["proj"][:-1]}, mem, fn)
                if isinstance(base, Ptr):
                    lc = base.lencell
            if lc is None and len(cells) == 1:
                pty = None
                if not p["proj"]:
                    pty = fn.locals[p["l"]]["ty"]
                n = _array_len(pty) if pty else None
                if n is None and dest_ty:
                    n = _array_len(dest_ty.lstrip("&").replace("mut ", "").replace("'_ ", "").strip())
                if n is None and len(cells) == 1 and (cells[0][0], cells[0][1], cells[0][2] + ("len",)) in mem:
                    lc = (cells[0][0], cells[0][1], cells[0][2] + ("len",))
                elif n is not None:
                    lc = (cells[0][0], cells[0][1], cells[0][2] + ("len",))
                    mem[lc] = const_num("usize", n)
            return Ptr(cells, lc)
        if k == "bin":
            a = self.eval_operand(frame, rv["a"], mem, fn)
            b = self.eval_operand(frame, rv["b"], mem, fn)
            return self.binop(rv["op"], a, b, rv.get("oty"), rv["a"], rv["b"], frame, mem)
        if k == "un":
            a = self.eval_operand(frame, rv["a"], mem, fn)
            op = rv["op"]
            if op == "Not":
                if isinstance(a, Bool):
                    c = a.cmp
                    if c is not None:
                        c = (NEG[c[0]],) + c[1:]
                    return Bool(a.f, a.t, c)
                return top_of(rv.get("oty"))
            if op == "Neg" and isinstance(a, Num):
                if is_float(a.ty):
                    return Num(a.ty, -a.hi, -a.lo, a.nan)
                n, ovf = num_bin("Sub", const_num(a.ty, 0), a, a.ty, self.checked)
                return n
            if op == "PtrMetadata":
                ln = self.len_of(a, mem)
                if ln is not None:
                    return ln
                return Num("usize", 0, 2**63 - 1)
            return top_of(rv.get("oty"))
        if k == "cast":
            a = self.eval_operand(frame, rv["a"], mem, fn)
            return self.cast(a, rv["ty"], rv.get("sty"), rv["ck"])
        if k == "agg":
            ops = [self.eval_operand(frame, o, mem, fn) for o in rv["ops"]]
            ak = rv["ak"]
            if ak == "tuple":
                return Tup(ops)
            if ak == "adt":
                return Tup(ops, tuple(rv.get("fields", [])) or None)
            if ak == "array":
                return Tup(ops, "array")
            return TopV(ak)
        if k == "discr":
            return TopV("discr")
        if k == "len":
            return Num("usize", 0, 2**63 - 1)
        if k == "repeat":
            return TopV("array")
        return TOP

    def cast(self, a, ty, sty, ck):
        if not isinstance(a, Num):
            if isinstance(a, Bool) and is_int(ty):
                return Num(ty, 0 if a.f else 1, 1 if a.t else 0)
            if isinstance(a, Ptr) and not (is_int(ty) or is_float(ty)):
                return a
            return top_of(ty)
        if is_int(ty):
            tlo, thi = INT_RANGE[ty]
            if is_float(a.ty):
                # saturating; NaN -> 0
                lo = tlo if a.lo == -INF else max(tlo, min(thi, math.trunc(a.lo))) if a.lo == a.lo and a.lo <= a.hi else 0
                hi = thi if a.hi == INF else max(tlo, min(thi, math.trunc(a.hi))) if a.hi == a.hi and a.lo <= a.hi else 0
                if a.lo > a.hi:
                    lo, hi = 0, 0
                if a.nan:
                    lo, hi = min(lo, 0), max(hi, 0)
                fs = None
                if a.sym is not None and not a.nan and a.lo >= 0 and a.hi <= thi:
                    fs = ("floor", a.sym)
                return Num(ty, lo, hi, False, fs)
            if a.lo >= tlo and a.hi <= thi:
                return Num(ty, a.lo, a.hi, False, a.sym, None, a.lin)
            return Num(ty, tlo, thi)
        if is_float(ty):
            if is_float(a.ty):
                return Num(ty, a.lo, a.hi, a.nan, a.sym)
            exact = abs(a.lo) < 2**53 and abs(a.hi) < 2**53
            return Num(ty, float(a.lo) if exact else _down(float(a.lo)), float(a.hi) if exact else _up(float(a.hi)), False, a.sym if exact else None)
        return top_of(ty)

    def binop(self, op, a, b, oty, oa=None, ob=None, frame=None, mem=None):
        op = {"AddUnchecked": "Add", "SubUnchecked": "Sub", "MulUnchecked": "Mul", "ShlUnchecked": "Shl",
              "ShrUnchecked": "Shr"}.get(op, op)
        if op in ("Eq", "Ne", "Lt", "Le", "Gt", "Ge"):
            ra = _ref(oa, frame)
            rb = _ref(ob, frame)
            if isinstance(a, Num) and isinstance(b, Num):
                t, f = cmp_may(op, a, b)
                return Bool(t, f, (op, ra, rb, a, b))
            if isinstance(a, Bool) and isinstance(b, Bool) and op in ("Eq", "Ne"):
                return Bool(True, True, None)
            return Bool(True, True, (op, ra, rb, a, b))
        if oty == "bool" and isinstance(a, Bool) and isinstance(b, Bool):
            if op == "BitAnd":
                return Bool(a.t and b.t, a.f or b.f)
            if op == "BitOr":
                return Bool(a.t or b.t, a.f and b.f)
            return Bool()
        if op in ("AddWithOverflow", "SubWithOverflow", "MulWithOverflow"):
            base = op[:3]
            if isinstance(a, Num) and isinstance(b, Num):
                n, ovf = num_bin(base, a, b, oty, True)
                n.sym = sym_bin(base, a, b, oty, self.symenv)
                n.lin = lin_bin(base, a, b)
                return Tup([n, Bool(ovf, True)])
            return Tup([top_of(oty), Bool()])
        if isinstance(a, Num) and isinstance(b, Num) and (is_int(oty or a.ty) or is_float(oty or a.ty)):
            ty = a.ty if op in ("Shl", "Shr") else (oty or a.ty)
            n, _ovf = num_bin(op, a, b, ty, False)
            if _ovf and mem is not None and op == "Add" and is_int(ty) and a.lo >= 0 and b.lo >= 0:
                # builds without overflow checks: an unchecked `i + k` still cannot wrap when the path's linear facts bound
                # the operands (i <= len <= isize::MAX); then the sum keeps its relation to the length
                ua, ub = self.upper(a, mem), self.upper(b, mem)
                if ua < a.hi or ub < b.hi:
                    n2, ovf2 = num_bin(op, a.copy(hi=ua), b.copy(hi=ub), ty, False)
                    if not ovf2:
                        n, _ovf = n2, False
            if not _ovf:
                n.sym = sym_bin(op, a, b, ty, self.symenv)
                n.lin = lin_bin(op, a, b)
            return n
        return top_of(oty)

    # ------------------------------------------------------------------ branch refinement
    def refine(self, mem, frame, cond, truth, fn):
        """Refine `mem` under the assumption that Bool value `cond` is `truth`. Returns False if infeasible."""
        if not isinstance(cond, Bool):
            return True
        if truth and not cond.t:
            return False
        if not truth and not cond.f:
            return False
        c = cond.cmp
        if c is None:
            return True
        op, ra, rb, av, bv = c
        if op == "inrange":
            if truth and isinstance(av, Num) and ra is not None:
                lo, hi = bv
                cur = self._cur(mem, ra, av)
                new = cur.copy(lo=max(cur.lo, lo.lo), hi=min(cur.hi, hi.hi), nan=False)
                if new.lo > new.hi:
                    return False
                self._write_back(mem, ra, new, cur)
            return True
        if op in ("finite", "notfinite"):
            is_fin = (op == "finite") == truth
            if is_fin and isinstance(av, Num):
                cur = self._cur(mem, ra, av)
                FM = 1.7976931348623157e308
                new = cur.copy(lo=max(cur.lo, -FM), hi=min(cur.hi, FM), nan=False)
                if new.lo > new.hi:
                    return False
                self._write_back(mem, ra, new, cur)
            return True
        negated = not truth
        if not truth:
            op = NEG[op]
        if not (isinstance(av, Num) and isinstance(bv, Num)):
            return True
        # re-read current values of the operands if they are still available
        a_cur = self._cur(mem, ra, av)
        b_cur = self._cur(mem, rb, bv)
        na, nb = refine_cmp(op, a_cur, b_cur)
        if negated and is_float(a_cur.ty) and (a_cur.nan or b_cur.nan) and op != "Eq":
            # the false branch of a float comparison is also taken when an operand is NaN: `!(a <= b)` is `a > b` OR unordered.
            # NaN-ness survives, and a side can only be narrowed when the *other* side cannot be NaN.
            if na is None or nb is None:
                na, nb = a_cur, b_cur
            na = (na if not b_cur.nan else a_cur).copy(nan=a_cur.nan)
            nb = (nb if not a_cur.nan else b_cur).copy(nan=b_cur.nan)
        if na is None or nb is None:
            return False
        self._write_back(mem, ra, na, a_cur)
        self._write_back(mem, rb, nb, b_cur)
        # remember the relation itself when both sides are `symbol + constant`
        la, lb = a_cur.lin, b_cur.lin
        if la is not None and lb is not None and la[0] == 1 and lb[0] == 1 and is_int(a_cur.ty):
            f = mem.get(FACTS) or Facts()
            if op == "Lt":
                f = f.add(la[1], la[2] + 1 - lb[2], lb[1])
            elif op == "Le":
                f = f.add(la[1], la[2] - lb[2], lb[1])
            elif op == "Gt":
                f = f.add(lb[1], lb[2] + 1 - la[2], la[1])
            elif op == "Ge":
                f = f.add(lb[1], lb[2] - la[2], la[1])
            mem[FACTS] = f
        return True

    def upper(self, v, mem):
        """Best known upper bound of an integer value, using the path's linear facts."""
        hi = v.hi
        if isinstance(v, Num) and v.lin is not None and v.lin[0] == 1:
            f = mem.get(FACTS)
            if f is not None:
                for (b, k) in f.about(v.lin[1]):
                    r = self.symenv.ranges.get(b)
                    if r is not None:
                        hi = min(hi, r[1] - k + v.lin[2])
        return hi

    def proves_lt(self, ix, ln, mem):
        """ix < ln ?"""
        if not (isinstance(ix, Num) and isinstance(ln, Num)):
            return False
        if ix.hi < ln.lo:
            return True
        if ix.lin is not None and ln.lin is not None and ix.lin[0] == 1 and ln.lin[0] == 1:
            if ix.lin[1] == ln.lin[1]:
                return ix.lin[2] < ln.lin[2]
            f = mem.get(FACTS)
            if f is not None:
                k = f.get(ix.lin[1], ln.lin[1])
                if k is not None and k >= ix.lin[2] + 1 - ln.lin[2]:
                    return True
        if ix.sym is not None and ln.sym is not None and self.symenv.le(("+", ix.sym, ("c", 1)), ln.sym):
            return True
        return False

    def proves_le(self, a, b, mem):
        if not (isinstance(a, Num) and isinstance(b, Num)):
            return False
        if a.hi <= b.lo:
            return True
        if a.lin is not None and b.lin is not None and a.lin[0] == 1 and b.lin[0] == 1:
            if a.lin[1] == b.lin[1]:
                return a.lin[2] <= b.lin[2]
            f = mem.get(FACTS)
            if f is not None:
                k = f.get(a.lin[1], b.lin[1])
                if k is not None and k >= a.lin[2] - b.lin[2]:
                    return True
        return False

    def _cur(self, mem, ref, default):
        if ref is None:
            return default
        v = mem.get(ref)
        if isinstance(v, Num):
            return v
        return default

    def _write_back(self, mem, ref, new, old):
        if ref is None:
            return
        if isinstance(mem.get(ref), Num):
            src = mem[ref].src
            mem[ref] = new.copy(src=src, sym=old.sym, lin=old.lin)
            if src is not None and isinstance(mem.get(src), Num):
                s = mem[src]
                lo, hi = max(s.lo, new.lo), min(s.hi, new.hi)
                mem[src] = s.copy(lo=lo, hi=hi, nan=s.nan and new.nan)
            # other locals loaded from the same cell
            if src is not None:
                for k, v in list(mem.items()):
                    if k != ref and isinstance(v, Num) and v.src == src:
                        mem[k] = v.copy(lo=max(v.lo, new.lo), hi=min(v.hi, new.hi), nan=v.nan and new.nan)

    # ------------------------------------------------------------------ function analysis
    def _analyze(self, fn, frame, mem, chain):
        cfg = cfg_of(fn)
        heads = set(cfg.loop_heads())
        thresholds = self._thresholds(fn)
        states = {0: mem}
        visits = defaultdict(int)
        work = [0]
        ret_val = None
        ret_mem = None
        rpo_idx = {b: i for i, b in enumerate(cfg._rpo(0, cfg.succ))}
        while work:
            self.steps += 1
            if self.steps > self.max_steps:
                raise RuntimeError("abstract interpretation step budget exceeded in %s" % fn.stable)
            work.sort(key=lambda b: rpo_idx.get(b, 1 << 30))
            bb = work.pop(0)
            st = dict(states[bb])
            outs = self._exec_block(fn, frame, bb, st, chain)
            for (succ, m) in outs:
                if succ == "return":
                    rv = m.get((frame, 0, ()))
                    ret_val = rv if ret_val is None else join(ret_val, rv)
                    ret_mem = m if ret_mem is None else self._join_mem(ret_mem, m)
                    continue
                old = states.get(succ)
                if old is None:
                    states[succ] = m
                    if succ not in work:
                        work.append(succ)
                    continue
                visits[succ] += 1
                if succ in heads and visits[succ] > 2:
                    new = self._widen_mem(old, m, thresholds)
                else:
                    new = self._join_mem(old, m)
                if not self._mem_same(old, new):
                    states[succ] = new
                    if succ not in work:
                        work.append(succ)
                    if succ in heads:
                        # relational facts attached at the head must reach the body un-joined with the
                        # states of earlier (narrower) passes: recompute the body from the new head state
                        for b2 in cfg.loop_body(succ):
                            if b2 != succ and b2 in states:
                                del states[b2]
                                if b2 in work:
                                    work.remove(b2)
        if ret_mem is None:
            ret_mem = {}
        return ret_val, ret_mem

    def _rebind_phis(self, fn, frame, head, old, m):
        """Loop head: integer locals whose value differs between the states get a symbol of their own (`PHI`),
        and the linear facts known about the incoming values are re-expressed for it."""
        old = dict(old)
        m = dict(m)
        for cell in list(m.keys()):
            if cell == FACTS or cell[0] != frame or cell[2]:
                continue
            vo, vm = old.get(cell), m.get(cell)
            if not (isinstance(vo, Num) and isinstance(vm, Num) and is_int(vm.ty) and vo.ty == vm.ty):
                continue
            p = "PHI_%d_%d_%d" % (frame, head, cell[1])
            if vo.key() == vm.key() and not (vo.lin is not None and vo.lin[1] == p):
                continue
            if vo.lin == (1, p, 0) and vm.lin == (1, p, 0) and vo.key() == vm.key():
                continue
            self.symenv.ranges[p] = (min(vo.lo, vm.lo, self.symenv.ranges.get(p, (vo.lo, vo.hi))[0]), max(vo.hi, vm.hi, self.symenv.ranges.get(p, (vo.lo, vo.hi))[1]))
            for st_, v in ((old, vo), (m, vm)):
                if v.lin == (1, p, 0):
                    continue
                f = st_.get(FACTS) or Facts()
                cands = {}
                if v.lin is not None and v.lin[0] == 1:
                    for (b, k) in f.about(v.lin[1]):
                        cands[b] = k - v.lin[2]
                for name, lc in self.len_syms.items():
                    lv = st_.get(lc)
                    if isinstance(lv, Num) and lv.lin is not None and lv.lin[1] == name and lv.lo - v.hi > -(2**62):
                        cands[name] = max(cands.get(name, -(2**70)), lv.lo - v.hi)
                f = f.drop_symbol(p)
                for b, k in cands.items():
                    if b != p:
                        f = f.add(p, k, b)
                st_[FACTS] = f
                # stale `p + c` forms elsewhere in this state no longer mean anything
                for c2, v2 in list(st_.items()):
                    if c2 != cell and isinstance(v2, Num) and v2.lin is not None and v2.lin[1] == p:
                        st_[c2] = v2.copy(lin=None)
                st_[cell] = v.copy(lin=(1, p, 0), sym=None)
        return old, m

    def _thresholds(self, fn):
        ts = set([0, 1])
        for b in fn.blocks:
            for s in b["stmts"]:
                _collect_consts(s, ts)
            _collect_consts(b["term"], ts)
        return sorted(ts)

    def _join_mem(self, a, b):
        out = {}
        for k in a.keys() | b.keys():
            va, vb = a.get(k), b.get(k)
            if k == FACTS:
                out[k] = join(va if va is not None else Facts(), vb if vb is not None else Facts())
                continue
            if va is None or vb is None:
                # a cell known on one side only: for deref'd memory that means "unchanged / unknown" -> drop
                if k[2]:
                    continue
                out[k] = va if vb is None else vb
                continue
            out[k] = join(va, vb)
        return out

    def _widen_mem(self, a, b, thresholds):
        out = {}
        for k in a.keys() | b.keys():
            va, vb = a.get(k), b.get(k)
            if k == FACTS:
                fa_, fb_ = (va if va is not None else Facts()), (vb if vb is not None else Facts())
                # a fact whose slack keeps shrinking is dropped
                out[k] = Facts({kk: v for kk, v in fa_.d.items() if kk in fb_.d and fb_.d[kk] >= v})
                continue
            if va is None or vb is None:
                if k[2]:
                    continue
                out[k] = va if vb is None else vb
                continue
            out[k] = widen(va, vb, thresholds)
        return out

    def _mem_same(self, a, b):
        if a.keys() != b.keys():
            return False
        for k in a:
            if not same(a[k], b[k]):
                return False
        return True

    def _exec_block(self, fn, frame, bb, mem, chain):
        blk = fn.blocks[bb]
        for si, s in enumerate(blk["stmts"]):
            k = s["k"]
            if k == "assign":
                loc = s.get("loc")
                dty = s.get("pty") if s["p"]["proj"] else fn.locals[s["p"]["l"]]["ty"]
                val = self.eval_rvalue(frame, s["rv"], mem, fn, bb, si, loc, chain, dty)
                self.store(frame, s["p"], val, mem, fn, bb, si, loc, chain)
                if not s["p"]["proj"] and s["p"]["l"] in fn.names:
                    nm = fn.names[s["p"]["l"]]
                    symname = self.name_syms.get((fn.stable, nm))
                    if symname is None:
                        symname = self.name_syms.get((fn.stable, s["p"]["l"]))   # keyed by local id (rename-proof)
                    if symname is not None and isinstance(val, Num) and val.lo <= val.hi and not val.nan:
                        # the rule asks for this user variable to be a symbol of its own (relations are stated against it)
                        self.symenv.ranges[symname] = (val.lo, val.hi)
                        if is_float(val.ty):
                            self.symenv.float_syms.add(symname)
                        val = val.copy(sym=("s", symname))
                        mem[(frame, s["p"]["l"], ())] = val
                    self.local_defs.append((fn, s["p"]["l"], nm, val, bb, si, loc))
            elif k == "dead":
                # the temporary is gone: what was derived through it has already been closed transitively
                f = mem.get(FACTS)
                if f is not None:
                    name = "C" + _cellname((frame, s["l"], ()))
                    if any(name in kk for kk in f.d):
                        mem[FACTS] = f.drop_symbol(name)
        t = blk["term"]
        k = t["k"]
        nst = len(blk["stmts"])
        if k == "goto":
            return [(t["t"], mem)]
        if k == "return":
            return [("return", mem)]
        if k in ("unreachable", "resume", "abort", "coroutine_drop"):
            return []
        if k == "drop":
            return [(t["t"], mem)]
        if k == "yield":
            return [(t["resume"], mem)]
        if k == "switch":
            return self._exec_switch(fn, frame, bb, t, mem)
        if k == "assert":
            cond = self.eval_operand(frame, t["cond"], mem, fn)
            exp = t["expected"]
            can_fail = True
            if isinstance(cond, Bool):
                can_fail = cond.f if exp else cond.t
            ak = t["ak"]
            detail = ""
            if ak == "BoundsCheck":
                ln = self.eval_operand(frame, t["len"], mem, fn)
                ix = self.eval_operand(frame, t["index"], mem, fn)
                detail = "index %r, len %r" % (ix, ln)
                if can_fail and self.proves_lt(ix, ln, mem):
                    can_fail = False
            elif ak == "Overflow":
                oa, ob_ = self.eval_operand(frame, t["a"], mem, fn), self.eval_operand(frame, t["b"], mem, fn)
                detail = "%s(%r, %r)" % (t["op"], oa, ob_)
                if can_fail and isinstance(oa, Num) and isinstance(ob_, Num) and is_int(oa.ty) and t["op"] in ("Add", "Sub", "Mul"):
                    a2 = oa.copy(hi=min(oa.hi, self.upper(oa, mem)))
                    b2 = ob_.copy(hi=min(ob_.hi, self.upper(ob_, mem)))
                    if t["op"] == "Sub" and self.proves_le(ob_, oa, mem) and oa.lo >= 0:
                        can_fail = False
                    else:
                        _n, ovf2 = num_bin(t["op"], a2, b2, oa.ty, True)
                        if not ovf2:
                            can_fail = False
            elif ak in ("DivisionByZero", "RemainderByZero"):
                d = self.eval_operand(frame, t["a"], mem, fn)
                detail = "divisor %r" % (d,)
            self.obligations.append(Obligation("assert:" + ak, fn, bb, t.get("loc"), not can_fail, detail, tuple(chain)))
            m2 = mem
            if isinstance(cond, Bool):
                m2 = dict(mem)
                if not self.refine(m2, frame, cond, exp, fn):
                    return []
            return [(t["t"], m2)]
        if k == "call":
            return self._exec_call(fn, frame, bb, t, mem, chain)
        return []

    def _exec_switch(self, fn, frame, bb, t, mem):
        cfg = cfg_of(fn)
        d = self.eval_operand(frame, t["d"], mem, fn)
        outs = []
        vals, other = cfg.feasible_switch_values(bb)
        if t["ty"] == "bool" and isinstance(d, Bool):
            listed = set()
            for (v, tgt) in vals:
                listed.add(v)
                m2 = dict(mem)
                if self.refine(m2, frame, d, v != 0, fn):
                    outs.append((tgt, m2))
            if other is not None:
                for truth in (True, False):
                    if (1 if truth else 0) in listed:
                        continue
                    m2 = dict(mem)
                    if self.refine(m2, frame, d, truth, fn):
                        outs.append((other, m2))
            return self._merge_outs(outs)
        if isinstance(d, Num) and is_int(d.ty):
            ref = _ref(t["d"], frame)
            for (v, tgt) in vals:
                if d.lo <= v <= d.hi:
                    m2 = dict(mem)
                    if ref is not None and isinstance(m2.get(ref), Num):
                        self._write_back(m2, ref, Num(d.ty, v, v), m2[ref])
                    outs.append((tgt, m2))
            if other is not None:
                listed = sorted(v for v, _ in vals)
                lo, hi = d.lo, d.hi
                while lo in listed and lo <= hi:
                    lo += 1
                while hi in listed and hi >= lo:
                    hi -= 1
                if lo <= hi:
                    m2 = dict(mem)
                    if ref is not None and isinstance(m2.get(ref), Num):
                        self._write_back(m2, ref, Num(d.ty, lo, hi), m2[ref])
                    outs.append((other, m2))
            return self._merge_outs(outs)
        for (v, tgt) in vals:
            outs.append((tgt, dict(mem)))
        if other is not None:
            outs.append((other, dict(mem)))
        return self._merge_outs(outs)

    def _merge_outs(self, outs):
        m = {}
        order = []
        for (tgt, mm) in outs:
            if tgt in m:
                m[tgt] = self._join_mem(m[tgt], mm)
            else:
                m[tgt] = mm
                order.append(tgt)
        return [(t, m[t]) for t in order]

    # ------------------------------------------------------------------ calls
    def _exec_call(self, fn, frame, bb, t, mem, chain):
        f = t["f"]
        args = [self.eval_operand(frame, a, mem, fn) for a in t["args"]]
        loc = t.get("loc")
        nst = len(fn.blocks[bb]["stmts"])
        path = f.get("path", "indirect")
        self.calls.append(CallEvent(f.get("stable"), path, args, fn, bb, loc, tuple(chain)))
        res = None
        handled = False
        if "id" in f:
            ids = self.eff._callee_ids(f)
            summ = self.extra_summaries.get(f.get("stable")) or self.extra_summaries.get(path)
            if summ is not None:
                res = summ(self, args, t, mem, frame, fn)
                handled = True
            elif len(ids) == 1 and len(chain) <= self.max_depth and f.get("stable") not in chain:
                callee = self.world.fns[ids[0]]
                if callee.kind != "coroutine" and not callee.unsafe_block:
                    res = self._inline(callee, args, mem, chain, t)
                    handled = True
            if not handled and not ids:
                r = std_summary(self, path, args, t, mem, frame, fn, bb, loc, chain)
                if r is not NotImplemented:
                    res = r
                    handled = True
                    self.trusted_ext.add(path)
            if not handled:
                # unknown callee: havoc what it may write
                if ids:
                    keys = set()
                    for cid in ids:
                        keys |= set(k[1] for k in self.eff.W(cid))
                    for a in args:
                        if isinstance(a, Ptr):
                            for c in a.targets:
                                self.havoc_prefix(c, mem, keys if keys else None)
                                if not c[2] or True:
                                    pass
                    # &mut scalar pointees are written by the callee itself
                    for ai, a in enumerate(args):
                        ty = t.get("atys", [""] * len(args))[ai] if ai < len(t.get("atys", [])) else ""
                        if isinstance(a, Ptr) and ty.startswith("&mut "):
                            for c in a.targets:
                                self._invalidate(c, mem)
                                mem.pop(c, None)
                else:
                    self.unknown_ext.add(path)
                    for ai, a in enumerate(args):
                        ty = t.get("atys", [""] * len(args))[ai] if ai < len(t.get("atys", [])) else ""
                        if isinstance(a, Ptr) and ty.startswith("&mut "):
                            for c in a.targets:
                                self.havoc_prefix(c, mem)
                                mem.pop(c, None)
                res = top_of(t.get("dty"))
        else:
            res = top_of(t.get("dty"))
        if res is None:
            res = top_of(t.get("dty"))
        if res == "diverges" or t["t"] is None:
            return []
        self.store(frame, t["dest"], res, mem, fn, bb, nst, loc, chain)
        if not t["dest"]["proj"] and t["dest"]["l"] in fn.names:
            self.local_defs.append((fn, t["dest"]["l"], fn.names[t["dest"]["l"]], res, bb, nst, loc))
        return [(t["t"], mem)]

    def _inline(self, callee, args, mem, chain, t):
        frame = self._new_frame()
        for i, a in enumerate(args):
            l = i + 1
            if l > callee.argc:
                break
            v = a
            if isinstance(v, TopV):
                ty = callee.locals[l]["ty"]
                if ty.startswith("&") or ty.startswith("*"):
                    v = Ptr([(frame, l, ("deref",))])
                else:
                    v = top_of(ty)
            mem[(frame, l, ())] = _with_src(v, None) if not isinstance(v, Ptr) else v
        ret, mem_out = self._analyze(callee, frame, mem, chain + [callee.stable])
        # replace caller memory by the callee's exit memory (minus the callee frame)
        mem.clear()
        for k, v in mem_out.items():
            if k[0] != frame:
                mem[k] = v
        if ret is None:
            return "diverges" if not cfg_of(callee).returns else top_of(t.get("dty"))
        return _with_src(ret, None) if not isinstance(ret, Ptr) else ret


NEG = {"Eq": "Ne", "Ne": "Eq", "Lt": "Ge", "Ge": "Lt", "Le": "Gt", "Gt": "Le", "finite": "notfinite", "notfinite": "finite"}


def _with_src(v, src):
    if isinstance(v, Num):
        return v.copy(src=src)
    if isinstance(v, Bool):
        b = Bool(v.t, v.f, v.cmp, src)
        return b
    return v


def _ref(o, frame):
    """Cell key of an operand that is a bare local (for refinement)."""
    if o is None or o["k"] not in ("copy", "move"):
        return None
    p = o["p"]
    if p["proj"]:
        return None
    return (frame, p["l"], ())


def _cellname(c):
    return "_%s_%s%s" % (c[0], c[1], "".join("." + (x if isinstance(x, str) else str(x[1])) for x in c[2]))


def _array_len(ty):
    # "[u8; 258]"
    if ty is None:
        return None
    if ty.startswith("[") and ty.endswith("]") and ";" in ty:
        try:
            return int(ty[ty.rindex(";") + 1:-1].strip())
        except ValueError:
            return None
    return None


def _collect_consts(node, out):
    if isinstance(node, dict):
        if node.get("k") == "const" and "val" in node and isinstance(node["val"], int) and not isinstance(node["val"], bool):
            v = node["val"]
            out.add(v)
            out.add(v - 1)
            out.add(v + 1)
        for v in node.values():
            _collect_consts(v, out)
    elif isinstance(node, list):
        for v in node:
            _collect_consts(v, out)


def lin_bin(op, a, b):
    if op == "Add":
        if a.lin is not None and b.is_const() and isinstance(b.lo, int):
            return (a.lin[0], a.lin[1], a.lin[2] + b.lo)
        if b.lin is not None and a.is_const() and isinstance(a.lo, int):
            return (b.lin[0], b.lin[1], b.lin[2] + a.lo)
    if op == "Sub":
        if a.lin is not None and b.is_const() and isinstance(b.lo, int):
            return (a.lin[0], a.lin[1], a.lin[2] - b.lo)
    return None


def cmp_may(op, a, b):
    """(may be true, may be false) for a `op` b."""
    if a.lo > a.hi or b.lo > b.hi:
        # empty (pure NaN floats): every ordered comparison is false, Ne is true
        if op == "Ne":
            return True, False
        return False, True
    nan = a.nan or b.nan
    if op == "Lt":
        t, f = a.lo < b.hi, a.hi >= b.lo
    elif op == "Le":
        t, f = a.lo <= b.hi, a.hi > b.lo
    elif op == "Gt":
        t, f = a.hi > b.lo, a.lo <= b.hi
    elif op == "Ge":
        t, f = a.hi >= b.lo, a.lo < b.hi
    elif op == "Eq":
        t = not (a.hi < b.lo or b.hi < a.lo)
        f = not (a.lo == a.hi == b.lo == b.hi)
    else:  # Ne
        t = not (a.lo == a.hi == b.lo == b.hi)
        f = not (a.hi < b.lo or b.hi < a.lo)
    if nan:
        if op == "Ne":
            t = True
        else:
            f = True
    return t, f


def refine_cmp(op, a, b):
    """Refine intervals of a and b under a `op` b (true). Returns (None, None) if infeasible."""
    isint = is_int(a.ty)
    one = 1 if isint else 0
    alo, ahi, blo, bhi = a.lo, a.hi, b.lo, b.hi
    anan, bnan = a.nan, b.nan
    if not isint and op in ("Lt", "Gt"):
        # strict float comparison: step one ulp
        def nxt(x, up):
            if x in (INF, -INF) or x != x:
                return x
            return math.nextafter(x, INF if up else -INF)
        if op == "Lt":
            ahi = min(ahi, nxt(bhi, False))
            blo = max(blo, nxt(alo, True))
        else:
            alo = max(alo, nxt(blo, True))
            bhi = min(bhi, nxt(ahi, False))
        anan = bnan = False
        if alo > ahi or blo > bhi:
            return None, None
        return a.copy(lo=alo, hi=ahi, nan=False), b.copy(lo=blo, hi=bhi, nan=False)
    if op == "Lt":
        ahi = min(ahi, bhi - one)
        blo = max(blo, alo + one)
        anan = bnan = False
    elif op == "Le":
        ahi = min(ahi, bhi)
        blo = max(blo, alo)
        anan = bnan = False
    elif op == "Gt":
        alo = max(alo, blo + one)
        bhi = min(bhi, ahi - one)
        anan = bnan = False
    elif op == "Ge":
        alo = max(alo, blo)
        bhi = min(bhi, ahi)
        anan = bnan = False
    elif op == "Eq":
        alo = blo = max(alo, blo)
        ahi = bhi = min(ahi, bhi)
        anan = bnan = False
    elif op == "Ne":
        if isint:
            if b.lo == b.hi:
                if alo == b.lo:
                    alo += 1
                if ahi == b.lo:
                    ahi -= 1
            if a.lo == a.hi:
                if blo == a.lo:
                    blo += 1
                if bhi == a.lo:
                    bhi -= 1
    if (alo > ahi and not anan) or (blo > bhi and not bnan):
        return None, None
    return a.copy(lo=alo, hi=ahi, nan=anan), b.copy(lo=blo, hi=bhi, nan=bnan)


# --------------------------------------------------------------------------- std summaries

def _num(x, ty=None):
    return x if isinstance(x, Num) else top_of(ty)


def _deref_num(ai, x, mem):
    """Value of `*x` for a pointer argument (by-reference std calls such as Ord::max(&a, &b))."""
    if isinstance(x, Ptr) and len(x.targets) == 1:
        v = mem.get(next(iter(x.targets)))
        if isinstance(v, Num):
            return v
    return None


def _min(a, b):
    if is_float(a.ty):
        # f64::min ignores a NaN operand
        lo = min(a.lo, b.lo)
        hi = min(a.hi, b.hi)
        if a.nan:
            hi = max(hi, b.hi)
        if b.nan:
            hi = max(hi, a.hi)
        if a.lo > a.hi:
            return b.copy(sym=None, src=None)
        if b.lo > b.hi:
            return a.copy(sym=None, src=None)
        fsym = ("min", a.sym, b.sym) if (a.sym is not None and b.sym is not None and not a.nan and not b.nan) else None
        return Num(a.ty, lo, hi, a.nan and b.nan, fsym)
    sym = ("min", a.sym, b.sym) if a.sym is not None and b.sym is not None else None
    return Num(a.ty, min(a.lo, b.lo), min(a.hi, b.hi), False, sym)


def _max(a, b):
    if is_float(a.ty):
        lo = max(a.lo, b.lo)
        hi = max(a.hi, b.hi)
        if a.nan:
            lo = min(lo, b.lo)
        if b.nan:
            lo = min(lo, a.lo)
        if a.lo > a.hi:
            return b.copy(sym=None, src=None)
        if b.lo > b.hi:
            return a.copy(sym=None, src=None)
        fsym = ("max", a.sym, b.sym) if (a.sym is not None and b.sym is not None and not a.nan and not b.nan) else None
        return Num(a.ty, lo, hi, a.nan and b.nan, fsym)
    sym = ("max", a.sym, b.sym) if a.sym is not None and b.sym is not None else None
    return Num(a.ty, max(a.lo, b.lo), max(a.hi, b.hi), False, sym)


def std_summary(ai, path, args, t, mem, frame, fn, bb, loc, chain):
    """Abstract effect of the std functions this code base uses. NotImplemented = no summary."""
    dty = t.get("dty")
    p = path
    last = p.rsplit("::", 1)[-1]
    nums = [a for a in args]

    def ob(kind, ok, detail):
        ai.obligations.append(Obligation(kind, fn, bb, loc, ok, detail, tuple(chain)))

    # ---- RangeInclusive::new / contains (a double comparison written as `(lo..=hi).contains(&x)`)
    if p.endswith("RangeInclusive::<Idx>::new") and len(args) == 2 and all(isinstance(a, Num) for a in args):
        return Tup([args[0], args[1]], tag="rangeincl")
    if p.endswith("RangeInclusive::<Idx>::contains") and len(args) == 2:
        r = args[0]
        if isinstance(r, Ptr) and len(r.targets) == 1:
            r = mem.get(next(iter(r.targets)))
        if not (isinstance(r, Tup) and r.tag == "rangeincl"):
            return Bool()
        lo, hi = r.items
        x = args[1]
        ref = None
        v = x if isinstance(x, Num) else None
        if isinstance(x, Ptr) and len(x.targets) == 1:
            ref = next(iter(x.targets))
            v = mem.get(ref)
        if isinstance(v, Num) and isinstance(lo, Num) and isinstance(hi, Num):
            may_in = v.hi >= lo.lo and v.lo <= hi.hi
            must_in = lo.hi <= v.lo and v.hi <= hi.lo and not v.nan
            return Bool(may_in, not must_in, ("inrange", ref, None, v, (lo, hi)))
        return Bool()
    # ---- min / max / clamp (by value)
    ord_impl = p.startswith("std::cmp::impls::<impl std::cmp::Ord for ") or p.startswith("core::cmp::impls::<impl core::cmp::Ord for ")
    if ord_impl and last in ("min", "max", "clamp") and all(isinstance(a, Num) for a in args):
        p = "std::cmp::Ord::" + last
    if p in ("std::cmp::min", "core::cmp::min", "std::cmp::Ord::min", "core::cmp::Ord::min") or p.endswith("::min") and _is_num_method(p):
        a, b = _num(args[0], dty), _num(args[1], dty)
        if a.ty == b.ty:
            return _min(a, b)
        return top_of(dty)
    if p in ("std::cmp::max", "core::cmp::max", "std::cmp::Ord::max", "core::cmp::Ord::max") or p.endswith("::max") and _is_num_method(p):
        a, b = _num(args[0], dty), _num(args[1], dty)
        if a.ty == b.ty:
            return _max(a, b)
        return top_of(dty)
    if (p in ("std::cmp::Ord::clamp", "core::cmp::Ord::clamp") or (p.endswith("::clamp") and _is_num_method(p))) and len(args) == 3:
        x, lo, hi = _num(args[0], dty), _num(args[1], dty), _num(args[2], dty)
        ordered = lo.hi <= hi.lo and not lo.nan and not hi.nan
        ob("call:clamp-bounds", ordered, "clamp(%r, %r, %r)" % (x, lo, hi))
        if is_float(x.ty):
            r = Num(x.ty, min(max(x.lo, lo.lo), hi.hi), max(min(x.hi, hi.hi), lo.lo), x.nan)
            if x.lo > x.hi:
                r = Num(x.ty, INF, -INF, True)
            return r
        sym = None
        if x.sym is not None and lo.sym is not None and hi.sym is not None:
            sym = ("min", ("max", x.sym, lo.sym), hi.sym)
        return Num(x.ty, min(max(x.lo, lo.lo), hi.hi), max(min(x.hi, hi.hi), lo.lo), False, sym)
    # ---- integer helpers
    if _is_num_method(p):
        ty = _num_ty(p)
        a = _num(args[0], ty) if args else None
        if last in ("saturating_add", "saturating_sub", "saturating_mul") and len(args) == 2:
            b = _num(args[1], ty)
            op = {"saturating_add": "Add", "saturating_sub": "Sub", "saturating_mul": "Mul"}[last]
            if is_int(ty):
                tlo, thi = INT_RANGE[ty]
                ps = _exact(op, a, b)
                lo, hi = max(tlo, min(thi, ps[0])), max(tlo, min(thi, ps[1]))
                sym = None
                s = sym_bin(op, a, b, ty)
                if s is not None:
                    sym = ("min", ("max", s, ("c", tlo)), ("c", thi))
                    if ps[0] >= tlo and ps[1] <= thi:
                        sym = s
                return Num(ty, lo, hi, False, sym)
        if last in ("wrapping_add", "wrapping_sub", "wrapping_mul") and len(args) == 2:
            b = _num(args[1], ty)
            op = {"wrapping_add": "Add", "wrapping_sub": "Sub", "wrapping_mul": "Mul"}[last]
            n, _ = num_bin(op, a, b, ty, False)
            return n
        if last in ("checked_add", "checked_sub", "checked_mul"):
            return TopV(dty)
        if last == "abs" and is_float(ty):
            lo = 0.0 if a.lo <= 0 <= a.hi else min(abs(a.lo), abs(a.hi))
            return Num(ty, lo, max(abs(a.lo), abs(a.hi)) if a.lo <= a.hi else -INF, a.nan)
        if last == "unsigned_abs" and is_int(ty):
            uty = "u" + ty[1:]
            lo = 0 if a.lo <= 0 <= a.hi else min(abs(a.lo), abs(a.hi))
            return Num(uty, lo, max(abs(a.lo), abs(a.hi)))
        if last == "abs" and is_int(ty):
            ob("call:abs-min", a.lo > INT_RANGE[ty][0], "abs(%r)" % a)
            lo = 0 if a.lo <= 0 <= a.hi else min(abs(a.lo), abs(a.hi))
            return Num(ty, lo, min(INT_RANGE[ty][1], max(abs(a.lo), abs(a.hi))))
        if last in ("floor", "ceil", "round", "trunc") and is_float(ty):
            if a.lo > a.hi:
                return a
            f = {"floor": math.floor, "ceil": math.ceil, "round": round, "trunc": math.trunc}[last]
            lo = a.lo if a.lo in (INF, -INF) else float(f(a.lo))
            hi = a.hi if a.hi in (INF, -INF) else float(f(a.hi))
            return Num(ty, lo, hi, a.nan)
        if last == "exp" and is_float(ty):
            if a.lo > a.hi:
                return a
            lo = 0.0 if a.lo == -INF else _safe_exp(a.lo)
            hi = INF if a.hi == INF else _safe_exp(a.hi)
            return Num(ty, _down(lo), _up(hi), a.nan)
        if last == "sqrt" and is_float(ty):
            nan = a.nan or a.lo < 0
            lo = math.sqrt(max(a.lo, 0.0)) if a.lo != INF and a.lo == a.lo else INF
            hi = math.sqrt(a.hi) if a.hi >= 0 and a.hi != INF else (INF if a.hi == INF else 0.0)
            return Num(ty, _down(lo), _up(hi), nan)
        if last == "powi" and is_float(ty):
            return Num(ty, -INF, INF, True)
        if last in ("is_nan",):
            return Bool(a.nan, a.lo <= a.hi)
        if last == "is_finite":
            fin = a.lo <= a.hi and not (a.lo == a.hi and a.lo in (INF, -INF))
            return Bool(fin and (a.lo > -INF or a.hi < INF or a.lo < a.hi) and not (a.lo == INF) and not (a.hi == -INF),
                        a.nan or a.lo == -INF or a.hi == INF, ("finite", _ref(t["args"][0], frame), None, a, None))
        if last == "is_infinite":
            return Bool(a.lo == -INF or a.hi == INF, True)
        if last in ("from_be_bytes", "from_le_bytes", "from_ne_bytes"):
            return top_of(ty)
        if last in ("to_be_bytes", "to_le_bytes", "to_ne_bytes"):
            return TopV("array")
        if last in ("min_value", "max_value"):
            v = INT_RANGE[ty][0 if last == "min_value" else 1]
            return const_num(ty, v)
        if last in ("leading_zeros", "trailing_zeros", "count_ones"):
            return Num("u32", 0, 128)
        if last == "pow":
            return top_of(ty)
        if last in ("is_power_of_two",):
            return Bool()
        if last in ("rem_euclid", "div_euclid"):
            return top_of(ty)
        if last == "mul_add":
            return Num(ty, -INF, INF, True)
        if last in ("ln", "log10", "log2"):
            return Num(ty, -INF, INF, True)
        if last in ("total_cmp", "partial_cmp", "cmp"):
            return TopV(dty)
        if last == "clone":
            return a
    # ---- iterators over ranges and slices
    if p.endswith("IntoIterator>::into_iter") and len(args) == 1:
        return args[0]
    if p.endswith("Iterator::enumerate") and len(args) == 1:
        return Tup([args[0]], "Enumerate")
    if (p.endswith("<impl [T]>::iter") or p.endswith("<impl [T]>::iter_mut")) and len(args) == 1:
        return Tup([args[0]], "SliceIter")
    if "ops::Range<" in p and p.endswith("Iterator>::next") or p.endswith("for std::ops::Range<A>>::next") or (p.endswith("::next") and "range::<impl" in p and "RangeInclusive" not in p):
        it = args[0]
        if isinstance(it, Ptr) and len(it.targets) == 1:
            c = next(iter(it.targets))
            rv = mem.get(c)
            if isinstance(rv, Tup) and rv.tag == ("start", "end") and isinstance(rv.items[0], Num) and isinstance(rv.items[1], Num):
                st_, en = rv.items
                pay = Num(st_.ty, st_.lo, max(st_.lo, en.hi - 1))
                ai._invalidate(c, mem)
                mem[c] = Tup([Num(st_.ty, st_.lo, max(st_.hi, en.hi)), en], ("start", "end"))
                return Tup([pay], "Option")
        return Tup([top_of("usize")], "Option")
    if p.endswith("Iterator>::position") or p.endswith("Iterator::position"):
        it = args[0]
        src = None
        if isinstance(it, Ptr) and len(it.targets) == 1:
            src = mem.get(next(iter(it.targets)))
        elif isinstance(it, Tup):
            src = it
        while isinstance(src, Tup) and src.tag in ("SliceIter", "Enumerate") and src.items:
            inner = src.items[0]
            if isinstance(inner, Ptr) and inner.lencell is not None:
                ln = mem.get(inner.lencell)
                if isinstance(ln, Num):
                    _fresh[0] += 1
                    nm = "POS%d" % _fresh[0]
                    ai.symenv.ranges[nm] = (0, max(0, ln.hi - 1))
                    pay = Num("usize", 0, max(0, ln.hi - 1), False, None, None, (1, nm, 0))
                    if ln.lin is not None and ln.lin[0] == 1:
                        mem[FACTS] = (mem.get(FACTS) or Facts()).add(nm, 1 - ln.lin[2], ln.lin[1])
                    return Tup([pay], "Option")
                break
            src = inner
        return Tup([top_of("usize")], "Option")
    # ---- slice / array indexing
    idx_call = ("ops::Index<I> for [T]>::index" in p or "ops::IndexMut<I> for [T]>::index_mut" in p or "ops::Index<I> for [T; N]>::index" in p or
                "ops::IndexMut<I> for [T; N]>::index_mut" in p or p.endswith("<impl [T]>::get_unchecked"))
    if idx_call and len(args) == 2:
        base, ix = args
        ln = ai.len_of(base, mem)
        if isinstance(ix, Num):
            ok_ = ln is not None and ai.proves_lt(ix, ln, mem)
            ob("call:index", ok_, "index %r of len %r" % (ix, ln))
            tg = [(c[0], c[1], c[2] + ("idx",)) for c in base.targets] if isinstance(base, Ptr) else []
            return Ptr(tg) if tg else TopV(dty)
        lo_ = hi_ = None
        kind = None
        if isinstance(ix, Tup):
            if ix.tag == ("start", "end"):
                lo_, hi_, kind = ix.items[0], ix.items[1], "range"
            elif ix.tag == ("end",):
                lo_, hi_, kind = const_num("usize", 0), ix.items[0], "range"
            elif ix.tag == ("start",):
                lo_, hi_, kind = ix.items[0], ln, "range"
            elif ix.tag == () or ix.tag is None and not ix.items:
                lo_, hi_, kind = const_num("usize", 0), ln, "range"
        if kind == "range" and isinstance(lo_, Num) and isinstance(hi_, Num) and ln is not None:
            ok_ = ai.proves_le(lo_, hi_, mem) and ai.proves_le(hi_, ln, mem)
            ob("call:slice-range", ok_, "[%r .. %r] of len %r" % (lo_, hi_, ln))
            tg = [(c[0], c[1], c[2] + ("idx",)) for c in base.targets] if isinstance(base, Ptr) else []
            if tg:
                _fresh[0] += 1
                lc = (tg[0][0], tg[0][1], tg[0][2] + ("sub%d" % _fresh[0], "len"))
                n, _o = num_bin("Sub", hi_, lo_, "usize", True)
                if hi_.is_const() and lo_.is_const():
                    n = const_num("usize", hi_.lo - lo_.lo)
                mem[lc] = n
                return Ptr(tg, lc)
            return TopV(dty)
        ob("call:index", False, "unrecognised index %r of len %r" % (ix, ln))
        return TopV(dty)
    if p.endswith("<impl [T]>::copy_from_slice") and len(args) == 2:
        a_, b_ = ai.len_of(args[0], mem), ai.len_of(args[1], mem)
        same = a_ is not None and b_ is not None and ((a_.is_const() and b_.is_const() and a_.lo == b_.lo) or (a_.lin is not None and a_.lin == b_.lin))
        ob("call:copy_from_slice", same, "dst len %r, src len %r" % (a_, b_))
        if isinstance(args[0], Ptr):
            for c in args[0].targets:
                ai.havoc_prefix(c, mem)
        return TopV("()")
    if last in ("to_be_bytes", "to_le_bytes", "to_ne_bytes"):
        return TopV("array")
    # ---- Option / Result plumbing (values are not tracked, but nothing panics here)
    if p.startswith("std::option::Option::<T>::") or p.startswith("core::option::Option::<T>::"):
        if last in ("unwrap_or",) and len(args) == 2:
            d = args[1]
            if isinstance(args[0], Tup) and args[0].tag == "Option" and isinstance(args[0].items[0], Num) and isinstance(d, Num):
                return join(args[0].items[0], d)
            if isinstance(d, Num):
                return join(top_of(d.ty), d)
            return top_of(dty)
        if last in ("is_some", "is_none", "is_some_and", "is_none_or"):
            return Bool()
        if last in ("unwrap", "expect"):
            return NotImplemented
        return top_of(dty)
    # ---- slices
    if "slice" in p and last == "len" or p.endswith("<impl [T]>::len"):
        ln = ai.len_of(args[0], mem)
        if ln is not None:
            return ln
        return Num("usize", 0, 2**63 - 1)
    if p.endswith("<impl [T]>::is_empty"):
        ln = ai.len_of(args[0], mem)
        if ln is not None:
            z = const_num("usize", 0)
            tt, ff = cmp_may("Eq", ln, z)
            return Bool(tt, ff, ("Eq", args[0].lencell, None, ln, z))
        return Bool()
    if p in ("std::clone::Clone::clone", "core::clone::Clone::clone") or last == "clone":
        d = _deref_num(ai, args[0], mem) if args else None
        if d is not None:
            return d.copy(src=None)
        return top_of(dty)
    if last in ("from", "into") and len(args) == 1 and isinstance(args[0], Num) and (is_int(dty or "") or is_float(dty or "")):
        return ai.cast(args[0], dty, args[0].ty, "IntToInt")
    return NotImplemented


def _safe_exp(x):
    try:
        return math.exp(x)
    except OverflowError:
        return INF


def _exact(op, a, b):
    if op == "Add":
        return a.lo + b.lo, a.hi + b.hi
    if op == "Sub":
        return a.lo - b.hi, a.hi - b.lo
    ps = [x * y for x in (a.lo, a.hi) for y in (b.lo, b.hi)]
    return min(ps), max(ps)


_NUM_PREFIXES = ("core::num::<impl ", "std::num::<impl ", "core::f64::<impl f64>", "core::f32::<impl f32>",
                 "std::f64::<impl f64>", "std::f32::<impl f32>", "core::num::f64::<impl f64>")


def _is_num_method(p):
    return p.startswith("core::num::") or p.startswith("std::num::") or "<impl f64>" in p or "<impl f32>" in p


def _num_ty(p):
    # "core::num::<impl i32>::saturating_add"
    if "<impl " in p:
        s = p[p.index("<impl ") + 6:]
        return s[:s.index(">")]
    return None
