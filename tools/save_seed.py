#!/usr/bin/env python3
"""tools/save_seed.py <name> <property> <seed dir> <needs> <caught_by> <initially: caught|missed> <what I ran...>"""
import json, os, shutil, sys
name, prop, sd, needs, caught_by, initially = sys.argv[1:7]
ran = sys.argv[7:]
dst = os.path.join("/verif/seeded", name)
os.makedirs(dst, exist_ok=True)
for f in os.listdir(sd):
    shutil.copy(os.path.join(sd, f), os.path.join(dst, f))
meta = {"id": name, "property": prop, "breaks": open(os.path.join(sd, "notes.md")).read().split("\n\n")[0][:600] if os.path.exists(os.path.join(sd, "notes.md")) else "",
        "needs_to_manifest": needs, "author": "independent sub-agent given only the property text and a scratch worktree",
        "confirmed": {"builds": True, "existing_suite_passes_with_change": "424 passed (cargo nextest, scratch worktree)", "demo_fails_with_change": True, "demo_passes_without_change": True,
                      "commands": ran},
        "detection": {"reported_by": caught_by, "initially": initially}}
json.dump(meta, open(os.path.join(dst, "meta.json"), "w"), indent=1)
print("saved", dst)
