"""E5 - panic reachability: every site that can panic in the workspace bodies reachable from a set of entry points."""
from .effects import effects_of

DIVERGING = ("::panicking::", "panic_fmt", "panic_display", "::unwrap_failed", "::expect_failed", "unreachable_display", "slice_index_fail",
             "slice_start_index_len_fail", "slice_end_index_len_fail", "slice_index_order_fail", "begin_panic", "assert_failed", "panic_bounds_check",
             "copy_from_slice::len_mismatch_fail", "::process::abort", "::process::exit", "panic_nounwind", "option::unwrap_failed", "handle_alloc_error")

# std APIs that panic on some inputs: (substring of the resolved path, kind)
MAY_PANIC = [
    ("option::Option::<T>::unwrap", "unwrap"), ("option::Option::<T>::expect", "unwrap"),
    ("result::Result::<T, E>::unwrap", "unwrap"), ("result::Result::<T, E>::expect", "unwrap"),
    ("result::Result::<T, E>::unwrap_err", "unwrap"), ("result::Result::<T, E>::expect_err", "unwrap"),
    ("ops::Index<I> for [T]>::index", "index"), ("ops::IndexMut<I> for [T]>::index_mut", "index"),
    ("ops::Index<I> for [T; N]>::index", "index"), ("ops::IndexMut<I> for [T; N]>::index_mut", "index"),
    ("Vec<T, A> as std::ops::Index<I>>::index", "index"), ("Vec<T, A> as std::ops::IndexMut<I>>::index_mut", "index"),
    ("as std::ops::Index<I>>::index", "index"), ("as std::ops::IndexMut<I>>::index_mut", "index"),
    ("ops::Index<I> for str>::index", "index"), ("String as std::ops::Index<I>>::index", "index"),
    ("HashMap<K, V, S> as std::ops::Index<&Q>>::index", "index"),
    ("<impl [T]>::copy_from_slice", "copy_from_slice"), ("<impl [T]>::clone_from_slice", "copy_from_slice"),
    ("Vec::<T, A>::remove", "vec-index"), ("Vec::<T, A>::insert", "vec-index"), ("Vec::<T, A>::swap_remove", "vec-index"),
    ("Vec::<T, A>::split_off", "vec-index"), ("Vec::<T, A>::drain", "vec-range"), ("VecDeque::<T, A>::drain", "vec-range"),
    ("<impl [T]>::split_at", "slice-split"), ("<impl [T]>::chunks", "chunk-size"), ("<impl [T]>::windows", "chunk-size"),
    ("<impl [T]>::chunks_exact", "chunk-size"), ("<impl [T]>::swap", "index"),
    ("RefCell::<T>::borrow", "refcell"), ("RefCell::<T>::borrow_mut", "refcell"),
    ("Instant as std::ops::Add<std::time::Duration>>::add", "time-arith"), ("Instant as std::ops::Sub<std::time::Duration>>::sub", "time-arith"),
    ("Duration as std::ops::Add>::add", "time-arith"), ("Duration as std::ops::Sub>::sub", "time-arith"), ("Duration as std::ops::Mul<u32>>::mul", "time-arith"),
    ("Duration::from_secs_f64", "time-arith"), ("Duration::from_secs_f32", "time-arith"), ("Duration::mul_f64", "time-arith"),
    ("Instant as std::ops::Sub>::sub", "total"), ("::clamp", "clamp"),
    ("<impl i32>::abs", "abs"), ("<impl i64>::abs", "abs"), ("<impl isize>::abs", "abs"),
    ("SmallVec<T, N> as std::ops::Index<I>>::index", "index"), ("smallvec::SmallVec::<T, N>::remove", "vec-index"), ("smallvec::SmallVec::<T, N>::insert", "vec-index"),
    ("smallvec::SmallVec::<T, N>::swap_remove", "vec-index"), ("smallvec::SmallVec::<T, N>::drain", "vec-range"),
    ("std::sync::Mutex::<T>::lock", "total"), ("str::<impl str>::split_at", "slice-split"),
    ("serde_json::value::index", "json-index"), ("as std::ops::Index<I>>::index", "index"),
    ("std::thread::spawn", "total"), ("tokio::task::spawn", "total"),
]

ASSERT_QUICK = ("BoundsCheck", "DivisionByZero", "RemainderByZero")
ASSERT_DEV = ("Overflow", "OverflowNeg")


class Site:
    __slots__ = ("fn", "bb", "kind", "detail", "loc", "term", "mac")

    def __init__(self, fn, bb, kind, detail, loc, term, mac=None):
        self.fn = fn
        self.bb = bb
        self.kind = kind
        self.detail = detail
        self.loc = loc
        self.term = term
        self.mac = mac

    def key(self):
        return "%s:%s:%s" % (self.fn.stable, self.kind, self.detail)


def classify_call(path):
    for d in DIVERGING:
        if d in path:
            return "explicit-panic"
    last = path.rsplit("::", 1)[-1]
    for (sub, kind) in MAY_PANIC:
        if sub in path and sub.rsplit("::", 1)[-1] == last:
            return kind
    return None


def sites_reachable(world, entry_ids, include_overflow=False):
    """All may-panic sites in workspace bodies reachable from the entries. Returns (sites, reachable fn ids, foreign callees trusted)."""
    eff = effects_of(world)
    reach = set()
    for e in entry_ids:
        reach |= eff.reachable(e)
    sites = []
    trusted = set()
    for fid in sorted(reach):
        fn = world.fns[fid]
        for bi, blk in enumerate(fn.blocks):
            if blk["cleanup"]:
                continue
            t = blk["term"]
            k = t["k"]
            if k == "assert":
                ak = t["ak"]
                if ak in ASSERT_QUICK or (include_overflow and ak in ASSERT_DEV):
                    sites.append(Site(fn, bi, "assert:" + ak, t.get("op", ""), t.get("loc"), t, t.get("mac")))
            elif k == "call":
                f = t["f"]
                if "id" not in f:
                    sites.append(Site(fn, bi, "indirect-call", "", t.get("loc"), t, t.get("mac")))
                    continue
                path = f["path"]
                if eff._callee_ids(f):
                    continue
                kind = classify_call(path)
                if kind is None or kind == "total":
                    trusted.add(path)
                    continue
                sites.append(Site(fn, bi, kind, path.rsplit("::", 2)[-2] + "::" + path.rsplit("::", 1)[-1] if "::" in path else path, t.get("loc"), t, t.get("mac")))
    return sites, reach, trusted
