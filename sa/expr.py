"""E3a - value reconstruction: the defining expression of an operand at a program point.

Expressions are hashable tuples:
  ('param', i)                      a never-reassigned parameter (refs are transparent: `*p` == p)
  ('upvar', i)                      closure/coroutine capture i
  ('var', l, defs)                  a local whose value at this point is not a single definition
  ('const', v, ty) / ('constdef', id) / ('fn', path)
  ('field', base, adt, name)        refs/derefs stripped
  ('as', base, variant)             enum downcast
  ('index', base, idx)
  ('bin', op, a, b, ty) ('un', op, a, ty) ('cast', ty, a, sty)
  ('call', path, args, site)        site is None for read-only callees, else (bb,)
  ('agg', kind, name, ops) ('discr', e) ('old', e, point) ('resume', bb) ('unknown', why)
Comparison operators are canonicalised to Lt / Le / Eq / Ne with swapped operands for Gt / Ge.
"""
from collections import defaultdict

from .cfg import cfg_of
from .effects import effects_of
from .facts import const_value

COMMUTATIVE = {"Add", "Mul", "BitAnd", "BitOr", "BitXor", "Eq", "Ne", "AddWithOverflow", "MulWithOverflow",
               "AddUnchecked", "MulUnchecked"}
OVF = {"AddWithOverflow": "Add", "SubWithOverflow": "Sub", "MulWithOverflow": "Mul"}
UNCHECKED = {"AddUnchecked": "Add", "SubUnchecked": "Sub", "MulUnchecked": "Mul", "ShlUnchecked": "Shl",
             "ShrUnchecked": "Shr"}

# foreign callees whose result depends on something other than their arguments' current state
NONDET_MARKERS = ("now", "Instant", "SystemTime", "rand", "Atomic", "elapsed", "recv", "accept", "poll",
                  "Iterator>::next", "fetch_", "lock", "read_line", "thread_rng", "random")


# enum-valued expression -> ((discriminant, variant name), ...), filled while values are reconstructed
VARIANTS = {}
# two-variant enums: second variant name -> first variant name (`x is Second` is represented as !(x is First))
DUAL_OF = {"Some": "None", "Err": "Ok", "Pending": "Ready"}


def is_int_ty(ty):
    return ty in ("i8", "i16", "i32", "i64", "i128", "isize", "u8", "u16", "u32", "u64", "u128", "usize")


def is_float_ty(ty):
    return ty in ("f32", "f64")


class FnA:
    """Per-function value reconstruction."""

    def __init__(self, world, fn):
        self.world = world
        self.fn = fn
        self.cfg = cfg_of(fn)
        self.eff = effects_of(world)
        self.ref = self.eff._ref_targets(fn)
        self.defs = defaultdict(list)
        self.partial = set()
        self.addr_taken_mut = set()
        self.events = [[] for _ in fn.blocks]
        self.is_closure = fn.kind in ("closure", "coroutine")
        self._memo = {}
        self._between = {}
        self._scan()

    # ------------------------------------------------------------------ scanning
    def _scan(self):
        fn = self.fn
        for bi, b in enumerate(fn.blocks):
            if b["cleanup"]:
                continue
            for si, s in enumerate(b["stmts"]):
                if s["k"] == "assign":
                    p = s["p"]
                    if not p["proj"]:
                        self.defs[p["l"]].append((bi, si, "assign", s["rv"]))
                    else:
                        if p["proj"][0]["k"] != "deref":
                            self.partial.add(p["l"])
                    keys = self._store_keys(p, s.get("padt"))
                    rv = s["rv"]
                    if rv["k"] in ("ref", "raw") and rv["mut"]:
                        rp = rv["p"]
                        keys |= self._store_keys(rp, None)
                        if not (rp["proj"] and rp["proj"][0]["k"] == "deref"):
                            self.addr_taken_mut.add(rp["l"])
                    if keys:
                        self.events[bi].append((si, keys))
                elif s["k"] == "setdiscr":
                    p = s["p"]
                    if p["proj"] and p["proj"][0]["k"] != "deref":
                        self.partial.add(p["l"])
                    elif not p["proj"]:
                        self.partial.add(p["l"])
                    self.events[bi].append((si, self._store_keys(p, None)))
            t = b["term"]
            ti = len(b["stmts"])
            if t["k"] == "call":
                p = t["dest"]
                if not p["proj"]:
                    self.defs[p["l"]].append((bi, ti, "call", t))
                elif p["proj"][0]["k"] != "deref":
                    self.partial.add(p["l"])
                keys = self._store_keys(p, None)
                keys |= self._call_kill_keys(t)
                keys.add(("site", bi))
                if keys:
                    self.events[bi].append((ti, keys))
            elif t["k"] == "yield":
                p = t["dest"]
                if not p["proj"]:
                    self.defs[p["l"]].append((bi, ti, "yield", t))
        self.multi = set(l for l, d in self.defs.items() if len(d) > 1) | self.partial

    def _store_keys(self, place, padt):
        keys = set()
        for rp in self.eff.resolve_place(self.fn, place, self.ref):
            chain = [(e["adt"], e["n"]) for e in rp["proj"] if e["k"] == "field" and e.get("adt")]
            if chain:
                keys.add(("f",) + chain[-1])
            else:
                keys.add(("l", rp["l"]))
        if padt:
            keys.add(("adt", padt))
        return keys

    def _call_kill_keys(self, t):
        keys = set()
        f = t["f"]
        eff = self.eff
        if "id" in f:
            for cid in eff._callee_ids(f):
                for k in eff.W(cid):
                    keys.add(("f",) + k)
                for adt in eff.WW(cid):
                    keys.add(("adt", adt))
        # mutable references passed by value (no fresh reborrow at the call)
        for a in t["args"]:
            if a["k"] in ("copy", "move") and not a["p"]["proj"]:
                for (tp, tm) in self.ref.get(a["p"]["l"], []):
                    if tm:
                        keys |= self._store_keys(tp, None)
        # &mut <workspace ADT> handed to foreign code may overwrite the whole value
        if "id" not in f or not eff._callee_ids(f):
            for ai, ty in enumerate(t.get("atys", [])):
                if ty.startswith("&mut "):
                    for adt in self.world.adts:
                        tail = adt.split("::", 1)[1]
                        if ty in ("&mut " + tail, "&mut " + adt):
                            keys.add(("adt", adt))
        return keys

    # ------------------------------------------------------------------ kill queries
    def _blocks_between(self, dbb, pbb):
        """Blocks that lie on some path dbb -> pbb which does not re-enter dbb (exclusive of both ends)."""
        k = (dbb, pbb)
        r = self._between.get(k)
        if r is None:
            cfg = self.cfg
            fwd = cfg.reach_strict(dbb, avoid=[dbb])
            # backward reach to pbb avoiding dbb
            back = set()
            st = [pbb]
            seen = set([pbb])
            while st:
                x = st.pop()
                for y in cfg.pred[x]:
                    if y not in seen and y != dbb:
                        seen.add(y)
                        st.append(y)
            back = seen
            r = (fwd & back) - {pbb}
            self._between[k] = r
        return r

    def killed_between(self, d, p, keys):
        """May a store that affects `keys` execute after point d and before point p?"""
        if not keys:
            return False
        dbb, di = d
        pbb, pi = p

        def hit(evkeys):
            for k in evkeys:
                if k in keys:
                    return True
                if k[0] == "adt":
                    for kk in keys:
                        if kk[0] == "f" and kk[1] == k[1]:
                            return True
            return False
        if dbb == pbb and di < pi:
            for (i, ek) in self.events[dbb]:
                if di < i < pi and hit(ek):
                    return True
            return False
        for (i, ek) in self.events[dbb]:
            if i > di and hit(ek):
                return True
        for (i, ek) in self.events[pbb]:
            if i < pi and hit(ek):
                return True
        for b in self._blocks_between(dbb, pbb):
            for (_i, ek) in self.events[b]:
                if hit(ek):
                    return True
        return False

    # ------------------------------------------------------------------ reaching definitions
    def reaching(self, l, point):
        """Definitions of local l that may reach `point` (list of def tuples); 'entry' stands for the parameter value."""
        ds = self.defs.get(l, [])
        is_param = 1 <= l <= self.fn.argc
        if len(ds) == 1 and not is_param and l not in self.partial:
            return ds
        if not ds:
            return ["entry"] if is_param else []
        bb, idx = point
        by_block = defaultdict(list)
        for d in ds:
            by_block[d[0]].append(d)
        out = []
        # last def in this block before idx
        cands = [d for d in by_block.get(bb, []) if d[1] < idx]
        if cands:
            return [max(cands, key=lambda d: d[1])]
        seen = set()
        st = list(self.cfg.pred[bb])
        reached_entry = (bb == 0)
        while st:
            x = st.pop()
            if x in seen:
                continue
            seen.add(x)
            if x in by_block:
                out.append(max(by_block[x], key=lambda d: d[1]))
                continue
            if x == 0:
                reached_entry = True
            st.extend(self.cfg.pred[x])
        if reached_entry and is_param:
            out.append("entry")
        # dedupe
        res = []
        for d in out:
            if d not in res:
                res.append(d)
        return res

    # ------------------------------------------------------------------ VAL
    def val_operand(self, o, point, depth=0):
        k = o["k"]
        if k == "const":
            if "fn" in o:
                return ("fn", o["fn"]["path"], o["fn"]["id"])
            v = const_value(o)
            if v is not None:
                return ("const", v, o["ty"])
            if "def" in o:
                if o.get("promoted") is not None and o["def"] == self.fn.id and o["promoted"] < len(getattr(self.fn, "promoted", [])) and depth < 20:
                    pv = self._promoted_value(o["promoted"])
                    if pv is not None:
                        return pv
                return ("constdef", o["def"], o.get("promoted"))
            return ("const", None, o["ty"])
        if k in ("copy", "move"):
            return self.val_place(o["p"], point, depth)
        return ("unknown", o.get("txt", k))

    def _promoted_value(self, idx):
        """Value of promoted constant #idx of this function (e.g. `&CcState::Drain` -> the Drain aggregate)."""
        from .facts import PromotedFn
        memo = self.__dict__.setdefault("_promoted_memo", {})
        if idx in memo:
            return memo[idx]
        memo[idx] = None
        try:
            pf = PromotedFn(self.fn, idx)
            if len(pf.blocks) > 4:
                return None
            fa = FnA(self.world, pf)
            rets = fa.cfg.returns
            if len(rets) != 1:
                return None
            v = fa.val_local(0, (rets[0], len(pf.blocks[rets[0]]["stmts"])))
            if any(x[0] in ("unknown", "var", "param") for x in walk(v)):
                return None
            memo[idx] = v
            return v
        except Exception:
            return None

    def val_place(self, p, point, depth=0):
        base = self.val_local(p["l"], point, depth)
        for e in p["proj"]:
            base = self._project(base, e, point, depth)
        return base

    def _project(self, base, e, point, depth):
        k = e["k"]
        if k == "deref":
            return base
        if k == "field":
            if base[0] == "agg":
                ops = base[3]
                i = e["i"]
                if base[1] in ("tuple", "adt") and i < len(ops):
                    return ops[i]
            if base[0] == "bin" and base[1] in OVF:
                if e["i"] == 0:
                    return ("bin", OVF[base[1]], base[2], base[3], base[4])
                return ("ovf", base)
            if self.is_closure and base == ("param", 1) and (e.get("adt") or "").startswith("closure:"):
                return ("upvar", e["i"])
            if base[0] == "as" and base[2] in ("Some", "Ok") and (e.get("adt") or "").endswith("ControlFlow"):
                return ("field", base, "core::option::Option" if base[2] == "Some" else "core::result::Result", e["n"])
            return ("field", base, e.get("adt"), e["n"])
        if k == "downcast":
            t = try_branch_subject(base)
            if t is not None and e["n"] == "Continue":
                # `x?`: the Continue payload of Try::branch(x) is the Some / Ok payload of x (see _project field below)
                return ("as", t[0], t[1])
            return ("as", base, e["n"])
        if k == "index":
            return ("index", base, self.val_local(e["l"], point, depth + 1))
        if k == "cindex":
            return ("index", base, ("const", -e["off"] if e["end"] else e["off"], "usize"))
        if k == "subslice":
            return ("subslice", base, e["from"], e["to"], e["end"])
        return ("proj", base, k)

    def val_local(self, l, point, depth=0):
        key = (l, point if (l in self.multi or 1 <= l <= self.fn.argc or l in self.addr_taken_mut) else None)
        if key[1] is None:
            # single-assignment temp: the value is point independent except for staleness of memory reads
            key = (l, point)
        r = self._memo.get(key)
        if r is not None:
            return r
        if depth > 24:
            return ("unknown", "deep:_%d" % l)
        self._memo[key] = ("unknown", "cycle:_%d" % l)
        r = self._val_local(l, point, depth)
        self._memo[key] = r
        return r

    def _val_local(self, l, point, depth):
        rd = self.reaching(l, point)
        if len(rd) == 1:
            d = rd[0]
            if d == "entry":
                if l in self.addr_taken_mut and self.killed_between((0, -1), point, {("l", l)}):
                    return ("var", l, ("entry",))
                return ("param", l)
            dpoint = (d[0], d[1])
            if d[2] == "assign":
                e = self.val_rvalue(d[3], dpoint, depth + 1)
            elif d[2] == "call":
                e = self._val_call(d[3], dpoint, depth + 1)
            else:
                e = ("resume", d[0])
            keys = self.mem_keys(e)
            if l in self.addr_taken_mut or l in self.partial:
                keys = set(keys)
                keys.add(("l", l))
            if keys and self.killed_between(dpoint, point, keys):
                return ("old", e, dpoint)
            return e
        if not rd:
            return ("unknown", "undef:_%d" % l)
        sites = tuple(sorted(((d if d == "entry" else (d[0], d[1])) for d in rd if d is not None), key=repr))
        return ("var", l, sites)

    def def_values(self, l, point, depth=0):
        """[(def point or 'entry', expr)] for every definition of l reaching point."""
        out = []
        for d in self.reaching(l, point):
            if d == "entry":
                out.append(("entry", ("param", l)))
            elif d[2] == "assign":
                out.append(((d[0], d[1]), self.val_rvalue(d[3], (d[0], d[1]), depth + 1)))
            elif d[2] == "call":
                out.append(((d[0], d[1]), self._val_call(d[3], (d[0], d[1]), depth + 1)))
            else:
                out.append(((d[0], d[1]), ("resume", d[0])))
        return out

    def _val_call(self, t, point, depth):
        f = t["f"]
        args = tuple(self.val_operand(a, point, depth) for a in t["args"])
        if "id" not in f:
            return ("call", "indirect", args, (point[0],), None)
        path = f["path"]
        site = None
        if self._call_has_effects(t):
            site = (point[0],)
        elif f["crate"] in self.world.local_crates:
            v = self._inline_value_helper(f["stable"], args)
            if v is not None:
                return v
        return ("call", path, args, site, f["stable"] if f["crate"] in self.world.local_crates else None)

    def _inline_value_helper(self, stable, args):
        """A call of a small, straight-line, effect-free workspace helper that no rule refers to by name reads as the expression
        it returns (so extracting a sub-expression into a private fn, or not, is the same value)."""
        from .pathcond import named_in_rules
        if stable.rsplit("::", 1)[-1] in named_in_rules() or stable == self.fn.stable or stable in _value_inline_stack or len(_value_inline_stack) >= 2:
            return None
        callee = self.world.fn(stable)
        if callee is None or callee.kind not in ("fn", "method") or callee.argc != len(args) or len(callee.blocks) > 16:
            return None
        if callee.locals[0]["ty"] in ("bool", "()"):
            return None  # predicates are expanded by the path analysis, with their control flow
        from .cfg import cfg_of
        cfg = cfg_of(callee)
        if len(cfg.returns) != 1:
            return None
        for bi in cfg.live:
            t = callee.blocks[bi]["term"]
            if callee.blocks[bi]["cleanup"]:
                continue
            if t["k"] in ("switch", "yield", "inlineasm"):
                return None
            if t["k"] == "call" and ("id" not in t["f"] or self._callee_effects(callee, t)):
                return None
        if self.eff.W(callee.id) or self.eff.WW(callee.id):
            return None
        _value_inline_stack.append(stable)
        try:
            cfa = fna_of(self.world, callee)
            r = cfg.returns[0]
            v = cfa.val_local(0, (r, len(callee.blocks[r]["stmts"])))
            v = strip_old(v)
            for x in walk(v):
                if x[0] in ("var", "unknown", "resume", "upvar", "localbool", "phi"):
                    return None
                if x[0] == "call" and x[3] is not None:
                    return None

            def mapping(x):
                if isinstance(x, tuple) and x and x[0] == "param":
                    return args[x[1] - 1] if 1 <= x[1] <= len(args) else ("unknown",)
                return None
            return subst(v, mapping)
        except Exception:
            return None
        finally:
            _value_inline_stack.pop()

    def _callee_effects(self, callee, t):
        try:
            return fna_of(self.world, callee)._call_has_effects(t)
        except Exception:
            return True

    def _call_has_effects(self, t):
        f = t["f"]
        eff = self.eff
        ids = eff._callee_ids(f)
        if ids:
            for cid in ids:
                if eff.W(cid):
                    return True
                for p in eff.ext_callees_reached(cid):
                    if any(m in p for m in NONDET_MARKERS):
                        return True
                # a local callee taking &mut of something and passing it to foreign code
            for ty in t.get("atys", []):
                if ty.startswith("&mut "):
                    return True
            return False
        for ty in t.get("atys", []):
            if ty.startswith("&mut "):
                return True
        path = f["path"]
        if any(m in path for m in NONDET_MARKERS):
            return True
        return False

    def val_rvalue(self, rv, point, depth=0):
        k = rv["k"]
        if k == "use":
            return self.val_operand(rv["o"], point, depth)
        if k in ("ref", "raw"):
            return self.val_place(rv["p"], point, depth)
        if k == "bin":
            a = self.val_operand(rv["a"], point, depth)
            b = self.val_operand(rv["b"], point, depth)
            return mk_bin(rv["op"], a, b, rv.get("oty"))
        if k == "un":
            a = self.val_operand(rv["a"], point, depth)
            if rv["op"] == "Not":
                return mk_not(a, rv.get("oty"))
            if rv["op"] == "PtrMetadata":
                return ("len", a)
            return ("un", rv["op"], a, rv.get("oty"))
        if k == "cast":
            a = self.val_operand(rv["a"], point, depth)
            ck = rv["ck"]
            if ck in ("PointerCoercion", "PtrToPtr", "Transmute") and not (is_int_ty(rv["ty"]) or is_float_ty(rv["ty"])):
                return a
            return ("cast", rv["ty"], a, rv.get("sty"))
        if k == "agg":
            ops = tuple(self.val_operand(o, point, depth) for o in rv["ops"])
            ak = rv["ak"]
            if ak == "adt":
                return ("agg", "adt", "%s::%s" % (rv["adt"], rv["vn"]), ops, tuple(rv.get("fields", [])))
            if ak in ("closure", "coroutine", "coroutine_closure"):
                return ("agg", ak, rv["def"], ops, ())
            return ("agg", ak, None, ops, ())
        if k == "discr":
            e = self.val_place(rv["p"], point, depth)
            if rv.get("variants"):
                vs = tuple((int(v), n) for v, n in rv["variants"])
                VARIANTS[e] = vs
                if len(vs) == 2:
                    first, second = sorted(vs)[0][1], sorted(vs)[1][1]
                    if first not in DUAL_OF:
                        DUAL_OF.setdefault(second, first)
            return ("discr", e)
        if k == "len":
            return ("len", self.val_place(rv["p"], point, depth))
        if k == "repeat":
            return ("repeat", self.val_operand(rv["a"], point, depth), rv["n"])
        return ("unknown", rv.get("txt", k)[:60])

    # ------------------------------------------------------------------ memory keys of an expression
    def mem_keys(self, e):
        out = set()
        _mem_keys(e, out)
        extra = set()
        for k in out:
            if k[0] == "callee":
                for f in self.world.by_stable.get(k[1], []):
                    for (adt, field) in self.eff.R(f.id):
                        extra.add(("f", adt, field))
        return out | extra


def try_branch_subject(e):
    """If e is `Try::branch(x)` of an Option / Result (what `x?` lowers to): (x, payload variant), else None."""
    if isinstance(e, tuple) and e and e[0] == "old":
        e = e[1]
    if isinstance(e, tuple) and e and e[0] == "call" and e[1].endswith("::branch") and len(e[2]) == 1:
        if "option::Option" in e[1]:
            return (e[2][0], "Some")
        if "result::Result" in e[1]:
            return (e[2][0], "Ok")
    return None


def _snapshot_rooted(e):
    """True when e is a by-value projection (fields / variant downcasts only, no deref) of the result of one particular call
    execution: a part of a value that was returned, not a read of memory, so no later store can change it."""
    while isinstance(e, tuple) and e:
        if e[0] in ("field", "as"):
            e = e[1]
            continue
        return e[0] == "call" and bool(e[3])
    return False


def _mem_keys(e, out):
    if not isinstance(e, tuple) or not e:
        return
    t = e[0]
    if t == "field":
        if e[2] and not str(e[2]).startswith("closure:") and e[2] != "tuple" and not _snapshot_rooted(e[1]):
            out.add(("f", e[2], e[3]))
        _mem_keys(e[1], out)
    elif t == "var":
        out.add(("l", e[1]))
    elif t in ("param", "upvar", "const", "constdef", "fn", "unknown", "resume"):
        return
    elif t == "old":
        return  # already pinned to its point
    elif t == "call":
        if e[3]:
            # the result of one particular execution of an effectful call: a snapshot, invalidated only by
            # executing that site again
            out.add(("site", e[3][0]))
            return
        for a in e[2]:
            _mem_keys(a, out)
        if e[4]:
            out.add(("callee", e[4]))
    else:
        for x in e[1:]:
            if isinstance(x, tuple):
                if x and isinstance(x[0], str):
                    _mem_keys(x, out)
                else:
                    for y in x:
                        _mem_keys(y, out)


def mk_not(a, ty=None):
    if a[0] == "not":
        return a[1]
    if a[0] == "const" and isinstance(a[1], bool):
        return ("const", not a[1], "bool")
    if ty is not None and ty != "bool":
        return ("un", "Not", a, ty)
    return ("not", a)


def mk_bin(op, a, b, ty=None):
    op = UNCHECKED.get(op, op)
    if op == "Gt":
        op, a, b = "Lt", b, a
    elif op == "Ge":
        op, a, b = "Le", b, a
    if op in COMMUTATIVE and repr(a) > repr(b):
        a, b = b, a
    return ("bin", op, a, b, ty)


def subst(e, f):
    """Rebuild e bottom-up, replacing every sub-expression x by f(x) when f returns non-None."""
    r = f(e)
    if r is not None:
        return r
    if not isinstance(e, tuple):
        return e
    t = e[0] if e else None
    if t in ("param", "upvar", "const", "constdef", "fn", "unknown", "resume", "var"):
        return e
    out = []
    for x in e:
        if isinstance(x, tuple) and x and isinstance(x[0], str) and x[0] in _TAGS:
            out.append(subst(x, f))
        elif isinstance(x, tuple) and x and isinstance(x[0], tuple):
            out.append(tuple(subst(y, f) if isinstance(y, tuple) else y for y in x))
        else:
            out.append(x)
    r = tuple(out)
    if r[0] == "bin":
        return mk_bin(r[1], r[2], r[3], r[4])
    if r[0] == "field" and r[1][0] == "agg":
        return r
    return r


_TAGS = {"elem", "upcap", "param", "upvar", "var", "const", "constdef", "fn", "field", "as", "index", "bin", "un", "cast", "call",
         "agg", "discr", "old", "resume", "unknown", "not", "len", "subslice", "proj", "ovf", "repeat", "sym"}


def walk(e):
    """Yield every sub-expression (pre-order)."""
    yield e
    if isinstance(e, tuple):
        for x in e[1:]:
            if isinstance(x, tuple) and x:
                if isinstance(x[0], str) and x[0] in _TAGS:
                    for y in walk(x):
                        yield y
                elif isinstance(x[0], tuple):
                    for z in x:
                        if isinstance(z, tuple):
                            for y in walk(z):
                                yield y


def short(path):
    """Readable short form of a callee path."""
    p = path
    for pre in ("std::", "core::", "alloc::"):
        pass
    # drop generic parameter lists
    out = []
    depth = 0
    for ch in p:
        if ch == "<":
            depth += 1
        elif ch == ">":
            depth -= 1
        elif depth == 0:
            out.append(ch)
    s = "".join(out).replace("::::", "::")
    parts = [x for x in s.split("::") if x]
    return "::".join(parts[-2:]) if len(parts) >= 2 else s


def show(e, names=None):
    """Human readable rendering of an expression."""
    if not isinstance(e, tuple):
        return repr(e)
    t = e[0]
    if t == "param":
        if names and e[1] in names:
            return names[e[1]]
        return "arg%d" % e[1]
    if t == "upvar":
        up = names.get("__upvars__") if names else None
        if up and e[1] in up:
            return up[e[1]]
        return "upvar%d" % e[1]
    if t == "sym":
        return e[1]
    if t == "var":
        nm = names.get(e[1]) if names else None
        return "%s@%s" % (nm or ("_%d" % e[1]), "|".join("e" if s == "entry" else "bb%d" % s[0] for s in e[2]))
    if t == "const":
        return repr(e[1]) if e[1] is not None else "const<%s>" % e[2]
    if t == "constdef":
        return e[1].split("::")[-1]
    if t == "fn":
        return "fn " + short(e[1])
    if t == "field":
        return "%s.%s" % (show(e[1], names), e[3])
    if t == "as":
        return "(%s as %s)" % (show(e[1], names), e[2])
    if t == "index":
        return "%s[%s]" % (show(e[1], names), show(e[2], names))
    if t == "bin":
        sym = {"Lt": "<", "Le": "<=", "Eq": "==", "Ne": "!=", "Add": "+", "Sub": "-", "Mul": "*", "Div": "/",
               "Rem": "%", "BitAnd": "&", "BitOr": "|", "BitXor": "^", "Shl": "<<", "Shr": ">>"}.get(e[1], e[1])
        return "(%s %s %s)" % (show(e[2], names), sym, show(e[3], names))
    if t == "not":
        return "!%s" % show(e[1], names)
    if t == "un":
        return "%s(%s)" % (e[1], show(e[2], names))
    if t == "cast":
        return "(%s as %s)" % (show(e[2], names), e[1])
    if t == "call":
        return "%s(%s)%s" % (short(e[1]), ", ".join(show(a, names) for a in e[2]), ("@bb%d" % e[3][0]) if e[3] else "")
    if t == "agg":
        if e[1] == "adt" and e[4] and len(e[4]) == len(e[3]):
            return "%s{%s}" % (e[2].split("::", 1)[-1].split("::")[-2] + "::" + e[2].split("::")[-1],
                               ", ".join("%s: %s" % (f, show(o, names)) for f, o in zip(e[4], e[3])))
        return "%s%s(%s)" % (e[1], (":" + e[2].split("::")[-1]) if e[2] else "", ", ".join(show(o, names) for o in e[3]))
    if t == "discr":
        return "discr(%s)" % show(e[1], names)
    if t == "len":
        return "len(%s)" % show(e[1], names)
    if t == "old":
        return "old[%s@bb%d]" % (show(e[1], names), e[2][0])
    if t == "resume":
        return "resume@bb%d" % e[1]
    if t == "unknown":
        return "?%s" % e[1]
    if t == "subslice":
        return "%s[%d..%s%d]" % (show(e[1], names), e[2], "-" if e[4] else "", e[3])
    return str(e)


_fna_cache = {}
_value_inline_stack = []


def fna_of(world, fn):
    k = (world.uid, fn.id)
    r = _fna_cache.get(k)
    if r is None:
        r = FnA(world, fn)
        _fna_cache[k] = r
    return r


def strip_old(e):
    """Forget the evaluation-point pins (`old[..]`) of an expression (for comparing two reads of the same thing)."""
    return subst(e, lambda x: strip_old(x[1]) if isinstance(x, tuple) and x and x[0] == "old" else None)
