"""Aggregates over a slice written as iterator chains: `xs.iter().filter(p).map(f).sum()` / `.count()` / `.max()`.

The loop form of the same aggregate (an accumulator with a literal definition before a whole-slice loop and one update inside it,
under a path condition) is recognised by the rules that need it; this module gives the chain form the same reading, so a rule can
say "the sum over exactly the connected links of the whole slice of max(bitrate, 0)" for either.

A fold is {"kind": sum|count|max|min, "slice": expr, "filters": [closure values], "term": expr over ELEM}.  Only chains whose
filters come before any map are read (a filter on mapped values would need the mapped expression in the predicate)."""
from .expr import strip_old, subst, walk
from .cfg import cfg_of

ELEM = ("elem",)
_KINDS = {"sum": "sum", "count": "count", "max": "max", "min": "min"}
_TRANSPARENT = ("Iterator::copied", "Iterator::cloned", "IntoIterator>::into_iter", "Iterator::by_ref")


def _is_call(e):
    return isinstance(e, tuple) and e and e[0] == "call"


def _strip_ref(e):
    """Closure parameters of filter are `&&T`, of map `&T`: field reads go through derefs that carry no information here."""
    return subst(e, lambda x: _strip_ref(x[1]) if isinstance(x, tuple) and x and x[0] == "deref" else None)


def chain_fold(ctx, v):
    v = strip_old(v)
    if not _is_call(v) or not v[2]:
        return None
    last = v[1].rsplit("::", 1)[-1]
    if last not in _KINDS or "Iterator" not in v[1] and "iter::" not in v[1]:
        return None
    stages = []
    cur = strip_old(v[2][0])
    base = None
    while _is_call(cur):
        p = cur[1]
        if p.endswith("Iterator::map") or p.endswith("Iterator::filter"):
            cl = strip_old(cur[2][1])
            if not (cl[0] == "agg" and cl[1] == "closure" and cl[2] in ctx.w.fns):
                return None
            stages.append(("map" if p.endswith("::map") else "filter", cl))
            cur = strip_old(cur[2][0])
        elif any(p.endswith(tn) for tn in _TRANSPARENT):
            cur = strip_old(cur[2][0])
        elif p.endswith("<impl [T]>::iter") or p.endswith("<impl [T]>::iter_mut"):
            base = strip_old(cur[2][0])
            break
        else:
            return None
    if base is None:
        return None
    stages.reverse()  # source order: innermost first
    term = ELEM
    filters = []
    for kind, cl in stages:
        if kind == "filter":
            if term != ELEM:
                return None
            filters.append(cl)
        else:
            cf = ctx.w.fns[cl[2]]
            cfg = cfg_of(cf)
            if len(cfg.returns) != 1 or any(cf.blocks[b]["term"]["k"] == "switch" for b in cfg.live if not cf.blocks[b]["cleanup"]):
                return None
            cfa = ctx.fa(cf)
            r = cfg.returns[0]
            rv = _strip_ref(strip_old(cfa.val_local(0, (r, len(cf.blocks[r]["stmts"])))))
            if any(x[0] in ("var", "unknown", "upvar") for x in walk(rv)):
                return None
            prev = term
            term = subst(rv, lambda x: prev if x == ("param", 2) else None)
    return {"kind": _KINDS[last], "slice": base, "filters": filters, "term": term if last != "count" else ("const", 1, "usize")}


def filters_equal_field(ctx, fold, adt, field):
    """The conjunction of the chain's filter predicates is exactly `elem.<field>` (a bool field of the element)."""
    if len(fold["filters"]) != 1:
        return False
    cl = fold["filters"][0]
    cf = ctx.w.fns[cl[2]]
    cpa = ctx.pa(cf)
    rt = cpa.ret_true()
    ats = cpa.atoms_of(rt)
    if len(ats) != 1:
        return False
    a = _strip_ref(strip_old(ats[0]))
    return a == ("field", ("param", 2), adt, field) and cpa.equivalent(rt, cpa.atom(ats[0]))
