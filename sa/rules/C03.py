"""C03 - no blackout: a usable uplink always gets the packet.

The statement is an implication between predicates on link state.  Each predicate is extracted from the
code (path conditions of the selector loops, return formulas of the two `any` closures, the value stored to
`stall_gated`) and the chain of implications is decided propositionally.
"""
from ..ctx import full_slice_element, is_iter_next, loop_of_element, CONN, is_call, is_field, sname
from ..expr import show, strip_old, walk
from ..linkpred import LINK, NOW, LinkSpace, closure_rt, find_link_and_now, mapping_for
from ..pathcond import PathA, calls_to, field_stores

from .. import roles

LEVEL = "other"

GATE = "srtla_core::selection::apply_stall_gate"
CLASSIC = "srtla_core::selection::classic::select_connection"
ENH = "srtla_core::selection::enhanced::select_connection"
PHASE = "srtla_core::connection::LinkPhase"


def _is_iter_atom(a):
    for x in walk(a):
        if is_iter_next(x):
            return True
    return False


def admitted(ctx, sp, fn_stable, rule):
    """(formula over LINK/NOW under which the selector loop scores the link, PathA, link expr, scoring bb)."""
    fn = ctx.fn(fn_stable, rule)
    if not fn:
        return None
    pa = ctx.pa(fn)
    sc = calls_to(fn, stable=CONN + "::get_score")
    if len(sc) != 1:
        ctx.chk.missing(rule, "%s: get_score site" % sname(fn_stable), "get_score sites %d" % len(sc))
        return None
    bb = sc[0][0]
    arg0 = pa.fa.val_operand(sc[0][1]["args"][0], (bb, len(fn.blocks[bb]["stmts"])))
    cfgf = ctx.cfg(fn)
    loop = cfgf.innermost_loop_of(bb)
    ln = find_link_and_now(pa, fn, within=loop[1] if loop else None)
    if ln is None:
        # the loop has no liveness test at all: alias the scored link, the clock stays unnamed
        link, now = arg0, ("param", 3 if fn.argc >= 4 else 2)
    else:
        link, now, _ = ln
    # the scored link is the tested link
    ctx.chk.ob(rule, "%s scores the link it tested" % sname(fn_stable), arg0 == link,
               "get_score(%s) vs is_timed_out(%s)" % (show(arg0, fn.names), show(link, fn.names)),
               key="%s:scored-link-is-tested-link:%s" % (rule, fn_stable))
    pc = pa.pc_block(bb)
    f = sp.import_formula(pa, pc, mapping_for(link, now))
    # drop the loop-iteration atoms (`next() is Some`)
    vis = frozenset(i for i in sp.bdd.support(f) if _is_iter_atom(sp.bdd.vars[i]))
    f = sp.bdd.exists(f, vis)
    return f, pa, link, now, bb


def d1_d3_gate_chain(ctx):
    sp = LinkSpace()
    b = sp.bdd
    gate = ctx.fn(GATE, "D2")
    if not gate:
        return
    cl = any_closures(ctx, gate)
    if len(cl) < 1:
        ctx.chk.missing("D1", "apply_stall_gate: the any_healthy closure", "%d closures" % len(cl))
        return
    gpa = ctx.pa(gate)
    # one carrier test (`any_healthy`) in the code as it stands; several (one per kind of hold) are read the same way: each has
    # its witness predicate H_i and its `any` atom, and the argument below is made for every one of them
    tests = []
    for c_ in cl:
        h_, ups = closure_rt(sp, ctx.w, c_, gate, ("param", 2))
        ae = any_call_value(ctx, gate, c_)
        if ae is None:
            ctx.chk.missing("D2", "apply_stall_gate: any(healthy closure) call", "")
            return
        tests.append((h_, ae, gpa.atom(ae)))
    healthy = b.FALSE
    for (h_, ae, af) in tests:
        healthy = b.OR(healthy, h_)
    ctx.chk.ob("D1", "HEALTHY extracted", all(h_ not in (b.TRUE, b.FALSE) for (h_, ae, af) in tests), "HEALTHY(LINK) = %s" % sp.show(healthy),
               key="D1:healthy-extracted")
    # --- D2: the value stored to stall_gated on the guard-on path entails any_healthy
    any_f = gpa.bdd.FALSE
    full = True
    for (h_, any_expr, af) in tests:
        any_f = gpa.bdd.OR(any_f, af)
        it = any_expr[2][0]
        full = full and it[0] == "call" and "slice" in it[1] and it[1].endswith("::iter") and it[2] == (("param", 1),)
    ctx.chk.ob("D2", "any_healthy ranges over every link", full, "iterated: %s" % show(it, gate.names),
               key="D2:any-healthy-full-slice")
    stores = field_stores(gate, CONN, "stall_gated")
    on_stores = []
    for (bb, si, s) in stores:
        val = gpa.fa.val_rvalue(s["rv"], (bb, si))
        if val == ("const", False, "bool"):
            continue
        on_stores.append((bb, si, s))
    ctx.chk.floor("D2", "non-constant stall_gated stores", len(on_stores), 1)
    gv_link = None
    for (bb, si, s) in on_stores:
        pc = gpa.pc_at(bb, si)
        o = s["rv"].get("o")
        if s["rv"]["k"] != "use" or o is None:
            ctx.chk.ob("D2", "stall_gated store has a reconstructible value", False, "rvalue kind %s" % s["rv"]["k"],
                       key="D2:gated-store-shape", loc=s.get("loc"))
            continue
        vf = gpa.value_formula(o, bb, si)
        ok = gpa.entails(b_and(gpa, pc, vf), any_f)
        ctx.chk.ob("D2", "stall_gated := v  =>  any_healthy", ok,
                   "v = %s" % gpa.show(gpa.bdd.simplify(vf, pc), 6) + ("" if ok else " ; gated possible with %s" % gpa.counterexample(b_and(gpa, pc, vf), any_f)),
                   key="D2:gated-implies-any-healthy:%s" % GATE, loc=s.get("loc"))
        # the same value with the element aliased to LINK, for D3
        link_expr = gpa.fa.val_place({"l": s["p"]["l"], "proj": s["p"]["proj"][:-1]}, (bb, si))
        rel = gpa.bdd.simplify(vf, pc)
        gv_link = sp.import_formula(gpa, rel, mapping_for(link_expr, ("param", 2)))
    # --- D3: the link that justifies gating is itself selectable and not gated
    if gv_link is not None:
        ok = True
        det = ""
        for (h_, ae, af) in tests:
            # LINK witnesses this carrier test (so the test is true); whatever the other tests say, LINK itself must not be gated
            g = gv_link
            mine = sp.import_formula(gpa, af, mapping_for(link_expr, ("param", 2)))
            for vi in sp.bdd.support(mine):
                g = sp.bdd.restrict(g, vi, True)
            if sp.sat(b.AND(h_, g)):
                ok = False
                det += "a witness of %s can be gated under %s ; " % (show(ae, gate.names)[:60], sp.counterexample(b.AND(h_, g), b.FALSE))
        ctx.chk.ob("D3", "a healthy link's own gate value is false", ok,
                   det + "gate value (LINK) = %s" % sp.show(gv_link, 6), key="D3:healthy-not-gated")
    for sel, nm in ((CLASSIC, "classic"), (ENH, "enhanced")):
        r = admitted(ctx, sp, sel, "D3")
        if r is None:
            continue
        adm = r[0]
        G = sp.field("stall_gated")
        gi = sp.bdd.support(G)
        adm_ng = adm
        for vi in gi:
            adm_ng = sp.bdd.restrict(adm_ng, vi, False)
        ctx.chk.ob("D1", "ADMIT_%s extracted" % nm, adm not in (b.TRUE, b.FALSE), "ADMIT_%s(LINK) = %s" % (nm, sp.show(adm, 6)),
                   key="D1:admit-extracted:%s" % nm)
        if nm == "classic":
            ok = sp.entails(healthy, adm_ng)
            ctx.chk.ob("D3", "HEALTHY => admitted by classic (its own flag is false)", ok,
                       "" if ok else "healthy but skipped with %s" % sp.counterexample(healthy, adm_ng),
                       key="D3:healthy-admitted:classic")
        else:
            enh = ctx.fn(ENH, "D4")
            ecl = any_closures(ctx, enh) if enh else []
            if len(ecl) != 1:
                ctx.chk.missing("D4", "enhanced: the any_unconstrained closure", "%d closures" % len(ecl))
                continue
            epa = r[1]
            unc, _ = closure_rt(sp, ctx.w, ecl[0], enh, r[3])
            ctx.chk.ob("D1", "UNCONSTR extracted", unc not in (b.TRUE, b.FALSE), "UNCONSTR(LINK) = %s" % sp.show(unc),
                       key="D1:unconstr-extracted")
            from ..expr import subst
            av = any_call_value(ctx, enh, ecl[0])
            if av is None:
                ctx.chk.missing("D4", "enhanced: any(unconstrained closure) call", "")
                continue
            av = subst(av, mapping_for(r[2], r[3]))
            ANY = sp.atom(av)
            it = av[2][0]
            full = it[0] == "call" and it[1].endswith("::iter") and it[2] == (("param", 1),)
            ctx.chk.ob("D4", "any_unconstrained ranges over every link", full, "iterated: %s" % show(it, enh.names),
                       key="D4:any-unconstrained-full-slice")
            # (a) without an unconstrained link nothing but eligibility can skip
            ok = sp.entails(b.AND(healthy, b.NOT(ANY)), adm_ng)
            ctx.chk.ob("D3", "HEALTHY & !any_unconstrained => admitted by enhanced", ok,
                       "" if ok else "skipped with %s" % sp.counterexample(b.AND(healthy, b.NOT(ANY)), adm_ng),
                       key="D3:healthy-admitted:enhanced")
            # (b) the cap skip needs any_unconstrained, and an unconstrained link is itself admitted
            X = sp.call("in_flight_cap_exceeded")
            elig = b.AND(b.AND(b.NOT(sp.timed_out()), sp.schedulable()), b.NOT(G))
            ok = sp.entails(b.AND(elig, b.NOT(ANY)), adm)
            ctx.chk.ob("D4", "cap skip only while an unconstrained link exists", ok,
                       "" if ok else "eligible link skipped with %s" % sp.counterexample(b.AND(elig, b.NOT(ANY)), adm),
                       key="D4:cap-skip-guarded")
            ok = sp.entails(unc, adm)
            ctx.chk.ob("D4", "UNCONSTR => admitted by enhanced", ok,
                       "" if ok else "unconstrained link skipped with %s" % sp.counterexample(unc, adm), key="D4:unconstrained-admitted")
            C = sp.field("connected")
            ok = sp.entails(unc, C)
            ctx.chk.ob("D4", "UNCONSTR => connected (a disconnected link scores below the initial best and cannot carry the packet)", ok,
                       "UNCONSTR = %s" % sp.show(unc), key="D4:unconstrained-implies-connected")
    C = sp.field("connected")
    ok = sp.entails(healthy, C)
    ctx.chk.ob("D3", "HEALTHY => connected (a disconnected link scores -1, not above the initial best -1: it justifies gating but can never be chosen)", ok,
               "HEALTHY = %s" % sp.show(healthy), key="D3:healthy-implies-connected")


def any_call_value(ctx, fn, closure):
    """The value expression of `iter.any(closure)` in fn."""
    fa = ctx.fa(fn)
    for (bb, t) in calls_to(fn, path_contains="Iterator>::any"):
        nst = len(fn.blocks[bb]["stmts"])
        v = fa.val_operand(t["args"][1], (bb, nst))
        if v and v[0] == "agg" and v[2] == closure.id:
            return fa._val_call(t, (bb, nst), 0)
    return None


def any_closures(ctx, fn):
    """Closures of fn that are passed to `Iterator::any`."""
    out = []
    for (bb, t) in calls_to(fn, path_contains="Iterator>::any"):
        ty = t.get("atys", ["", ""])[1] if len(t.get("atys", [])) > 1 else ""
        for c in ctx.closures(fn):
            fa = ctx.fa(fn)
            v = fa.val_operand(t["args"][1], (bb, len(fn.blocks[bb]["stmts"])))
            if v and v[0] == "agg" and v[2] == c.id and c not in out:
                out.append(c)
    return out


def d2b_flag_never_stale(ctx):
    """`stall_gated` is recomputed for every link on every pass: no path through apply_stall_gate returns without
    running a full-slice loop that stores the flag (a stale `true` would exclude a link with no healthy alternative)."""
    gate = ctx.fn(GATE, "D2")
    if not gate:
        return
    cfg = ctx.cfg(gate)
    fa = ctx.fa(gate)
    stores = field_stores(gate, CONN, "stall_gated")
    heads = set()
    for (bb, si, s) in stores:
        loop = cfg.innermost_loop_of(bb)
        if loop is None:
            ctx.chk.ob("D2", "stall_gated stores are inside loops over the links", False, "store outside a loop", key="D2:flag-store-in-loop", loc=s.get("loc"))
            continue
        head, body = loop
        # every iteration stores: the store block dominates the back-edge sources of its loop
        backs = [t for (t, h) in cfg.back_edges() if h == head]
        ctx.chk.ob("D2", "every iteration of the loop stores the flag", all(cfg.dominates(bb, t) for t in backs), "", key="D2:flag-store-each-iteration", loc=s.get("loc"))
        # the loop ranges over the whole slice
        link = fa.val_place({"l": s["p"]["l"], "proj": s["p"]["proj"][:-1]}, (bb, si))
        ctx.chk.ob("D2", "the flag loop ranges over every link (plain iteration, no filtering adaptor)", full_slice_element(link, ("param", 1)) is not None,
                   show(link, gate.names)[:160], key="D2:flag-loop-full-slice", loc=s.get("loc"))
        heads.add(head)
    ctx.chk.floor("D2", "loops that recompute stall_gated", len(heads), 2)
    leak = cfg.returns_reachable_avoiding(heads)
    ctx.chk.ob("D2", "every path through apply_stall_gate recomputes stall_gated for all links (the flag can never go stale)", not leak,
               "" if not leak else "return bb%d is reachable without passing any flag loop (heads %s)" % (leak[0], sorted(heads)), key="D2:flag-recomputed-on-every-path")
    # and nobody else writes it except the link reset
    ctx.WHO_WRITES("D2", CONN, "stall_gated", {GATE, CONN + "::reset_core_state"}, floor=2, allow_agg_in={CONN + "::new_registering"})
    # the scheduler always runs the gate first
    sel = ctx.fn("srtla_core::selection::select_connection_idx", "D2")
    if sel:
        cfgs = ctx.cfg(sel)
        g = calls_to(sel, stable=GATE)
        ok = len(g) == 1 and all(cfgs.dominates(g[0][0], bb) for (bb, t) in calls_to(sel, stable=CLASSIC) + calls_to(sel, stable=ENH))
        ctx.chk.ob("D2", "the gate runs before either selector on every call", ok, "", key="D2:gate-before-selectors")
    ctx.WHO_CALLS("D2", CLASSIC, {"srtla_core::selection::select_connection_idx"}, floor=1)
    ctx.WHO_CALLS("D2", ENH, {"srtla_core::selection::select_connection_idx"}, floor=1)


def b_and(pa, x, y):
    return pa.bdd.AND(x, y)


def d4_gate_multiplier(ctx):
    enh = ctx.fn(ENH, "D4")
    if not enh:
        return
    pa = ctx.pa(enh)
    pen = ctx.const("srtla_core::selection::enhanced::GATED_LINK_PENALTY", "D4")
    if pen is not None:
        ctx.chk.ob("D4", "GATED_LINK_PENALTY is a positive factor (a gate never zeroes a score)", 0.0 < pen <= 1.0, "= %r" % pen,
                   key="D4:const:GATED_LINK_PENALTY")
    # the literal factors of the score product (the gate factor): all positive, never zero
    from . import C11
    rows, why = C11.score_rows(ctx)
    if rows is None:
        ctx.chk.missing("D4", "enhanced: the score product", why)
        return
    lits = sorted(set(v for (_c, _k, consts) in rows for v in consts))
    ok = bool(rows) and all(isinstance(v, float) and v > 0.0 for v in lits)
    ctx.chk.ob("D4", "gate multiplier takes positive constant values only", ok, "literal factors of the score: %s" % lits,
               key="D4:gate-mult-positive")
    # the weak / loss gates never `continue`: no skip edge depends on weak / loss_degraded
    sc = calls_to(enh, stable=CONN + "::get_score")
    if sc:
        pc = pa.pc_block(sc[0][0])
        bad = [a for a in pa.atoms_of(pc) if any(is_field(x, "weak", CONN) or is_field(x, "loss_degraded", CONN) for x in walk(a))]
        ctx.chk.ob("D4", "weak / loss_degraded never exclude a link from scoring", not bad,
                   "atoms in the admission predicate: %s" % [show(a, enh.names) for a in bad], key="D4:quality-gate-never-skips")


def d5_initial_best(ctx):
    for st, init in ((CLASSIC, -1), (ENH, -1.0)):
        fn = ctx.fn(st, "D5")
        if not fn:
            continue
        pa = ctx.pa(fn)
        b0 = roles.running_extreme(ctx.w, fn, None, hint="best_score")
        bl = [b0] if b0 is not None else []
        if len(bl) != 1:
            ctx.chk.missing("D5", "%s: the running best score (literal %r before the loop, updated inside it)" % (sname(st), init), "%d locals" % len(bl))
            continue
        cfg = ctx.cfg(fn)
        defs = [d for d in pa.fa.defs.get(bl[0], []) if not cfg.in_cycle(d[0])]
        first = defs[0] if len(defs) == 1 else None
        v = pa.fa.val_rvalue(first[3], (first[0], first[1])) if first and first[2] == "assign" else None
        ok = v is not None and v[0] == "const" and v[1] == init
        ctx.chk.ob("D5", "%s: initial best score is %r" % (sname(st), init), ok, "initial value %s" % (show(v) if v else None),
                   key="D5:initial-best:%s" % st)
        # the update is a strict comparison score > best_score guarding `best_idx = Some(i)`
        cmp_atoms = pa.find(lambda a: a[0] == "bin" and a[1] == "Lt" and a[2][0] == "var" and a[2][1] == bl[0])
        ctx.chk.ob("D5", "%s: best updated under score > best_score" % sname(st), len(cmp_atoms) >= 1,
                   "%d strict comparisons against best_score" % len(cmp_atoms), key="D5:strict-compare:%s" % st)
    # get_score returns -1 only when disconnected
    gs = ctx.fn(CONN + "::get_score", "D5")
    if gs:
        pa = ctx.pa(gs)
        neg = []
        for bi, blk in enumerate(gs.blocks):
            for si, s in enumerate(blk["stmts"]):
                if s["k"] == "assign" and s["p"]["l"] == 0 and not s["p"]["proj"]:
                    v = pa.fa.val_rvalue(s["rv"], (bi, si))
                    pc = pa.pc_at(bi, si)
                    neg.append((v, pc, s.get("loc")))
        C = pa.find(lambda a: is_field(a, "connected", CONN))
        if len(C) != 1 or len(neg) != 2:
            ctx.chk.missing("D5", "get_score: two result stores and the connected test", "%d stores, %d connected atoms" % (len(neg), len(C)))
        else:
            cf = C[0][1]
            for (v, pc, loc) in neg:
                if v[0] == "const":
                    ctx.chk.ob("D5", "get_score: constant result only when disconnected", v[1] == -1 and pa.entails(pc, pa.bdd.NOT(cf)),
                               "value %s under %s" % (show(v), pa.show(pc)), key="D5:get-score-const-arm", loc=loc)
                else:
                    isdiv = v[0] == "bin" and v[1] == "Div" and is_field(v[2], "window", CONN)
                    ctx.chk.ob("D5", "get_score: connected result is window / denom", isdiv and pa.entails(pc, cf),
                               "value %s under %s" % (show(v, gs.names), pa.show(pc)), key="D5:get-score-div-arm", loc=loc)


def d6_phase_tables(ctx):
    f = ctx.fn(PHASE + "::is_schedulable", "D6")
    if f:
        pa = ctx.pa(f)
        rt = pa.ret_true()
        reg = pa.is_atom(("is", ("param", 1), "Registering"))
        ok = pa.equivalent(rt, pa.bdd.NOT(reg))
        ctx.chk.ob("D6", "is_schedulable is false for Registering only", ok, "RT = %s" % pa.show(rt), key="D6:is-schedulable-table")
    w = ctx.fn(PHASE + "::weight", "D6")
    if w:
        pa = ctx.pa(w)
        table = {}
        for bi, blk in enumerate(w.blocks):
            for si, s in enumerate(blk["stmts"]):
                if s["k"] == "assign" and s["p"]["l"] == 0 and not s["p"]["proj"]:
                    v = pa.fa.val_rvalue(s["rv"], (bi, si))
                    pc = pa.pc_at(bi, si)
                    for var in ("Registering", "Warming", "Live", "Degraded"):
                        a = pa.is_atom(("is", ("param", 1), var))
                        if pa.sat(pa.bdd.AND(pc, a)):
                            table.setdefault(var, set()).add(v[1] if v[0] == "const" else None)
        want = {"Registering": {0.0}, "Warming": {0.8}, "Live": {1.0}, "Degraded": {1.0}}
        ctx.chk.ob("D6", "phase weight table {Registering 0, Warming 0.8, Live 1, Degraded 1}", table == want,
                   "extracted %s" % {k: sorted(v, key=repr) for k, v in sorted(table.items())}, key="D6:weight-table")
        pos = all(all(isinstance(x, float) and x > 0.0 for x in v) for k, v in table.items() if k != "Registering")
        ctx.chk.ob("D6", "every schedulable phase has a positive weight", pos and len(table) == 4, "", key="D6:weight-positive")


def d7_hysteresis(ctx):
    enh = ctx.fn(ENH, "D7")
    if not enh:
        return
    pa = ctx.pa(enh)
    sp = LinkSpace()
    c0 = roles.option_latch(ctx.w, enh, "f64", hint="current_score")
    cl = [c0] if c0 is not None else []
    if len(cl) != 1:
        ctx.chk.missing("D7", "enhanced: the per-pass record of the previous link's score (Option<f64>: None before the loop, Some inside)", "")
        return
    cur = cl[0]
    # returns of Some(last): assignments `_0 = Some(x)` where x is not best_idx
    n_ret = 0
    for bi, blk in enumerate(enh.blocks):
        if blk["cleanup"]:
            continue
        for si, s in enumerate(blk["stmts"]):
            if s["k"] == "assign" and s["p"]["l"] == 0 and not s["p"]["proj"] and s["rv"]["k"] == "agg":
                n_ret += 1
                pc = pa.pc_at(bi, si)
                some = [f for (a, f) in pa.find(lambda a: a[0] == "is" and a[1][0] == "var" and a[1][1] == cur)]
                need = None
                for (a, f) in pa.find(lambda a: a[0] == "is" and a[1][0] == "var" and a[1][1] == cur):
                    need = f if a[2] == "Some" else pa.bdd.NOT(f)
                ok = need is not None and pa.entails(pc, need)
                ctx.chk.ob("D7", "hysteresis returns the previous link only if it was scored in this pass", ok,
                           "PC = %s" % pa.show(pc, 4), key="D7:hysteresis-needs-current-score", loc=s.get("loc"))
    ctx.chk.floor("D7", "explicit Some(..) returns in enhanced", n_ret, 1)
    # current_score is stored only for an admitted link, and only for index == last_idx
    adm = None
    sc = calls_to(enh, stable=CONN + "::get_score")
    if sc:
        adm = pa.pc_block(sc[0][0])
    n = 0
    for d in pa.fa.defs.get(cur, []):
        if d[2] != "assign":
            continue
        v = pa.fa.val_rvalue(d[3], (d[0], d[1]))
        if v[0] == "agg" and v[2].endswith("::None"):
            continue
        n += 1
        pc = pa.pc_at(d[0], d[1])
        ok = adm is not None and pa.entails(pc, adm)
        ctx.chk.ob("D7", "current_score is recorded only after the skips", ok, "PC = %s" % pa.show(pc, 3),
                   key="D7:current-score-after-skips")
    ctx.chk.floor("D7", "current_score := Some(..) stores", n, 1)


def d2c_gate_judges_liveness_with_current_timeout(ctx):
    """`usable` is judged with the configured timeout: inside select_connection_idx the per-link copy that is_timed_out compares
    against is refreshed - for every link, from the snapshot - before anything in the pass reads it (the gate's any-healthy test,
    the latch updates, both selectors)."""
    gate = ctx.fn(GATE, "D2")
    to = ctx.fn(CONN + "::is_timed_out", "D2")
    if not gate or not to:
        return
    eff = ctx.eff
    key = (CONN, "conn_timeout_ms")
    if key not in eff.R(to.id):
        ctx.chk.ob("D2", "the liveness test reads the snapshot directly", True, "", key="D2:timeout-read-from-config", nontrivial=False)
        return
    fa = ctx.fa(gate)
    cfg = ctx.cfg(gate)
    # the refresh: a store conn_timeout_ms := config.conn_timeout_ms on the element of a whole-slice loop without early exit
    refresh = None
    for (bb, si, s) in field_stores(gate, CONN, "conn_timeout_ms"):
        v = strip_old(fa.val_rvalue(s["rv"], (bb, si)))
        dst = fa.val_place(s["p"], (bb, si))
        link = dst[1] if dst[0] == "field" else None
        from_cfg = is_field(v, "conn_timeout_ms") and "ConfigSnapshot" in str(v[2]) and v[1] == ("param", 3)
        if from_cfg and link is not None and full_slice_element(link, ("param", 1)) is not None:
            lp = loop_of_element(gate, fa, link)
            if lp is not None and not lp["exits"]:
                pa2 = PathA(ctx.w, gate, entry=lp["some"])
                if pa2.pc_at(bb, si) == pa2.bdd.TRUE:
                    refresh = lp
    ctx.chk.ob("D2", "apply_stall_gate refreshes every link's timeout copy from the snapshot (whole slice, unconditionally)", refresh is not None, "", key="D2:timeout-refresh-loop")
    if refresh is None:
        return
    done = refresh["none"]   # the loop has finished
    readers = []
    for (bb, t) in gate.calls():
        f = t["f"]
        ids = eff._callee_ids(f) if "id" in f else []
        reads = any(key in eff.R(i) for i in ids)
        # closures handed to std (the `any` predicate) are constructed in this body: their reads count at the call that takes them
        n = len(gate.blocks[bb]["stmts"])
        for a in t["args"]:
            v = fa.val_operand(a, (bb, n))
            for x in walk(v):
                if x[0] == "agg" and x[1] == "closure" and x[2] in ctx.w.fns and key in eff.R(x[2]):
                    reads = True
        if reads:
            readers.append((bb, t))
    bad = [(bb, t) for (bb, t) in readers if not cfg.dominates(done, bb)]
    ctx.chk.floor("D2", "reads of the per-link timeout inside apply_stall_gate", len(readers), 1)
    ctx.chk.ob("D2", "every liveness judgement inside apply_stall_gate (the any-healthy test included) comes after the refresh of all links", not bad,
               "read before the refresh completed: %s" % [(t["f"].get("path", "?").rsplit("::", 1)[-1], t.get("loc")) for (bb, t) in bad][:3], key="D2:timeout-refresh-before-liveness-tests")
    # and the gate runs before either selector
    sel = ctx.fn("srtla_core::selection::select_connection_idx", "D2")
    if sel:
        scfg = ctx.cfg(sel)
        g = calls_to(sel, stable=GATE)
        others = [(bb, t) for (bb, t) in sel.calls() if t["f"].get("stable") in (CLASSIC, ENH)]
        ok = len(g) == 1 and len(others) == 2 and all(scfg.dominates(g[0][0], bb) for (bb, t) in others)
        ctx.chk.ob("D2", "both selectors run after the gate (and therefore after the refresh)", ok, "", key="D2:gate-before-selectors")


RULES = [d1_d3_gate_chain, d2b_flag_never_stale, d2c_gate_judges_liveness_with_current_timeout, d4_gate_multiplier, d5_initial_best, d6_phase_tables, d7_hysteresis]


def run(ctx):
    ctx.chk.not_decided = [
        "reachability of particular (phase, connected, last_received) combinations: the implication is proved for all "
        "combinations the predicates admit, which is stronger",
        "numeric positivity of the enhanced score factors is C11.D5's obligation (quality and soft-cap ranges)",
    ]
    ctx.chk.assumptions = ["atoms are treated as independent propositions (sound for passes)"]
    ctx.run_rules(RULES)
