"""C20 - telemetry subscriptions never block the data plane and stay ordered.

D1 publish waits on no subscriber: the only future publish awaits is the hub's own `tokio::sync::Mutex::lock`; the compiler's coroutine
   witnesses (the types that live across an await) of the five hub bodies contain no MutexGuard and no channel-send future, i.e. nobody
   awaits while holding the hub lock, so the lock is always released in bounded steps; no blocking / awaiting channel operation, sleep or
   nested runtime entry is reachable from publish - the only channel call is try_send; the `entries` field is private to those bodies;
   publish cannot panic (which would kill the once-per-second pass that calls it);
D2 topic, once, tagged: the try_send site sits in one loop over the whole entry list, reached for an entry exactly when its topic equals the
   published topic (and the envelope serialised); the receiver is that entry's own sender; the envelope's subscription_id is that entry's id,
   its method "<topic>.update", its data the published value;
D3 ordering / nothing after unsubscribe: the entry list is a `tokio::sync::Mutex<Vec<Entry>>`; the try_send site, the push in subscribe and
   the retain in unsubscribe are each dominated by an acquisition of that mutex whose guard is still alive there; unsubscribe removes every
   entry with that id before it returns;
D4 unique ids: the id is format!("sub-{}", next_id.fetch_add(1)) - one atomic read-modify-write, constant 1; nobody else touches next_id; the
   stored entry carries that id and the caller gets the same string;
D5 prune: only the Closed arm of try_send records the entry's id for pruning; a non-empty prune list always reaches a retain that drops exactly
   the entries whose id is listed (identified by id, not by position: the list outlives the lock); the Full arm records nothing; a control
   connection unsubscribes every id it owns on every way out of its loop, and records / forgets ids next to subscribe / unsubscribe.
"""
from ..ctx import every_iteration_reaches, full_slice_element, is_call, is_field, loop_of_element, result_arms, sname
from ..expr import show, strip_old, walk
from ..pathcond import PathA, calls_to
from ..tables import json_inserts
from . import panicfree

LEVEL = "other"
HUB = "srtla_send::subscriptions::SubscriptionHub"
ENT = "srtla_send::subscriptions::Entry"
PUB = HUB + "::publish::{closure#0}"
SUB = HUB + "::subscribe::{closure#0}"
UNS = HUB + "::unsubscribe::{closure#0}"
BODIES = [PUB, SUB, UNS, HUB + "::len::{closure#0}", HUB + "::is_empty::{closure#0}"]
LOCK = "tokio::sync::Mutex::<T>::lock"
BLOCKING = ("mpsc::Sender::<T>::send", "mpsc::Sender::<T>::reserve", "mpsc::Sender::<T>::send_timeout", "mpsc::Sender::<T>::closed", "blocking_send", "blocking_recv",
            "mpsc::Sender::<T>::reserve_owned", "mpsc::Sender::<T>::reserve_many", "std::sync::Mutex::<T>::lock", "std::sync::RwLock", "thread::sleep", "time::sleep", "block_on", "block_in_place",
            "Condvar", "Barrier", "oneshot::Receiver", "Notify::notified", "Semaphore::acquire", "JoinHandle", "tokio::sync::Mutex::<T>::blocking_lock", "yield_now",
            "mpsc::UnboundedSender", "broadcast::", "watch::")


def awaited(ctx, f):
    """Paths of the callees whose futures a coroutine body awaits (every `.await` lowers to IntoFuture::into_future(<future>))."""
    fa = ctx.fa(f)
    out = []
    for (bb, t) in f.calls():
        if t["f"].get("path", "").endswith("IntoFuture>::into_future"):
            v = strip_old(fa.val_operand(t["args"][0], (bb, len(f.blocks[bb]["stmts"]))))
            out.append((v[1] if v[0] == "call" else "<%s>" % v[0], v, t.get("loc")))
    return out


def _lock_sites(ctx, f):
    """[(bb of Mutex::lock call, bb where the guard becomes available (poll Ready arm), guard expr)]"""
    fa = ctx.fa(f)
    out = []
    for (bb, t) in f.calls():
        if t["f"].get("path", "") == LOCK:
            a = strip_old(fa.val_operand(t["args"][0], (bb, len(f.blocks[bb]["stmts"]))))
            ok = any(is_field(x, "entries", HUB) for x in walk(a))
            out.append((bb, t, ok))
    return out


def d1_publish_never_waits(ctx):
    f = ctx.fn(PUB, "D1")
    if f:
        aw = awaited(ctx, f)
        bad = [p for (p, v, loc) in aw if p != LOCK]
        ctx.chk.ob("D1", "the only future publish awaits is the hub's own tokio Mutex::lock", not bad and len(aw) >= 1, "awaits: %s" % sorted(set(p for (p, v, l) in aw)), key="D1:publish-awaits")
        for (p, v, loc) in aw:
            if p == LOCK:
                ok = any(is_field(x, "entries", HUB) for x in walk(v))
                ctx.chk.ob("D1", "the awaited lock is self.entries", ok, show(v, f.names)[:100], key="D1:awaited-lock-is-entries", loc=loc)
        ctx.REACHES_NOT("D1", f, lambda p: any(b in p for b in BLOCKING), "a blocking or awaiting channel / lock / sleep operation")
        ts = [(bb, t) for (bb, t) in f.calls() if "mpsc::" in t["f"].get("path", "")]
        ok = len(ts) >= 1 and all(t["f"]["path"].endswith("Sender::<T>::try_send") for (bb, t) in ts)
        ctx.chk.ob("D1", "the only channel operation in publish is try_send", ok, "%s" % sorted(set(t["f"]["path"] for (bb, t) in ts)), key="D1:only-try-send")
        panicfree.panic_free(ctx, "D1", [PUB], what=" (publish)")
    # witnesses of all five bodies
    n = 0
    for st in BODIES:
        g = ctx.fn(st, "D1")
        if not g:
            continue
        ws = g.witnesses
        if ws is None:
            ctx.chk.missing("D1", "%s: coroutine witnesses" % sname(st), "the driver recorded none")
            continue
        n += 1
        bad = []
        for w in ws:
            ty = w["ty"]
            if ty.startswith("impl std::future::Future<Output = "):
                inner = ty[len("impl std::future::Future<Output = "):-1]
                if not inner.startswith("tokio::sync::MutexGuard<'_, std::vec::Vec<subscriptions::Entry>>") and not inner.startswith("tokio::sync::MutexGuard<"):
                    bad.append(ty)
            elif "MutexGuard" in ty or "Permit" in ty or "Acquire" in ty or "mpsc::bounded::Sender<T>::send" in ty:
                bad.append(ty)
        ctx.chk.ob("D1", "%s holds no lock guard (and no channel-send future) across an await" % sname(st), not bad, "live across awaits: %s" % [w["ty"][:60] for w in ws], key="D1:held-across:%s" % st)
        aw = awaited(ctx, g)
        bad = [p for (p, v, loc) in aw if p != LOCK]
        ctx.chk.ob("D1", "%s awaits nothing but the hub lock" % sname(st), not bad, "awaits: %s" % sorted(set(p for (p, v, l) in aw)), key="D1:awaits:%s" % st)
    ctx.chk.floor("D1", "hub bodies with recorded witnesses", n, 5)
    # the lock is only ever taken by those bodies
    readers = sorted(set(a.fn.stable for a in ctx.eff.reads.get((HUB, "entries"), []) if "::tests" not in a.fn.stable))
    allowed = set(BODIES) | {"<" + HUB + " as core::clone::Clone>::clone", "<" + HUB + " as core::default::Default>::default"}
    ctx.chk.ob("D1", "the entry list is reached only from the five hub bodies", set(readers) <= allowed and len(readers) >= 5, "%s" % [sname(r) for r in readers], key="D1:entries-private")
    # the caller in the data plane awaits publish from the housekeeping arm (that is what must not stall)
    hub_pub = ctx.w.fn(HUB + "::publish")
    if hub_pub is not None:
        callers = sorted(set(c.stable for (c, bb, t) in ctx.eff.callers_of(hub_pub.id) if "::tests" not in c.stable))
        ctx.chk.ob("D1", "publish is called from the sender's event loop (the pass it must not stall)", any(c.startswith("srtla_send::sender::run_sender_with_config") for c in callers), "%s" % [sname(c) for c in callers],
                   key="D1:publish-caller")


def _try_send(ctx, f):
    ts = [(bb, t) for (bb, t) in f.calls() if t["f"].get("path", "").endswith("Sender::<T>::try_send")]
    return ts


def d2_topic_once_tagged(ctx):
    f = ctx.fn(PUB, "D2")
    if not f:
        return
    fa = ctx.fa(f)
    cfg = ctx.cfg(f)
    ts = _try_send(ctx, f)
    if len(ts) != 1:
        ctx.chk.missing("D2", "publish: the try_send site", "%d" % len(ts))
        return
    bb, t = ts[0]
    n = len(f.blocks[bb]["stmts"])
    snd = strip_old(fa.val_operand(t["args"][0], (bb, n)))
    ok = is_field(snd, "sender", ENT)
    entry = snd[1] if ok else None
    ok = ok and full_slice_element(entry) is not None
    src = full_slice_element(entry) if ok else None
    # the slice is the guard's Vec: deref(deref(lock result))
    ok = ok and src is not None and any(is_call(x, name_contains="lock::{closure#0}") or is_call(x, name_contains=LOCK) for x in walk(src))
    ctx.chk.ob("D2", "events are handed to the sender of the element of a loop over the whole locked entry list", ok, show(snd, f.names)[:160], key="D2:loop-over-all-entries", loc=t.get("loc"))
    if not ok:
        return
    lp = loop_of_element(f, fa, entry)
    if lp is None:
        ctx.chk.missing("D2", "publish: the entries loop", "")
        return
    inner = cfg.innermost_loop_of(bb)
    ctx.chk.ob("D2", "one try_send per entry per publish (the site is in the entries loop itself, not in a nested loop)", inner is not None and inner[0] == lp["head"], "", key="D2:once-per-entry")
    ctx.chk.ob("D2", "the entries loop has no early exit (a failing subscriber does not hide later ones)", not lp["exits"], "exits %s" % lp["exits"][:3], key="D2:all-entries-visited")
    pa = PathA(ctx.w, f, entry=lp["some"])
    b = pa.bdd
    pc = pa.pc_block(bb)
    ne = pa.find(lambda a: is_call(a, name_contains="PartialEq") and any(strip_old(x) == ("field", entry, ENT, "topic") for x in a[2]) and any(strip_old(x) == ("upvar", _up(f, "topic")) for x in a[2]))
    ser = pa.find(lambda a: a[0] == "is" and is_call(strip_old(a[1]), name_contains="serde_json::to_string"))
    ok = len(ne) == 1
    if ok:
        same = b.NOT(ne[0][1]) if ne[0][0][1].endswith("::ne") else ne[0][1]
        others = [a for a in pa.atoms_of(pc) if a != ne[0][0] and not (a[0] == "is" and is_call(strip_old(a[1]), name_contains="serde_json::to_string"))]
        ok = pa.entails(pc, same) and not others
        if ser:
            ok = ok and pa.entails(b.AND(same, pa.is_atom(("is", ser[0][0][1], "Ok"))), pc)
    ctx.chk.ob("D2", "an entry is sent the event exactly when its topic equals the published topic (and the envelope serialised)", ok, "per entry: %s" % pa.show(pc)[:200], key="D2:topic-filter")
    # envelope
    ins = json_inserts(f, fa)
    byk = {}
    for (ib, ml, k, v, loc) in ins:
        byk.setdefault(k, []).append((ib, ml, v))
    def one(k):
        return byk.get(k, [None])[0] if len(byk.get(k, [])) == 1 else None
    sid = one("subscription_id")
    ok = sid is not None and any(strip_old(x) == ("field", entry, ENT, "id") for x in walk(sid[2])) and not any(is_field(x, "id", ENT) and strip_old(x)[1] != entry for x in walk(sid[2]))
    ctx.chk.ob("D2", "the envelope's subscription_id is this entry's own id", ok, show(sid[2], f.names)[:120] if sid else "no such key", key="D2:tagged-with-own-id")
    dat = one("data")
    ok = dat is not None and any(x == ("upvar", _up(f, "data")) for x in walk(dat[2]))
    ctx.chk.ob("D2", "the envelope's data is the published value", ok, "", key="D2:data-is-published-value")
    met = one("method")
    ok = met is not None and any(x[0] == "const" and isinstance(x[1], (bytes, bytearray)) and bytes(x[1]).endswith(b".update\x00") for x in walk(met[2])) and any(x == ("upvar", _up(f, "topic")) for x in walk(met[2]))
    ctx.chk.ob("D2", "the notification method is \"<topic>.update\"", ok, "", key="D2:method-name")
    # nesting: subscription_id and data live in the params object, params / method / jsonrpc in the envelope that is serialised
    par = one("params")
    ok = par is not None and sid is not None and dat is not None and sid[1] == dat[1] and par[1] != sid[1] and met is not None and met[1] == par[1]
    line = strip_old(fa.val_operand(t["args"][1], (bb, n)))
    ok = ok and any(is_call(x, name_contains="serde_json::to_string") for x in walk(line))
    ctx.chk.ob("D2", "the line sent is the serialised envelope {jsonrpc, method, params{subscription_id, data}}", ok, "", key="D2:envelope-shape")


def _up(f, name):
    from ..roles import upvar_index
    return upvar_index(f, name)


def _guard_alive(ctx, f, site_bb):
    """The site works on the Vec reached through a MutexGuard local G that (a) was produced by awaiting `self.entries.lock()` and
    (b) cannot have been dropped between that point and the site."""
    cfg = ctx.cfg(f)
    fa = ctx.fa(f)
    derefs = [(bb, t) for (bb, t) in f.calls() if t["f"].get("path", "").startswith("<tokio::sync::MutexGuard<") and cfg.dominates(bb, site_bb)]
    if not derefs:
        return False, "the site does not go through a MutexGuard"
    # the closest one
    derefs.sort(key=lambda x: sum(1 for y in derefs if cfg.dominates(y[0], x[0])))
    bb, t = derefs[-1]
    v = strip_old(fa.val_operand(t["args"][0], (bb, len(f.blocks[bb]["stmts"]))))
    if not any(is_call(x, name_contains="lock::{closure#0}") for x in walk(v)) or not any(is_field(x, "entries", HUB) for x in walk(v)):
        return False, "the guard does not come from self.entries.lock().await: %s" % show(v, f.names)[:80]
    # G: the local behind the `&G` / `&mut G` operand
    l = t["args"][0].get("p", {}).get("l") if isinstance(t["args"][0], dict) else None
    G = None
    for _ in range(4):
        if l is None:
            break
        if f.locals[l]["ty"].startswith("tokio::sync::MutexGuard<"):
            G = l
            break
        ds = fa.defs.get(l, [])
        if len(ds) == 1 and ds[0][2] == "assign" and ds[0][3]["k"] in ("ref", "raw"):
            l = ds[0][3]["p"]["l"]
        elif len(ds) == 1 and ds[0][2] == "assign" and ds[0][3]["k"] == "use" and isinstance(ds[0][3]["o"], dict):
            l = ds[0][3]["o"].get("p", {}).get("l")
        else:
            break
    if G is None:
        return False, "guard local not identified"
    gdefs = fa.defs.get(G, [])
    if len(gdefs) != 1:
        return False, "guard local assigned %d times" % len(gdefs)
    gb = gdefs[0][0]
    drops = [bi for bi, blk in enumerate(f.blocks) if not blk["cleanup"] and blk["term"]["k"] == "drop" and blk["term"]["p"]["l"] == G and not blk["term"]["p"]["proj"]]
    moved = []
    for bi, blk in enumerate(f.blocks):
        if blk["cleanup"]:
            continue
        for s in blk["stmts"]:
            if s["k"] == "assign" and s["rv"]["k"] == "use" and isinstance(s["rv"]["o"], dict) and s["rv"]["o"].get("k") == "move" and s["rv"]["o"].get("p", {}).get("l") == G and not s["rv"]["o"]["p"].get("proj"):
                moved.append(bi)
        tt = blk["term"]
        if tt["k"] == "call":
            for a in tt["args"]:
                if isinstance(a, dict) and a.get("k") == "move" and a.get("p", {}).get("l") == G and not a["p"].get("proj"):
                    moved.append(bi)
    bad = [d for d in drops + moved if d != site_bb and cfg.can_reach(gb, d) and cfg.can_reach(d, site_bb) and not cfg.dominates(site_bb, d)]
    if bad:
        return False, "guard _%d may be dropped / moved at %s before the site" % (G, bad[:3])
    return True, "guard _%d (from self.entries.lock().await at bb%d), dropped only after the site" % (G, gb)


def d3_serialised(ctx):
    a = ctx.w.adts.get(HUB) if hasattr(ctx.w, "adts") else None
    fty = None
    if a:
        for v in a.get("variants", []):
            for fl in v.get("fields", []):
                if fl["name"] == "entries":
                    fty = fl.get("ty")
    ok = fty is not None and "tokio::sync::Mutex<std::vec::Vec<" in fty.replace("tokio::sync::mutex::Mutex", "tokio::sync::Mutex")
    ctx.chk.ob("D3", "the entry list lives in a tokio::sync::Mutex<Vec<Entry>> (every access goes through the guard)", ok, "entries: %s" % fty, key="D3:entries-type")
    f = ctx.fn(PUB, "D3")
    if f:
        ts = _try_send(ctx, f)
        for (bb, t) in ts:
            ok, det = _guard_alive(ctx, f, bb)
            ctx.chk.ob("D3", "events are handed over while the hub lock is held (publishes are serialised; a removed entry is invisible to later publishes)", ok, det, key="D3:try-send-under-lock", loc=t.get("loc"))
    g = ctx.fn(SUB, "D3")
    if g:
        ps = [(bb, t) for (bb, t) in g.calls() if t["f"].get("path", "").endswith("Vec::<T, A>::push")]
        ok = len(ps) == 1
        det = ""
        if ok:
            ok, det = _guard_alive(ctx, g, ps[0][0])
        ctx.chk.ob("D3", "subscribe appends under the hub lock", ok, det, key="D3:push-under-lock")
    u = ctx.fn(UNS, "D3")
    if u:
        fa = ctx.fa(u)
        cfg = ctx.cfg(u)
        rs = [(bb, t) for (bb, t) in u.calls() if t["f"].get("path", "").endswith("Vec::<T, A>::retain")]
        ok = len(rs) == 1
        det = ""
        if ok:
            bb, t = rs[0]
            ok, det = _guard_alive(ctx, u, bb)
            cl = fa.val_operand(t["args"][1], (bb, len(u.blocks[bb]["stmts"])))
            cf = ctx.w.fns.get(cl[2]) if cl[0] == "agg" else None
            okp = False
            if cf is not None:
                cpa = ctx.pa(cf)
                rt = cpa.ret_true()
                ats = cpa.atoms_of(rt)
                okp = len(ats) == 1 and is_call(ats[0], name_contains="PartialEq") and any(strip_old(x) == ("field", ("param", 2), ENT, "id") for x in ats[0][2]) and any(strip_old(x)[0] == "upvar" for x in ats[0][2])
                if okp:
                    keep_ne = cpa.atom(ats[0]) if ats[0][1].endswith("::ne") else cpa.bdd.NOT(cpa.atom(ats[0]))
                    okp = cpa.equivalent(rt, keep_ne)
                cap = strip_old(cl[3][0]) if cl[3] else None
                okp = okp and cap == ("upvar", _up(u, "id"))
            ok = ok and okp and not cfg.returns_reachable_avoiding({bb})
        ctx.chk.ob("D3", "unsubscribe removes every entry with that id, under the hub lock, before it returns", ok, det, key="D3:unsubscribe-removes-under-lock")


def d4_unique_ids(ctx):
    g = ctx.fn(SUB, "D4")
    if not g:
        return
    fa = ctx.fa(g)
    fas = [(bb, t) for (bb, t) in g.calls() if "sync::atomic::Atomic" in t["f"].get("path", "") and t["f"]["path"].endswith("::fetch_add")]
    ok = len(fas) == 1
    idv = None
    if ok:
        bb, t = fas[0]
        n = len(g.blocks[bb]["stmts"])
        a = [strip_old(fa.val_operand(x, (bb, n))) for x in t["args"]]
        ok = any(is_field(x, "next_id", HUB) for x in walk(a[0])) and a[1] == ("const", 1, "u64")
    ctx.chk.ob("D4", "ids come from one atomic fetch_add(1) on next_id (never a separate load and store)", ok, "", key="D4:fetch-add-one")
    others = [(bb, t) for (bb, t) in g.calls() if "sync::atomic::Atomic" in t["f"].get("path", "") and not t["f"]["path"].endswith("::fetch_add")]
    ctx.chk.ob("D4", "subscribe performs no other access to the counter", not others, "%s" % [t["f"]["path"] for (bb, t) in others], key="D4:no-load-store")
    readers = sorted(set(a.fn.stable for a in ctx.eff.reads.get((HUB, "next_id"), []) if "::tests" not in a.fn.stable))
    allowed = {SUB, "<" + HUB + " as core::clone::Clone>::clone", "<" + HUB + " as core::default::Default>::default"}
    ctx.chk.ob("D4", "nobody but subscribe touches next_id", set(readers) <= allowed and SUB in readers, "%s" % [sname(r) for r in readers], key="D4:next-id-private")
    # the Entry pushed and the value returned both carry format!("sub-{}", that number)
    ps = [(bb, t) for (bb, t) in g.calls() if t["f"].get("path", "").endswith("Vec::<T, A>::push")]
    ok = len(ps) == 1 and len(fas) == 1
    if ok:
        bb, t = ps[0]
        e = strip_old(fa.val_operand(t["args"][1], (bb, len(g.blocks[bb]["stmts"]))))
        ok = e[0] == "agg" and e[2].startswith(ENT)
        d = dict(zip(e[4], e[3])) if ok else {}
        idv = strip_old(d.get("id", ("x",)))
        def from_counter(x):
            tpl = [y for y in walk(x) if y[0] == "const" and isinstance(y[1], (bytes, bytearray)) and bytes(y[1]).startswith(b"\x04sub-")]
            return bool(tpl) and any(is_call(y, name_contains="sync::atomic::Atomic") and y[1].endswith("::fetch_add") for y in walk(x))
        ok = ok and from_counter(idv)
        r = ctx.cfg(g).returns
        rv = strip_old(fa.val_local(0, (r[0], len(g.blocks[r[0]]["stmts"])))) if len(r) == 1 else None
        ok = ok and rv is not None and from_counter(rv)
        # same topic string and the caller's sender
        ok = ok and any(x == ("upvar", _up(g, "topic")) for x in walk(d.get("topic", ("x",)))) and strip_old(d.get("sender", ("x",))) == ("upvar", _up(g, "push_tx"))
    ctx.chk.ob("D4", "the stored entry and the returned string are \"sub-<that number>\", with the caller's topic and channel", ok, show(idv, g.names)[:120] if idv else "", key="D4:id-value")


def d5_prune(ctx):
    f = ctx.fn(PUB, "D5")
    if f:
        fa = ctx.fa(f)
        cfg = ctx.cfg(f)
        ts = _try_send(ctx, f)
        if len(ts) == 1:
            bb, t = ts[0]
            n = len(f.blocks[bb]["stmts"])
            entry = strip_old(fa.val_operand(t["args"][0], (bb, n)))[1]
            res = None
            arms = result_arms(f, fa, lambda e: is_call(strip_old(e), name_contains="try_send"))
            err_arms = result_arms(f, fa, lambda e: strip_old(e)[0] == "field" and strip_old(e)[1][0] == "as" and strip_old(e)[1][2] == "Err" and is_call(strip_old(strip_old(e)[1][1]), name_contains="try_send"))
            pushes = [(pb, pt) for (pb, pt) in f.calls() if pt["f"].get("path", "").endswith("Vec::<T, A>::push") and not pt.get("mac")]
            ok = len(arms) == 1 and len(err_arms) == 1 and "Closed" in err_arms[0][1] and "Full" in err_arms[0][1] and len(pushes) == 1
            if ok:
                pb, pt = pushes[0]
                v = strip_old(fa.val_operand(pt["args"][1], (pb, len(f.blocks[pb]["stmts"]))))
                okv = is_call(v, name_contains="Clone>::clone") and strip_old(v[2][0]) == ("field", entry, ENT, "id")
                closed, full = err_arms[0][1]["Closed"], err_arms[0][1]["Full"]
                okc = cfg.dominates(closed, pb) and not cfg.can_reach(full, pb, avoid={err_arms[0][0]} | set(cfg.loop_heads()))
                okp = not cfg.can_reach(closed, cfg.loop_heads()[0], avoid={pb}) if cfg.loop_heads() else False
                ok = okv and okc
                ctx.chk.ob("D5", "only the Closed outcome records the entry - by its id - for pruning; Full records nothing", ok, "recorded %s" % show(v, f.names)[:100], key="D5:closed-recorded-by-id", loc=pt.get("loc"))
                lp = loop_of_element(f, fa, entry)
                # every Closed outcome is recorded: from the Closed arm the loop head is not reachable without the push
                okall = lp is not None and not cfg.can_reach(closed, lp["head"], avoid={pb})
                ctx.chk.ob("D5", "every closed subscriber found is recorded", okall, "", key="D5:closed-always-recorded")
            else:
                ctx.chk.ob("D5", "publish distinguishes Full / Closed and has one prune-list push", False, "%d result switches, %d error switches, %d pushes" % (len(arms), len(err_arms), len(pushes)), key="D5:closed-recorded-by-id")
            # the prune step
            rs = [(rb, rt) for (rb, rt) in f.calls() if rt["f"].get("path", "").endswith("Vec::<T, A>::retain")]
            ok = len(rs) == 1 and len(pushes) == 1
            det = ""
            if ok:
                rb, rt = rs[0]
                lst = strip_old(fa.val_operand(pushes[0][1]["args"][0], (pushes[0][0], len(f.blocks[pushes[0][0]]["stmts"]))))
                cl = fa.val_operand(rt["args"][1], (rb, len(f.blocks[rb]["stmts"])))
                cf = ctx.w.fns.get(cl[2]) if cl[0] == "agg" else None
                okp = False
                if cf is not None:
                    cpa = ctx.pa(cf)
                    rtf = cpa.ret_true()
                    ats = cpa.atoms_of(rtf)
                    okp = len(ats) == 1 and is_call(ats[0], name_contains="::contains") and strip_old(ats[0][2][1]) == ("field", ("param", 2), ENT, "id") and cpa.equivalent(rtf, cpa.bdd.NOT(cpa.atom(ats[0])))
                    okp = okp and bool(cl[3]) and strip_old(cl[3][0]) == lst
                    det = "keep iff %s" % cpa.show(rtf)[:100]
                pa = ctx.pa(f)
                emp = pa.find(lambda a: is_call(a, name_contains="Vec::<T, A>::is_empty") and strip_old(a[2][0]) == lst)
                lp = loop_of_element(f, fa, entry)
                okg = len(emp) == 1 and lp is not None
                if okg:
                    par = PathA(ctx.w, f, entry=lp["none"])
                    e2 = par.find(lambda a: is_call(a, name_contains="Vec::<T, A>::is_empty") and strip_old(a[2][0]) == lst)
                    pcr = par.pc_block(rb)
                    extra = [a for a in par.atoms_of(pcr) if not (e2 and a == e2[0][0]) and not (a[0] == "is" and any(is_call(x, name_contains="lock::{closure#0}") for x in walk(a)))]
                    okg = len(e2) == 1 and par.entails(pcr, par.bdd.NOT(e2[0][1])) and not extra
                g_ok, gdet = _guard_alive(ctx, f, rb)
                ok = okp and okg and g_ok
                det += "; " + gdet
            ctx.chk.ob("D5", "a non-empty prune list always reaches a retain, under the hub lock, that drops exactly the entries whose id is listed", ok, det[:300], key="D5:prune-by-id")
        else:
            ctx.chk.missing("D5", "publish: the try_send site", "%d" % len(ts))
    # the control connection cleans up after itself
    H = "srtla_send::control_socket::handle::{closure#0}"
    h = ctx.fn(H, "D5")
    if h:
        fa = ctx.fa(h)
        cfg = ctx.cfg(h)
        us = calls_to(h, stable=HUB + "::unsubscribe")
        ok = len(us) == 1
        det = ""
        if ok:
            bb, t = us[0]
            idv = strip_old(fa.val_operand(t["args"][1], (bb, len(h.blocks[bb]["stmts"]))))
            nx = [x for x in walk(idv) if is_call(x) and x[1].endswith("::next") and "vec::IntoIter" in x[1]]
            ok = bool(nx)
            if ok:
                elem = ("field", ("as", nx[0], "Some"), "core::option::Option", "0")
                lp = loop_of_element(h, fa, elem)
                src = strip_old(nx[0][2][0])
                ok = lp is not None and not lp["exits"]
                if ok:
                    o, det = every_iteration_reaches(ctx.w, h, fa, elem, bb, lambda a: False)
                    # every way out of the connection passes the cleanup loop
                    ok = o and not cfg.returns_reachable_avoiding({lp["head"]})
                    # the list walked is the connection's owned_ids
                    its = [(b2, t2) for (b2, t2) in h.calls() if t2["f"].get("path", "").endswith("IntoIterator>::into_iter") and "vec::Vec" in t2["f"]["path"] and cfg.dominates(b2, bb)]
                    owned = _owned_list_local(ctx, h, fa)
                    ok = ok and owned is not None and any(isinstance(t2["args"][0], dict) and _root_local(h, fa, t2["args"][0].get("p", {}).get("l")) == owned for (b2, t2) in its)
        ctx.chk.ob("D5", "a control connection unsubscribes every id it owns on every way out", ok, det[:200], key="D5:connection-cleanup")
    hs = ctx.fn("srtla_send::control::handle_subscribe::{closure#0}", "D5")
    if hs:
        fa = ctx.fa(hs)
        cfg = ctx.cfg(hs)
        sc = calls_to(hs, stable=HUB + "::subscribe")
        ps = [(bb, t) for (bb, t) in hs.calls() if t["f"].get("path", "").endswith("Vec::<T, A>::push") and not t.get("mac")]
        ok = len(sc) == 1 and len(ps) == 1
        if ok:
            bb, t = ps[0]
            v = strip_old(fa.val_operand(t["args"][1], (bb, len(hs.blocks[bb]["stmts"]))))
            lst = strip_old(fa.val_operand(t["args"][0], (bb, len(hs.blocks[bb]["stmts"]))))
            ok = any(is_call(x, stable=HUB + "::subscribe::{closure#0}") or is_call(x, stable=HUB + "::subscribe") for x in walk(v)) and any(is_field(x, "owned_ids") for x in walk(lst)) and \
                cfg.dominates(sc[0][0], bb) and not [r for r in cfg.returns if cfg.can_reach(sc[0][0], r, avoid={bb}) and not _is_cancel_path(cfg, sc[0][0], r)]
        ctx.chk.ob("D5", "a granted subscription id is recorded in the connection's owned list on every path after subscribe returns", ok, "", key="D5:owned-recorded")


def _owned_list_local(ctx, h, fa):
    """The connection's list of owned ids: the local whose `&mut` goes into SubscriptionContext.owned_ids."""
    SC = "srtla_send::control::SubscriptionContext"
    names = ctx.w.adt_fields(SC) or []
    if "owned_ids" not in names:
        return None
    k = names.index("owned_ids")
    found = set()
    for bi, blk in enumerate(h.blocks):
        for s in blk["stmts"]:
            if s["k"] == "assign" and s["rv"]["k"] == "agg" and s["rv"].get("adt") == SC and len(s["rv"]["ops"]) > k:
                o = s["rv"]["ops"][k]
                l = o.get("p", {}).get("l") if isinstance(o, dict) else None
                for _ in range(4):
                    if l is None:
                        break
                    ds = fa.defs.get(l, [])
                    if len(ds) == 1 and ds[0][2] == "assign" and ds[0][3]["k"] in ("ref", "raw"):
                        p = ds[0][3]["p"]
                        if not [e for e in p["proj"] if e["k"] != "deref"] and not p["proj"]:
                            found.add(p["l"])
                            break
                        l = p["l"]
                    elif len(ds) == 1 and ds[0][2] == "assign" and ds[0][3]["k"] == "use" and isinstance(ds[0][3]["o"], dict):
                        l = ds[0][3]["o"].get("p", {}).get("l")
                    else:
                        break
    return list(found)[0] if len(found) == 1 else None


def _root_local(f, fa, l):
    for _ in range(4):
        if l is None:
            return l
        ds = fa.defs.get(l, [])
        if len(ds) == 1 and ds[0][2] == "assign" and ds[0][3]["k"] == "use" and isinstance(ds[0][3]["o"], dict) and ds[0][3]["o"].get("k") == "move" \
                and not ds[0][3]["o"].get("p", {}).get("proj"):
            l = ds[0][3]["o"].get("p", {}).get("l")
        else:
            return l
    return l


def _is_cancel_path(cfg, a, r):
    return False


def _is_owned_ids(h, fa, src):
    for x in walk(src):
        if x[0] in ("var",) and h.names.get(x[1]) == "owned_ids":
            return True
    s = show(src, h.names)
    return "owned_ids" in s


RULES = [d1_publish_never_waits, d2_topic_once_tagged, d3_serialised, d4_unique_ids, d5_prune]
CONFIGS = ["prod", "prod-release", "testint"]


def run(ctx):
    ctx.chk.not_decided = ["FIFO order of tokio's mpsc and fairness / cancellation-safety of its Mutex (trusted dependency): with them, D2/D3 give per-subscriber publication order, at most once",
                           "enumeration of interleavings (the property's quantifier) - replaced by: the lock is never held across an await and every access is under it, so critical sections are atomic",
                           "lines already queued in a connection's 128-slot push channel before an unsubscribe are still written afterwards by control_socket::handle; 'delivered' is decided as 'handed to the subscriber's channel by publish'"]
    ctx.run_rules(RULES, core_only=())
