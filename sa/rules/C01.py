"""C01 - the uplink path forwards every SRT datagram intact, once, in per-link order.

D1 payload identity: the same immutable slice `&recv_buf[..n]` travels handle_srt_packet -> forward_via_connection ->
   queue_data_packet -> BatchSender::queue_packet -> `SmallVec::from_slice_copy`, through `&[u8]` parameters only, no unsafe;
D2 once: the two forward sites exclude each other and are not in a loop; the forwarder queues exactly once unless the index is out of range;
D3 no silent drop after registration: returning without a forward needs a read error, an empty read or an empty scheduler answer;
D4 per-link FIFO and pairing of the three parallel vectors (push / drain(..) / clear on all three, zipped in order);
D5 who may discard queued data (the two link resets only);
D6 drained = handed to the socket; the short-send loop advances and ends only when everything was offered;
D7 flush points (regime table, threshold flush guard and converse, timer arm, skip conditions, 15 ms constants);
D8 duplicates only as gated probes, one in STALL_PROBE_ONE_IN_N;
D9 send-failure discipline: every caller of send_connection_batch resets the link on Err (optimistic registration is only sound then).
"""
from ..absint import AbsInt, Bool, Entry, Num
from ..ctx import full_slice_element, is_awaited_result_of, CONN, is_call, is_field, is_iter_next, result_arms, sname
from ..expr import show, strip_old, walk
from ..pathcond import PathA, calls_to, field_stores
from .route import FWD, HSP, routing_sources

LEVEL = "other"
BS = "srtla_core::connection::batch_send::BatchSender"
PH = "srtla_send::sender::packet_handler::"
FWDC = FWD + "::{closure#0}"
PROBE = PH + "send_stall_probes"
PROBEC = PROBE + "::{closure#0}"
SCB = PH + "send_connection_batch"
SCBC = SCB + "::{closure#0}"
FLUSH = PH + "flush_all_batches"
FLUSHC = FLUSH + "::{closure#0}"
QDP = CONN + "::queue_data_packet"
VECS = ("queue", "sequences", "queue_times")


from .. import roles  # noqa: E402
from ..roles import up  # noqa: E402  (parameter lookup: by name, else by unique type)


def d1_payload_identity(ctx):
    r = routing_sources(ctx, "D1")
    if r is None:
        return
    fn, pa, post, pre, sources, RC = r
    buf, res = up(fn, "recv_buf"), up(fn, "res")

    def is_pkt(v):
        # index(recv_buf, RangeTo{end: (res as Ok).0.0})
        return is_call(v, name_contains="::index") and v[2][0] == buf and v[2][1][0] == "agg" and v[2][1][2].endswith("RangeTo::RangeTo") \
            and v[2][1][3] == (("field", ("field", ("as", res, "Ok"), "core::result::Result", "0"), "tuple", "0"),)
    sites = [(post[0], post[1], "forward (scheduled)"), (pre[0], pre[1], "forward (pre-registration)")]
    for (bb, t) in calls_to(fn, stable=PROBE):
        sites.append((bb, t, "stall probe"))
    for (bb, t, what) in sites:
        v = pa.fa.val_operand(t["args"][1], (bb, len(fn.blocks[bb]["stmts"])))
        ctx.chk.ob("D1", "%s carries &recv_buf[..n] with n the received length" % what, is_pkt(v), show(v, fn.names)[:160], key="D1:pkt-is-received-slice:%s" % what, loc=t.get("loc"))
    ctx.chk.floor("D1", "sites handing the datagram on", len(sites), 3)
    # the chain passes its &[u8] parameter unchanged
    for (st, callee, argi, pname) in ((FWDC, QDP, 1, "pkt"), (PROBEC, QDP, 1, "pkt")):
        f = ctx.fn(st, "D1")
        if not f:
            continue
        fa = ctx.fa(f)
        for (bb, t) in calls_to(f, stable=callee):
            v = fa.val_operand(t["args"][argi], (bb, len(f.blocks[bb]["stmts"])))
            ctx.chk.ob("D1", "%s passes its `%s` parameter on unchanged" % (sname(st), pname), v == up(f, pname), show(v, f.names), key="D1:chain:%s" % st, loc=t.get("loc"))
    q = ctx.fn(QDP, "D1")
    if q:
        fa = ctx.fa(q)
        for (bb, t) in calls_to(q, stable=BS + "::queue_packet"):
            v = fa.val_operand(t["args"][1], (bb, len(q.blocks[bb]["stmts"])))
            ctx.chk.ob("D1", "queue_data_packet passes `data` on unchanged", v == ("param", 2), show(v, q.names), key="D1:chain:%s" % QDP)
            s = fa.val_operand(t["args"][2], (bb, len(q.blocks[bb]["stmts"])))
            ctx.chk.ob("D1", "queue_data_packet passes the sequence number on unchanged", s == ("param", 3), show(s, q.names), key="D1:chain-seq:%s" % QDP)
    qp = ctx.fn(BS + "::queue_packet", "D1")
    if qp:
        fa = ctx.fa(qp)
        pushes = [(bb, t) for (bb, t) in qp.calls() if t["f"].get("path", "").endswith("Vec::<T, A>::push")]
        ok = False
        for (bb, t) in pushes:
            tgt = fa.val_operand(t["args"][0], (bb, len(qp.blocks[bb]["stmts"])))
            v = fa.val_operand(t["args"][1], (bb, len(qp.blocks[bb]["stmts"])))
            if is_field(tgt, "queue", BS):
                ok = is_call(v, name_contains="from_slice_copy") and v[2] == (("param", 2),)
        ctx.chk.ob("D1", "the queued bytes are a copy of the whole `data` slice", ok, "", key="D1:queued-copy")
    # all parameter types on the chain are shared slices, no body is unsafe
    for st in (FWDC, PROBEC, QDP, BS + "::queue_packet", HSP, SCBC, CONN + "::take_batch", BS + "::drain"):
        f = ctx.fn(st, "D1")
        if f:
            ctx.chk.ob("D1", "%s has no unsafe block" % sname(st), not f.unsafe_block and not f.unsafe_fn, "", key="D1:no-unsafe:%s" % st)
    for st, l in ((QDP, 2), (BS + "::queue_packet", 2)):
        f = ctx.fn(st, "D1")
        if f:
            ctx.chk.ob("D1", "%s takes the payload as &[u8]" % sname(st), f.locals[l]["ty"] == "&[u8]", f.locals[l]["ty"], key="D1:shared-slice:%s" % st)


def d2_once(ctx):
    r = routing_sources(ctx, "D2")
    if r is None:
        return
    fn, pa, post, pre, sources, RC = r
    cfg = ctx.cfg(fn)
    b = pa.bdd
    excl = b.AND(pa.pc_block(post[0]), pa.pc_block(pre[0])) == b.FALSE and not cfg.can_reach(post[0], pre[0]) and not cfg.can_reach(pre[0], post[0])
    ctx.chk.ob("D2", "the two forward sites exclude each other", excl, "", key="D2:never-both")
    for (bb, what) in ((post[0], "scheduled"), (pre[0], "pre-registration")):
        ctx.chk.ob("D2", "the %s forward is not in a loop" % what, not cfg.in_cycle(bb), "", key="D2:not-in-cycle:%s" % what)
    f = ctx.fn(FWDC, "D2")
    if f:
        cf = ctx.cfg(f)
        qs = calls_to(f, stable=QDP)
        ok = len(qs) == 1 and not cf.in_cycle(qs[0][0])
        ctx.chk.ob("D2", "forward_via_connection queues the datagram exactly once", ok, "%d site(s)" % len(qs), key="D2:one-queue-site")
        if qs:
            qb, qt = qs[0]
            fa = ctx.fa(f)
            v = fa.val_operand(qt["args"][0], (qb, len(f.blocks[qb]["stmts"])))
            ok = v[0] == "index" and v[1] == up(f, "connections") and v[2] == up(f, "sel_idx")
            ctx.chk.ob("D2", "it queues on connections[sel_idx]", ok, show(v, f.names), key="D2:queue-target")
            pa2 = PathA(ctx.w, f, avoid={qb})
            pcr = pa2.pc_return()
            oob = pa2.lit(("bin", "Le", ("call", "core::slice::<impl [T]>::len", (up(f, "connections"),), None, None), up(f, "sel_idx"), "usize"))
            ctx.chk.ob("D2", "the forwarder returns without queueing only for an out-of-range index", pa2.entails(pcr, oob),
                       "queue-free return under %s" % pa2.show(pcr, 4), key="D2:skip-only-out-of-range")


def d3_no_silent_drop(ctx):
    r = routing_sources(ctx, "D3")
    if r is None:
        return
    fn, pa, post, pre, sources, RC = r
    pa2 = PathA(ctx.w, fn, avoid={post[0], pre[0]})
    b = pa2.bdd
    RC2 = pa2.atom(RC and pa.bdd.vars[list(pa.bdd.support(RC))[0]])
    pcr = b.AND(pa2.pc_return(), RC2)
    res = up(fn, "res")
    err = pa2.is_atom(("is", res, "Err"))
    zero = pa2.lit(("bin", "Eq", ("const", 0, "usize"), ("field", ("field", ("as", res, "Ok"), "core::result::Result", "0"), "tuple", "0"), "usize"))
    # the routing decision is None
    none_f = b.FALSE
    # the decision local: the Option whose payload is the index handed to the forwarder
    dec = None
    v0 = strip_old(pa.fa.val_operand(post[1]["args"][0], (post[0], len(fn.blocks[post[0]]["stmts"]))))
    for x in walk(v0):
        if x[0] == "var":
            dec = x[1]
            break
    for a in pa2.bdd.vars:
        if a[0] == "is" and a[1][0] == "var" and dec is not None and a[1][1] == dec:
            none_f = pa2.is_atom(("is", a[1], "None"))
    allowed = b.OR(b.OR(err, zero), none_f)
    ok = pa2.entails(pcr, allowed)
    ctx.chk.ob("D3", "after registration a datagram is not forwarded only on read error, empty read, or no selectable link", ok,
               "forward-free return under %s" % pa2.show(pcr, 6) + ("" if ok else " ; e.g. %s" % pa2.counterexample(pcr, allowed)), key="D3:skip-conditions")
    # "no selectable link" must be the scheduler's own answer: nothing else may turn the decision into None
    from . import route
    bad = []
    nd = 0
    if dec is not None:
        for d in pa.fa.defs.get(dec, []):
            nd += 1
            if d[2] == "call":
                st = d[3]["f"].get("stable")
                if st not in (route.SEL, route.PRE):
                    bad.append("call %s" % (st or d[3]["f"].get("path")))
            elif d[2] == "assign":
                v = strip_old(pa.fa.val_rvalue(d[3], (d[0], d[1])))
                if is_call(v, stable=route.SEL) or is_call(v, stable=route.PRE):
                    continue
                if not (v[0] == "agg" and v[1] == "adt" and v[2].endswith("::Some")):
                    bad.append(show(v, fn.names)[:100])
            else:
                bad.append(d[2])
    ctx.chk.ob("D3", "the routing decision is None only when the scheduler said so (every other definition is Some(..))", dec is not None and nd >= 2 and not bad,
               "definitions that may be None: %s" % bad, key="D3:none-only-from-scheduler")
    # the routing decision tested for None is the one whose sources C04 checks
    ctx.chk.ob("D3", "the forwarded index is the routing decision", any(s.kind == "selector" for s in sources), "", key="D3:decision-is-scheduler")


def _vec_mutations(ctx, fn):
    """{field: [callee tail]} for &mut uses of the three parallel vectors in fn."""
    out = {}
    for fld in VECS:
        for a in ctx.eff.writers_of(BS, fld, ("mutarg",)):
            if a.fn.id == fn.id:
                path = fn.blocks[a.bb]["term"]["f"].get("path", "?")
                out.setdefault(fld, []).append((path.rsplit("::", 1)[-1], a.bb, fn.blocks[a.bb]["term"]))
    return out


def d4_fifo_and_pairing(ctx):
    for fld in VECS:
        ctx.WHO_WRITES("D4", BS, fld, {BS + "::queue_packet", BS + "::drain", BS + "::reset"}, floor=3, allow_agg_in={BS + "::new"})
    want = {BS + "::queue_packet": "push", BS + "::drain": "drain", BS + "::reset": "clear"}
    for st, op in want.items():
        f = ctx.fn(st, "D4")
        if not f:
            continue
        m = _vec_mutations(ctx, f)
        ok = set(m) == set(VECS) and all([x[0] for x in m[v]] == [op] for v in VECS)
        ctx.chk.ob("D4", "%s applies exactly one `%s` to each of queue / sequences / queue_times" % (sname(st), op), ok,
                   "%s" % {k: [x[0] for x in v] for k, v in m.items()}, key="D4:parallel-vectors:%s" % st)
        cfg = ctx.cfg(f)
        if ok and op != "drain":
            blocks = [m[v][0][1] for v in VECS]
            # all three on every path that has any of them
            same = all(cfg.dominates(blocks[0], x) for x in blocks) and all(cfg.postdominates(blocks[2], x) for x in blocks)
            ctx.chk.ob("D4", "%s: the three operations are on the same paths" % sname(st), same, "", key="D4:same-path:%s" % st)
        if ok and op == "drain":
            fa = ctx.fa(f)
            full = True
            for v in VECS:
                (_op, bb, t) = m[v][0]
                rng = fa.val_operand(t["args"][1], (bb, len(f.blocks[bb]["stmts"])))
                if not (rng[0] in ("agg", "const") and "RangeFull" in repr(rng)):
                    full = False
            ctx.chk.ob("D4", "drain takes the full range `..` of each vector", full, "", key="D4:drain-full-range")
            # zip order and the tuple the closure builds
            mp = [(bb, t) for (bb, t) in f.calls() if t["f"].get("path", "").endswith("Iterator::map")]
            ok2 = False
            detail = ""
            if len(mp) == 1:
                bb, t = mp[0]
                src = fa.val_operand(t["args"][0], (bb, len(f.blocks[bb]["stmts"])))
                detail = show(src, f.names)[:260]
                # zip(zip(drain(queue), drain(sequences)), drain(queue_times))
                def drained(e, fld):
                    return is_call(e, name_contains="::drain") and is_field(e[2][0], fld, BS)
                if is_call(src, name_contains="Iterator::zip") and is_call(src[2][0], name_contains="Iterator::zip"):
                    ok2 = drained(src[2][0][2][0], "queue") and drained(src[2][0][2][1], "sequences") and drained(src[2][1], "queue_times")
                cl = fa.val_operand(t["args"][1], (bb, len(f.blocks[bb]["stmts"])))
                clf = ctx.w.fns.get(cl[2]) if cl[0] == "agg" else None
                if clf is not None:
                    cfa = ctx.fa(clf)
                    rets = [cfa.val_local(0, (r, len(clf.blocks[r]["stmts"]))) for r in ctx.cfg(clf).returns]
                    p = ("param", 2)
                    want_t = ("agg", "tuple", None, (("field", ("field", p, "tuple", "0"), "tuple", "0"), ("field", ("field", p, "tuple", "0"), "tuple", "1"),
                                                     ("field", p, "tuple", "1")), ())
                    ok2 = ok2 and rets == [want_t]
                    detail += " ; closure returns %s" % [show(x, clf.names) for x in rets]
            ctx.chk.ob("D4", "drain pairs element k of queue, sequences and queue_times, in queue order", ok2, detail, key="D4:drain-zip-order")
            # what the three drains removed is exactly what is returned: the mapped zip goes straight into the collect that is returned;
            # no adaptor in between can drop elements (a dropped `Drain` still removes its whole range from the vector)
            its = sorted(t["f"].get("path", "").rsplit("::", 1)[-1] for (bb, t) in f.calls() if "Iterator::" in t["f"].get("path", "") and not f.blocks[bb]["cleanup"])
            col = [(bb, t) for (bb, t) in f.calls() if t["f"].get("path", "").endswith("Iterator::collect")]
            ok3 = its == ["collect", "map", "zip", "zip"] and len(col) == 1 and len(mp) == 1
            det3 = "iterator calls %s" % its
            if ok3:
                cb, ct = col[0]
                cv = fa.val_operand(ct["args"][0], (cb, len(f.blocks[cb]["stmts"])))
                mv = fa._val_call(mp[0][1], (mp[0][0], len(f.blocks[mp[0][0]]["stmts"])), 0)
                from ..expr import strip_old as _so
                ok3 = _so(cv) == _so(mv)
                rets = ctx.cfg(f).returns
                colv = _so(fa._val_call(ct, (cb, len(f.blocks[cb]["stmts"])), 0))
                outs = []
                for bi, blk in enumerate(f.blocks):
                    if blk["cleanup"]:
                        continue
                    for si, st_ in enumerate(blk["stmts"]):
                        if st_["k"] == "assign" and st_["p"]["l"] == 0 and not st_["p"]["proj"]:
                            outs.append(_so(fa.val_rvalue(st_["rv"], (bi, si))))
                    tt = blk["term"]
                    if tt["k"] == "call" and tt["dest"]["l"] == 0 and not tt["dest"]["proj"]:
                        outs.append(_so(fa._val_call(tt, (bi, len(blk["stmts"])), 0)))
                ok3 = ok3 and colv in outs and all(o == colv or is_call(o, name_contains="SmallVec") and o[1].endswith("::new") for o in outs)
                det3 += " ; returned %s" % [show(o, f.names)[:80] for o in outs]
            ctx.chk.ob("D4", "drain returns everything the three vectors gave up: collect(map(zip(..))) with no element-dropping adaptor, returned as is", ok3, det3, key="D4:drain-returns-all")
    # no other Vec mutator anywhere on these fields
    bad = []
    for fld in VECS:
        for a in ctx.eff.writers_of(BS, fld, ("mutarg",)):
            path = a.fn.blocks[a.bb]["term"]["f"].get("path", "?")
            if path.rsplit("::", 1)[-1] not in ("push", "drain", "clear"):
                bad.append("%s in %s" % (path, a.fn.stable))
    ctx.chk.ob("D4", "no reordering / partial mutator (insert, remove, swap_remove, pop, truncate, sort, reverse, retain, dedup) touches the vectors", not bad,
               "; ".join(bad[:4]), key="D4:no-other-mutator")


def d5_who_discards(ctx):
    ctx.WHO_CALLS("D5", BS + "::reset", {CONN + "::reset_core_state", CONN + "::clear_pre_registration_state"}, floor=2)
    ctx.WHO_CALLS("D5", CONN + "::reset_core_state", {CONN + "::mark_for_recovery", CONN + "::reset_for_reconnect"}, floor=2)
    ctx.WHO_CALLS("D5", BS + "::drain", {CONN + "::take_batch"}, floor=1)


def d6_drained_is_sent(ctx):
    ctx.WHO_CALLS("D6", CONN + "::take_batch", {SCBC}, floor=1)
    f = ctx.fn(SCBC, "D6")
    if f:
        fa = ctx.fa(f)
        sends = calls_to(f, stable="srtla_send::net::send_all_datagrams")
        ok = False
        detail = ""
        for (bb, t) in sends:
            v = fa.val_operand(t["args"][1], (bb, len(f.blocks[bb]["stmts"])))
            detail = show(v, f.names)[:300]
            # deref(collect(map(iter(batch), closure)))
            cols = [x for x in walk(v) if is_call(x, name_contains="Iterator::collect")]
            if cols and is_call(cols[0][2][0], name_contains="Iterator::map"):
                mp = cols[0][2][0]
                it = mp[2][0]
                from_batch = any(is_call(x, stable=CONN + "::take_batch") for x in walk(it)) or any(x[0] == "var" for x in walk(it))
                cl = mp[2][1]
                clf = ctx.w.fns.get(cl[2]) if cl[0] == "agg" else None
                if clf is not None:
                    cfa = ctx.fa(clf)
                    rets = [cfa.val_local(0, (r, len(clf.blocks[r]["stmts"]))) for r in ctx.cfg(clf).returns]
                    ok = from_batch and len(rets) == 1 and is_call(rets[0], name_contains="as_slice") and rets[0][2][0] == ("field", ("param", 2), "tuple", "0")
        ctx.chk.ob("D6", "every drained datagram's own bytes are offered to the socket, in batch order", ok, detail, key="D6:slices-from-batch")
        ctx.chk.floor("D6", "send_all_datagrams sites in send_connection_batch", len(sends), 1)
    sa = ctx.fn("srtla_send::net::send_all_datagrams::{closure#0}", "D6")
    if sa:
        pa = ctx.pa(sa)
        # Ok(()) is returned only when sent >= total
        oks = []
        for bi, blk in enumerate(sa.blocks):
            if blk["cleanup"]:
                continue
            for si, s in enumerate(blk["stmts"]):
                if s["k"] == "assign" and s["p"]["l"] == 0 and not s["p"]["proj"] and s["rv"]["k"] == "agg" and s["rv"].get("vn") == "Ok":
                    oks.append((bi, si))
        s0 = roles.counter(ctx.w, sa, "usize", start=0, step=None, hint="sent")
        sent = [s0] if s0 is not None else []
        ok = False
        if oks and sent:
            ok = True
            for (bi, si) in oks:
                pc = pa.pc_at(bi, si)
                lt = [fm for (a, fm) in pa.find(lambda a: a[0] == "bin" and a[1] == "Lt" and a[2][0] == "var" and a[2][1] == sent[0])]
                ok = ok and bool(lt) and pa.entails(pc, pa.bdd.NOT(lt[0]))
        ctx.chk.ob("D6", "send_all_datagrams reports success only when nothing is left (sent >= total)", ok, "%d Ok sites" % len(oks), key="D6:ok-only-when-all-sent")
        # progress: sent only grows, by the count the socket accepted, and Ok(0) is an error
        fa = pa.fa
        incs = [d for d in fa.defs.get(sent[0], []) if d[2] == "assign"] if sent else []
        grow = False
        for d in incs:
            v = fa.val_rvalue(d[3], (d[0], d[1]))
            if v[0] == "bin" and v[1] == "Add":
                grow = True
        ctx.chk.ob("D6", "the short-send loop advances `sent` by the accepted count", grow, "", key="D6:sent-advances")


def d7_flush_points(ctx):
    ctx.CONST("D7", "srtla_core::connection::batch_send::BATCH_SEND_SIZE", 32)
    ctx.CONST("D7", "srtla_core::connection::batch_send::FLUSH_INTERVAL_MS", 15)
    ctx.CONST("D7", "srtla_core::connection::batch_send::BATCH_SIZE_LOW_ACTIVITY", 4)
    ctx.CONST("D7", "srtla_core::connection::batch_send::BATCH_SIZE_NORMAL", 16)
    ctx.CONST("D7", "srtla_core::connection::batch_send::BATCH_SIZE_HIGH_LOAD", 32)
    bsz = ctx.fn("srtla_core::connection::batch_send::BatchRegime::batch_size", "D7")
    if bsz:
        pa = ctx.pa(bsz)
        table = {}
        for bi, blk in enumerate(bsz.blocks):
            for si, s in enumerate(blk["stmts"]):
                if s["k"] == "assign" and s["p"]["l"] == 0 and not s["p"]["proj"]:
                    v = pa.fa.val_rvalue(s["rv"], (bi, si))
                    for var in ("LowActivity", "Normal", "HighLoad"):
                        if pa.sat(pa.bdd.AND(pa.pc_at(bi, si), pa.is_atom(("is", ("param", 1), var)))):
                            table.setdefault(var, set()).add(v[1] if v[0] == "const" else None)
        ctx.chk.ob("D7", "regime thresholds {LowActivity 4, Normal 16, HighLoad 32}, none above one batch", table == {"LowActivity": {4}, "Normal": {16}, "HighLoad": {32}},
                   "%s" % {k: sorted(v, key=repr) for k, v in table.items()}, key="D7:regime-table")
    qp = ctx.fn(BS + "::queue_packet", "D7")
    if qp:
        fa = ctx.fa(qp)
        rets = [fa.val_local(0, (r, len(qp.blocks[r]["stmts"]))) for r in ctx.cfg(qp).returns]
        ok = len(rets) == 1 and rets[0][0] == "bin" and rets[0][1] == "Le" and is_call(rets[0][2], name_contains="batch_size") and \
            is_call(rets[0][3], name_contains="::len") and is_field(rets[0][3][2][0], "queue", BS)
        ctx.chk.ob("D7", "queue_packet asks for a flush iff queue.len() >= batch_size", ok, "%s" % [show(v, qp.names) for v in rets], key="D7:needs-flush-value")
    f = ctx.fn(FWDC, "D7")
    if f:
        pa = ctx.pa(f)
        qs = calls_to(f, stable=QDP)
        sb = calls_to(f, stable=SCB)
        if len(qs) == 1 and len(sb) == 1:
            nf = pa.atom(pa.fa._val_call(qs[0][1], (qs[0][0], len(f.blocks[qs[0][0]]["stmts"])), 0))
            pc = pa.pc_block(sb[0][0])
            ctx.chk.ob("D7", "threshold flush happens only when the queue asked for it", pa.entails(pc, nf), "PC = %s" % pa.show(pa.bdd.simplify(pc, pa.pc_block(qs[0][1]["t"])), 4), key="D7:threshold-flush-guard")
            # converse: after queueing, the flush is skipped only if !needs_flush or the link has no io entry
            pa2 = PathA(ctx.w, f, avoid={sb[0][0]}, entry=qs[0][1]["t"])
            nf2 = pa2.atom(pa2.fa._val_call(qs[0][1], (qs[0][0], len(f.blocks[qs[0][0]]["stmts"])), 0))
            io_none = pa2.bdd.FALSE
            for a in pa2.bdd.vars:
                if a[0] == "is" and is_call(a[1], name_contains="HashMap::<K, V, S, A>::get"):
                    io_none = pa2.is_atom(("is", a[1], "None"))
            ok = pa2.entails(pa2.bdd.AND(pa2.pc_return(), nf2), io_none)
            ctx.chk.ob("D7", "a requested threshold flush is skipped only when the link has no I/O entry", ok,
                       "after queueing, flush-free return under %s" % pa2.show(pa2.pc_return(), 4), key="D7:threshold-flush-converse")
            v = pa.fa.val_operand(sb[0][1]["args"][0], (sb[0][0], len(f.blocks[sb[0][0]]["stmts"])))
            ctx.chk.ob("D7", "the threshold flush drains the link that was just queued on", v[0] == "index" and v[2] == up(f, "sel_idx"), show(v, f.names), key="D7:threshold-flush-target")
        else:
            ctx.chk.missing("D7", "forward_via_connection: queue / flush sites", "%d / %d" % (len(qs), len(sb)))
    # the timer arm
    run = [x for x in ctx.w.fns.values() if x.stable.startswith("srtla_send::sender::run_sender_with_config") and x.kind == "coroutine" and calls_to(x, stable=FLUSH)]
    ctx.chk.ob("D7", "the event loop has a flush arm", len(run) == 1, "%d bodies call flush_all_batches" % len(run), key="D7:timer-arm")
    if len(run) == 1:
        rf = run[0]
        fa = ctx.fa(rf)
        c15 = [c for cid, c in ctx.w.consts.items() if cid.endswith("::BATCH_FLUSH_INTERVAL_MS") and cid.startswith("srtla_send::sender::run_sender_with_config")]
        ctx.chk.ob("D7", "the flush timer period constant is 15 ms", len(c15) >= 1 and all(c.get("val") == 15 for c in c15), "%s" % [c.get("val") for c in c15], key="D7:timer-const")
        # the interval is built from that constant: Duration::from_millis(BATCH_FLUSH_INTERVAL_MS) feeding interval_at, and its tick() guards the flush
        ivs = [(bb, t) for (bb, t) in rf.calls() if t["f"].get("path", "").endswith("time::interval_at")]
        periods = []
        for (bb, t) in ivs:
            v = fa.val_operand(t["args"][1], (bb, len(rf.blocks[bb]["stmts"])))
            periods.append(v)
        has15 = any(is_call(v, name_contains="Duration::from_millis") and v[2][0][0] in ("const", "constdef") and
                    (v[2][0][1] == 15 or "BATCH_FLUSH_INTERVAL_MS" in str(v[2][0][1])) for v in periods)
        ctx.chk.ob("D7", "an interval with the 15 ms period is created", has15, "%s" % [show(v, rf.names)[:80] for v in periods], key="D7:timer-built-from-const")
    fl = ctx.fn(FLUSHC, "D7")
    if fl:
        pa = ctx.pa(fl)
        sb = calls_to(fl, stable=SCB)
        if len(sb) == 1:
            bb = sb[0][0]
            link = pa.fa.val_operand(sb[0][1]["args"][0], (bb, len(fl.blocks[bb]["stmts"])))
            cfg = ctx.cfg(fl)
            loop = cfg.innermost_loop_of(bb)
            # region: one iteration of the loop over links, starting where the element is bound
            arms = result_arms(fl, pa.fa, lambda e: is_iter_next(e) and loop is not None)
            ok = False
            detail = ""
            some_bb = None
            for (sbb, a) in arms:
                if loop and sbb in loop[1] and "Some" in a and link[0] == "field" and any(x == link[1][1] for x in [pa.fa.val_operand(fl.blocks[sbb]["term"]["d"], (sbb, len(fl.blocks[sbb]["stmts"])))[1]]):
                    some_bb = a["Some"]
            if some_bb is not None:
                pa2 = PathA(ctx.w, fl, avoid={bb}, entry=some_bb)
                hq = pa2.find(lambda a: is_call(a, stable=CONN + "::has_queued_packets") and a[2][0] == link)
                nb = pa2.find(lambda a: is_call(a, stable=CONN + "::needs_batch_flush") and a[2][0] == link)
                io_none = pa2.bdd.FALSE
                for a in pa2.bdd.vars:
                    if a[0] == "is" and is_call(a[1], name_contains="HashMap::<K, V, S, A>::get") and any(x == link for x in walk(a[1])):
                        io_none = pa2.is_atom(("is", a[1], "None"))
                if hq and nb:
                    skip = pa2.bdd.FALSE
                    for (t, h) in cfg.back_edges():
                        if h == loop[0]:
                            skip = pa2.bdd.OR(skip, pa2.edge_cond(t, h))
                    idle = pa2.bdd.AND(pa2.bdd.NOT(hq[0][1]), pa2.bdd.NOT(nb[0][1]))
                    ok = pa2.entails(skip, pa2.bdd.OR(idle, io_none))
                    detail = "a link is passed over under %s" % pa2.show(skip, 4)
            ctx.chk.ob("D7", "the timer flush passes a link over only if it has nothing queued (or no I/O entry)", ok, detail, key="D7:timer-flush-skip")
            ctx.chk.ob("D7", "the timer flush visits every link (plain iteration)", full_slice_element(link, up(fl, "connections")) is not None, show(link, fl.names)[:160], key="D7:timer-flush-all-links")
            # the early exit is taken only when no link has work
            anyc = [(b_, t_) for (b_, t_) in fl.calls() if "Iterator>::any" in t_["f"].get("path", "")]
            okc = False
            if len(anyc) == 1:
                cl = pa.fa.val_operand(anyc[0][1]["args"][1], (anyc[0][0], len(fl.blocks[anyc[0][0]]["stmts"])))
                clf = ctx.w.fns.get(cl[2]) if cl[0] == "agg" else None
                if clf is not None:
                    cpa = ctx.pa(clf)
                    rt = cpa.ret_true()
                    a1 = cpa.find(lambda a: is_call(a, stable=CONN + "::has_queued_packets") and a[2][0] == ("param", 2))
                    okc = bool(a1) and cpa.entails(a1[0][1], rt)
            ctx.chk.ob("D7", "the idle early-exit cannot hide a link with queued packets", okc, "", key="D7:early-exit-sound")
        else:
            ctx.chk.missing("D7", "flush_all_batches: send_connection_batch site", "%d" % len(sb))
    hq = ctx.fn(BS + "::has_queued_packets", "D7")
    if hq:
        pa = ctx.pa(hq)
        rt = pa.ret_true()
        e = pa.find(lambda a: is_call(a, name_contains="::is_empty") and is_field(a[2][0], "queue", BS))
        ctx.chk.ob("D7", "has_queued_packets == !queue.is_empty()", bool(e) and pa.equivalent(rt, pa.bdd.NOT(e[0][1])), "RT = %s" % pa.show(rt), key="D7:has-queued-value")


def d8_probes(ctx):
    ctx.CONST("D8", "srtla_core::config_snapshot::STALL_PROBE_ONE_IN_N", 100)
    f = ctx.fn(PROBEC, "D8")
    if f:
        pa = ctx.pa(f)
        for (bb, t) in calls_to(f, stable=QDP):
            nst = len(f.blocks[bb]["stmts"])
            link = pa.fa.val_operand(t["args"][0], (bb, nst))
            pc = pa.pc_block(bb)
            b = pa.bdd
            need = []
            g = pa.find(lambda a: (is_call(a, stable=CONN + "::is_stall_gated") and a[2][0] == link) or (is_field(a, "stall_gated", CONN) and a[1] == link))
            c = pa.find(lambda a: is_field(a, "connected", CONN) and a[1] == link)
            d = pa.find(lambda a: is_call(a, stable=CONN + "::stall_probe_due") and a[2][0] == link)
            e = pa.find(lambda a: a[0] == "bin" and a[1] == "Eq" and up(f, "sel_idx") in (a[2], a[3]) and link[0] == "field" and
                        ("field", link[1], link[2], "0") in (a[2], a[3]))
            need.append(("link is stall-gated", g[0][1] if g else b.FALSE))
            need.append(("link is connected", c[0][1] if c else b.FALSE))
            need.append(("stall_probe_due()", d[0][1] if d else b.FALSE))
            need.append(("link is not the routed one", b.NOT(e[0][1]) if e else b.FALSE))
            ctx.GUARD("D8", f, bb, nst, need, "duplicate probe", key=None)
            a1 = pa.fa.val_operand(t["args"][1], (bb, nst))
            a2 = pa.fa.val_operand(t["args"][2], (bb, nst))
            ctx.chk.ob("D8", "the probe is an identical copy with the original sequence number", a1 == up(f, "pkt") and a2 == up(f, "seq"), "", key="D8:probe-identical")
        ctx.chk.floor("D8", "probe queue sites", len(calls_to(f, stable=QDP)), 1)
    ctx.WHO_CALLS("D8", PROBE, {HSP}, floor=1)
    ctx.WHO_CALLS("D8", QDP, {FWDC, PROBEC}, floor=2)
    ctx.WHO_CALLS("D8", CONN + "::stall_probe_due", {PROBEC}, floor=1)
    # stall_probe_due: true iff the incremented counter reaches N, and then it is reset
    spd = ctx.fn(CONN + "::stall_probe_due", "D8")
    if spd:
        ai = AbsInt(ctx.w)
        ai.snapshot_stores = True
        e = Entry().sym("k", 0, 99)
        e.pointee(1, Num("u32", 0, 99, False, ("s", "k")), (("f", "stall_probe_counter"),))
        ret, mem = ai.run(spd, e)
        cell = (ai.top_frame, 1, ("deref", ("f", "stall_probe_counter")))
        ex = mem.get(cell)
        ok = isinstance(ex, Num) and ex.lo >= 0 and ex.hi <= 99
        ctx.chk.ob("D8", "probe counter stays in 0..99 (inductive): one probe per 100 routed packets per gated link", ok, "entry [0,99] -> exit %r" % (ex,), key="D8:counter-range")
        # `true` is returned exactly on the branch where the incremented counter reached 100, and that branch restarts it
        pa = ctx.pa(spd)
        thr = pa.lit(("bin", "Lt", ("field", ("param", 1), CONN, "stall_probe_counter"), ("const", 100, "u32"), "u32"))
        okp = True
        seen = set()
        for d in pa.fa.defs.get(0, []):
            if d[2] != "assign":
                okp = False
                continue
            v = pa.fa.val_rvalue(d[3], (d[0], d[1]))
            pcb = pa.pc_block(d[0])
            zero_here = any(pa.fa.val_rvalue(s_["rv"], (b_, i_)) == ("const", 0, "u32") for (b_, i_, s_) in field_stores(spd, CONN, "stall_probe_counter") if b_ == d[0])
            if v == ("const", True, "bool"):
                seen.add(True)
                okp = okp and pa.equivalent(pcb, pa.bdd.NOT(thr)) and zero_here
            elif v == ("const", False, "bool"):
                seen.add(False)
                okp = okp and pa.equivalent(pcb, thr) and not zero_here
            else:
                okp = False
        inc = [s_ for (b_, i_, s_) in field_stores(spd, CONN, "stall_probe_counter") if b_ != 0 or True]
        first = field_stores(spd, CONN, "stall_probe_counter")
        inc_ok = bool(first) and pa.fa.val_rvalue(first[0][2]["rv"], (first[0][0], first[0][1])) == \
            ("bin", "Add", ("const", 1, "u32"), ("field", ("param", 1), CONN, "stall_probe_counter"), "u32") and pa.pc_at(first[0][0], first[0][1]) == pa.bdd.TRUE
        ctx.chk.ob("D8", "a probe is due iff the counter, incremented on every call, reached 100 - and the counter then restarts", okp and seen == {True, False} and inc_ok,
                   "", key="D8:probe-due-predicate")


def _iteration_exits(pa2, cfg, site_bb):
    """Condition of finishing the current iteration (back edge of the innermost loop around site) or the function."""
    b = pa2.bdd
    out = pa2.pc_return()
    loop = cfg.innermost_loop_of(site_bb)
    # await poll loops are inner loops: take every back edge whose loop contains the site and more than the poll
    for (t, h) in cfg.back_edges():
        body = cfg.loop_body(h)
        if site_bb in body:
            out = b.OR(out, pa2.edge_cond(t, h))
    return out


def d9_send_failure_discipline(ctx):
    callers = [FWDC, PROBEC, FLUSHC]
    ctx.WHO_CALLS("D9", SCB, set(callers), floor=3)
    for st in callers:
        f = ctx.fn(st, "D9")
        if not f:
            continue
        pa = ctx.pa(f)
        cfg = ctx.cfg(f)
        for (bb, t) in calls_to(f, stable=SCB):
            nst = len(f.blocks[bb]["stmts"])
            conn = pa.fa.val_operand(t["args"][0], (bb, nst))
            marks = [(mb, mt) for (mb, mt) in calls_to(f, stable=CONN + "::mark_for_recovery")
                     if _same_link(pa.fa.val_operand(mt["args"][0], (mb, len(f.blocks[mb]["stmts"]))), conn)]
            # the Err arm of matching the awaited result of this very future
            arms = result_arms(f, pa.fa, lambda e: is_awaited_result_of(e, SCB, bb))
            arms = [(sbb, a) for (sbb, a) in arms if "Err" in a]
            if not arms:
                ctx.chk.ob("D9", "%s inspects the result of the batch send" % sname(st), False, "the Result of send_connection_batch is never matched",
                           key="D9:send-error-not-recovered:%s" % st, loc=t.get("loc"))
                continue
            mark_blocks = [mb for (mb, _m) in marks]
            ok = bool(marks)
            detail = "%d recovery site(s) on that link" % len(marks)
            for (sbb, a) in arms:
                reach = cfg.reach_from(a["Err"], avoid=mark_blocks)
                exits = set(cfg.returns)
                for (tb, h) in cfg.back_edges():
                    if bb in cfg.loop_body(h) and a["Err"] in cfg.loop_body(h):
                        exits.add(tb)
                leak = sorted(reach & exits)
                if a["Err"] in mark_blocks:
                    leak = []
                if leak:
                    ok = False
                    detail += " ; the Err arm (bb%d) completes the iteration / returns (bb%s) without mark_for_recovery" % (a["Err"], leak[0])
            ctx.chk.ob("D9", "%s: a failed batch send always resets the link (mark_for_recovery on the same connection)" % sname(st), ok,
                       detail + " ; take_batch registered the drained packets in flight optimistically, so they would stay counted although never sent",
                       key="D9:send-error-not-recovered:%s" % st, loc=t.get("loc"))


def _same_link(a, b):
    if a == b:
        return True
    # `conn = &mut connections[sel_idx]` vs `connections[sel_idx]`
    return False


RULES = [d1_payload_identity, d2_once, d3_no_silent_drop, d4_fifo_and_pairing, d5_who_discards, d6_drained_is_sent, d7_flush_points,
         d8_probes, d9_send_failure_discipline]


def run(ctx):
    ctx.chk.not_decided = ["the 15 ms real-time bound (tokio timer scheduling, MissedTickBehavior::Skip)",
                           "what the kernel does with sendmmsg; byte equality on the wire (decided: the same immutable slice is handed over)"]
    ctx.run_rules(RULES)
