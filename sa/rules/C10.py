"""C10 - classic mode reproduces the reference srtla_send algorithm.

D1 inputs of a classic decision: R(classic::select_connection) is capacity + eligibility state only;
D2 score = window / max(1, sat(in_flight + queued) + 1) with integer division, strict `>` in an ascending scan, initial best -1;
D3 window rules: +29 capped when in_flight*1000 > window; global +1 capped on connected links that have received;
   -100 floored per charged NAK; the classic writer is chosen exactly when the mode is classic;
   `connected => last_received.is_some()` is kept by every writer (so "+1 on every connected link" is exact);
D4 no time-based recovery in classic (shared with C06.D5);
D5 no other influence on the route: every non-scheduler source of the routing index is guarded by !classic.
"""
from ..absint import AbsInt, Entry, Num
from ..ctx import CONN, is_call, is_field, sname, some_of
from ..expr import show, strip_old, walk
from ..pathcond import calls_to, field_stores
from . import C03, C06
from .route import routing_sources

from .. import roles

from ..roles import upvar_index  # noqa: E402

LEVEL = "other"
CLASSIC = C03.CLASSIC
CC = C06.CC
CLASSIC_ACK = "srtla_core::connection::congestion::classic::handle_srtla_ack_specific"

ALLOWED_R = {
    (CONN, "connected"), (CONN, "window"), (CONN, "in_flight_packets"), (CONN, "batch_sender"), (CONN, "phase"),
    (CONN, "stall_gated"), (CONN, "last_received"), (CONN, "conn_timeout_ms"), (CONN, "reconnection"),
    ("srtla_core::connection::batch_send::BatchSender", "queue"),
    ("srtla_core::connection::reconnection::ReconnectionState", "connection_established_ms"),
    ("srtla_core::connection::reconnection::ReconnectionState", "startup_grace_deadline_ms"),
}


def d1_inputs(ctx):
    f = ctx.fn(CLASSIC, "D1")
    if not f:
        return
    ctx.EFFECT_R_SUBSET("D1", f, lambda k: k in ALLOWED_R or k[0].startswith("srtla_core::connection::LinkPhase"),
                        "{connected, window, in_flight, queued count, phase, stall_gated, liveness inputs}")
    ctx.chk.floor("D1", "bodies reachable from the classic selector", len(ctx.eff.reachable(f.id)), 5)
    # no hysteresis input: two parameters (links, clock)
    ctx.chk.ob("D1", "classic selector takes (links, clock) only - no previous index", f.argc == 2, "argc = %d" % f.argc, key="D1:no-last-idx")
    ctx.REACHES_NOT("D1", f, lambda p: any(m in p for m in ("now_ms", "Instant::now", "SystemTime", "rand::", "thread_rng")), "clock / RNG")


def d2_score_and_argmax(ctx):
    gs = ctx.fn(CONN + "::get_score", "D2")
    if gs:
        pa = ctx.pa(gs)
        val = None
        for bi, blk in enumerate(gs.blocks):
            for si, s in enumerate(blk["stmts"]):
                if s["k"] == "assign" and s["p"]["l"] == 0 and not s["p"]["proj"]:
                    v = pa.fa.val_rvalue(s["rv"], (bi, si))
                    if v[0] != "const":
                        val = v
        want_ok = False
        if val is not None and val[0] == "bin" and val[1] == "Div" and val[4] == "i32" and is_field(val[2], "window", CONN):
            den = val[3]
            # max(saturating_add(saturating_add(in_flight, queued_count(batch_sender)), 1), 1)
            if is_call(den, name_contains="Ord::max") and den[2][1] == ("const", 1, "i32"):
                inner = den[2][0]
                if is_call(inner, name_contains="saturating_add") and inner[2][1] == ("const", 1, "i32"):
                    tot = inner[2][0]
                    if is_call(tot, name_contains="saturating_add") and is_field(tot[2][0], "in_flight_packets", CONN) \
                            and is_call(tot[2][1], name_contains="queued_count"):
                        want_ok = True
        ctx.chk.ob("D2", "score = window / max(1, sat(in_flight + queued) + 1), i32 division", want_ok,
                   "extracted %s" % (show(val, gs.names) if val else None), key="D2:score-formula")
        qc = ctx.fn("srtla_core::connection::batch_send::BatchSender::queued_count", "D2")
        if qc:
            qpa = ctx.pa(qc)
            rv = [qpa.fa.val_local(0, (r, len(qc.blocks[r]["stmts"]))) for r in ctx.cfg(qc).returns]
            ok = len(rv) == 1 and rv[0][0] == "cast" and rv[0][1] == "i32" and any(is_field(x, "queue") for x in walk(rv[0]))
            ctx.chk.ob("D2", "queued_count is the queue length", ok, "returns %s" % [show(v, qc.names) for v in rv], key="D2:queued-count")
    f = ctx.fn(CLASSIC, "D2")
    if f:
        pa = ctx.pa(f)
        fa = pa.fa
        # ascending scan over all links
        it = [t for (bb, t) in f.calls() if "Iterator::enumerate" in t["f"].get("path", "")]
        ok = False
        if len(it) == 1:
            for (bb, t) in f.calls():
                if t is it[0]:
                    v = fa.val_operand(t["args"][0], (bb, len(f.blocks[bb]["stmts"])))
                    ok = is_call(v, name_contains="<impl [T]>::iter") and v[2] == (("param", 1),)
        ctx.chk.ob("D2", "classic scans conns.iter().enumerate() (ascending, all links)", ok, "", key="D2:ascending-scan")
        b0 = roles.running_extreme(ctx.w, f, None, tys=("i32",), hint="best_score")
        bl = [b0] if b0 is not None else []
        cmp_ok = False
        if bl:
            for a in pa.bdd.vars:
                if a[0] == "bin" and a[1] == "Lt" and a[4] == "i32" and a[2][0] == "var" and a[2][1] == bl[0] and is_call(a[3], stable=CONN + "::get_score"):
                    cmp_ok = True
        ctx.chk.ob("D2", "best is replaced only by a strictly larger score (first maximum wins)", cmp_ok, "", key="D2:strict-greater")
    C03.d5_initial_best(ctx)


def _w():
    return Num("i32", 1000, 60000, False, ("s", "w"))


def _equiv(ai, sym, want):
    return sym is not None and ai.symenv.le(sym, want) and ai.symenv.le(want, sym)


def d3_window_rules(ctx):
    # classic ACK: +29 capped, only when sat_mul(in_flight, 1000) > window
    f = ctx.fn(CLASSIC_ACK, "D3")
    if f:
        ai = AbsInt(ctx.w)
        ai.run(f, Entry().sym("w", 1000, 60000).pointee(1, _w()))
        cell = (ai.top_frame, 1, ("deref",))
        st = [s for s in ai.stores if s.cell == cell]
        want = ("min", ("+", ("s", "w"), ("c", 29)), ("c", 60000))
        ok = len(st) == 1 and isinstance(st[0].value, Num) and _equiv(ai, st[0].value.sym, want)
        ctx.chk.ob("D3", "classic ACK: window := min(window + 29, 60000)", ok, "stores: %s" % [repr(s.value) for s in st], key="D3:classic-ack-value")
        pa = ctx.pa(f)
        ok = False
        for s in st:
            pc = pa.pc_at(s.bb, s.si)
            for a in pa.atoms_of(pc):
                if a[0] == "bin" and a[1] == "Lt" and a[2] == ("param", 1) and is_call(a[3], name_contains="saturating_mul") \
                        and a[3][2][0] == ("param", 2) and a[3][2][1][0] in ("const", "constdef") and pa.entails(pc, pa.atom(a)):
                    ok = a[3][2][1] == ("const", 1000, "i32")
        ctx.chk.ob("D3", "classic ACK grows only when in_flight x 1000 > window", ok, "", key="D3:classic-ack-guard")
    # ... and the in_flight it is given is the link's registered in-flight count (not in-flight + queued, which is what the *score*
    # counts): every call chain from the connection down to the rule passes self.in_flight_packets / its own parameter unchanged,
    # together with the link's own window
    WR = CC + "::handle_srtla_ack_specific_classic"
    n_chain = 0
    for g_ in ctx.w.fns.values():
        for (bb, t) in g_.calls():
            st_ = t["f"].get("stable", "")
            if st_ not in (WR, CLASSIC_ACK) or "::tests" in g_.stable:
                continue
            n_chain += 1
            gfa = ctx.fa(g_)
            n_ = len(g_.blocks[bb]["stmts"])
            args = [strip_old(gfa.val_operand(a, (bb, n_))) for a in t["args"]]
            off = 1 if st_ == WR else 0
            wv, iv = args[off], args[off + 1]
            if g_.stable == WR:
                okc = wv == ("param", 2) and iv == ("param", 3)
            else:
                okc = is_field(wv, "window", CONN) and is_field(iv, "in_flight_packets", CONN) and wv[1] == iv[1]
            ctx.chk.ob("D3", "%s hands the classic ACK rule the link's own window and registered in-flight count" % sname(g_.stable), okc,
                       "window <- %s ; in_flight <- %s" % (show(wv, g_.names)[:60], show(iv, g_.names)[:80]), key="D3:classic-ack-args:%s" % g_.stable, loc=t.get("loc"))
    ctx.chk.floor("D3", "call sites on the way to the classic ACK rule", n_chain, 2)
    ctx.WHO_CALLS("D3", CLASSIC_ACK, {WR}, floor=1)
    ctx.WHO_CALLS("D3", WR, {CONN + "::handle_srtla_ack_specific"}, floor=1)
    # global +1
    g = ctx.fn(CONN + "::handle_srtla_ack_global", "D3")
    if g:
        ai, cell = C06._run(ctx, g, ("self",))
        st = [s for s in ai.stores if s.cell == cell]
        want = ("min", ("+", ("s", "w"), ("c", 1)), ("c", 60000))
        ok = len(st) == 1 and isinstance(st[0].value, Num) and _equiv(ai, st[0].value.sym, want)
        ctx.chk.ob("D3", "global ACK: window := min(window + 1, 60000)", ok, "stores: %s" % [repr(s.value) for s in st], key="D3:global-ack-value")
        pa = ctx.pa(g)
        for s in st:
            pc = pa.pc_at(s.bb, s.si)
            c1 = [fm for (a, fm) in pa.find(lambda a: is_field(a, "connected", CONN))]
            c2 = [fm for (a, fm) in some_of(pa, lambda x: is_field(x, "last_received", CONN))]
            ok = bool(c1) and bool(c2) and pa.entails(pc, c1[0]) and pa.entails(pc, c2[0]) and \
                pa.entails(pa.bdd.AND(c1[0], c2[0]), pc)
            ctx.chk.ob("D3", "global +1 applies exactly when connected & last_received.is_some()", ok, "PC = %s" % pa.show(pc), key="D3:global-ack-guard")
    # NAK rule
    n = ctx.fn(CC + "::handle_nak", "D3")
    if n:
        ai = AbsInt(ctx.w)
        ai.run(n, Entry().sym("w", 1000, 60000).pointee(2, _w()))
        cell = (ai.top_frame, 2, ("deref",))
        st = [s for s in ai.stores if s.cell == cell]
        want = ("max", ("-", ("s", "w"), ("c", 100)), ("c", 1000))
        ok = len(st) == 1 and isinstance(st[0].value, Num) and _equiv(ai, st[0].value.sym, want)
        ctx.chk.ob("D3", "NAK: window := max(window - 100, 1000)", ok, "stores: %s" % [repr(s.value) for s in st], key="D3:nak-value")
    # mode dispatch inside the connection
    h = ctx.fn(CONN + "::handle_srtla_ack_specific", "D3")
    if h:
        pa = ctx.pa(h)
        CM = pa.atom(("param", 3))
        for st_, pos in ((CC + "::handle_srtla_ack_specific_classic", True), (CC + "::handle_srtla_ack_enhanced", False)):
            sites = calls_to(h, stable=st_)
            ctx.chk.floor("D3", "call sites of %s" % sname(st_), len(sites), 1)
            for (bb, t) in sites:
                ctx.GUARD("D3", h, bb, len(h.blocks[bb]["stmts"]), [("classic_mode" if pos else "!classic_mode", CM if pos else pa.bdd.NOT(CM))],
                          "call %s" % sname(st_), key="D3:writer-by-mode:%s" % st_)
    # the flag passed down is the configured mode
    pce = ctx.fn("srtla_send::sender::packet_handler::process_connection_events::{closure#0}", "D3")
    if pce:
        fa = ctx.fa(pce)
        ci = [i for i in [upvar_index(pce, "classic")] if i is not None]
        sites = calls_to(pce, stable=CONN + "::handle_srtla_ack_specific")
        ctx.chk.floor("D3", "handle_srtla_ack_specific call sites in process_connection_events", len(sites), 2)
        for (bb, t) in sites:
            v = fa.val_operand(t["args"][2], (bb, len(pce.blocks[bb]["stmts"])))
            ctx.chk.ob("D3", "per-packet ACK handler receives the caller's classic flag", bool(ci) and v == ("upvar", ci[0]), "argument %s" % show(v, pce.names),
                       key="D3:classic-flag-forwarded", loc=t.get("loc"))
    hup = ctx.fn("srtla_send::sender::packet_handler::handle_uplink_packet::{closure#0}", "D3")
    if hup:
        fa = ctx.fa(hup)
        for (bb, t) in calls_to(hup, stable="srtla_send::sender::packet_handler::process_connection_events"):
            v = fa.val_operand(t["args"][5], (bb, len(hup.blocks[bb]["stmts"])))
            ok = is_call(v, name_contains="::is_classic") and any(is_field(x, "mode") for x in walk(v))
            ctx.chk.ob("D3", "classic flag = config_snap.mode.is_classic()", ok, "argument %s" % show(v, hup.names), key="D3:classic-flag-origin", loc=t.get("loc"))
    connected_implies_received(ctx, "D3")


def connected_implies_received(ctx, rule):
    """Representation invariant of the liveness test: connected => last_received.is_some().  (is_timed_out of a connected link is
    `last_received is Some & now - last_received >= timeout`: a connected link without a receive stamp can never time out.)"""
    # paired stores: connected => last_received.is_some()
    eff = ctx.eff
    n_true = 0
    for a in eff.writers_of(CONN, "connected", ("store",), include_inner=False):
        stt = a.fn.blocks[a.bb]["stmts"][a.si]
        v = stt["rv"].get("o", {}).get("val") if stt["rv"]["k"] == "use" else None
        if v is True:
            n_true += 1
            cfg = ctx.cfg(a.fn)
            # a stamp on the same path: after the store (post-dominating) or before it (dominating, with no `None` store in between)
            allst = field_stores(a.fn, CONN, "last_received")
            nones = [b for (b, i, s) in allst if ctx.fa(a.fn).val_rvalue(s["rv"], (b, i))[2:3] and str(ctx.fa(a.fn).val_rvalue(s["rv"], (b, i))[2]).endswith("::None")]
            lr = [(b, i, s) for (b, i, s) in allst if cfg.postdominates(b, a.bb) or b == a.bb or
                  (cfg.dominates(b, a.bb) and not any(cfg.can_reach(b, nb) and cfg.can_reach(nb, a.bb) and nb != b for nb in nones))]
            fa = ctx.fa(a.fn)
            some = [1 for (b, i, s) in lr if fa.val_rvalue(s["rv"], (b, i))[0] == "agg" and fa.val_rvalue(s["rv"], (b, i))[2].endswith("::Some")]
            ctx.chk.ob(rule, "connected := true is followed by last_received := Some(..) (%s)" % sname(a.fn.stable), bool(some), "",
                       key="%s:connected-implies-received:%s" % (rule, a.fn.stable), loc=a.loc)
    ctx.chk.floor(rule, "connected := true stores", n_true, 1)
    for a in eff.writers_of(CONN, "last_received", ("store",), include_inner=False):
        fa = ctx.fa(a.fn)
        stt = a.fn.blocks[a.bb]["stmts"][a.si]
        v = fa.val_rvalue(stt["rv"], (a.bb, a.si))
        if v[0] == "agg" and v[2].endswith("::None"):
            cfg = ctx.cfg(a.fn)
            # the same path also clears connected (directly or through reset_core_state)
            direct = [1 for (b, i, s) in field_stores(a.fn, CONN, "connected") if s["rv"]["k"] == "use" and s["rv"]["o"].get("val") is False and
                      (cfg.dominates(b, a.bb) or cfg.postdominates(b, a.bb) or b == a.bb)]
            via = [1 for (b, t) in calls_to(a.fn, stable=CONN + "::reset_core_state") if cfg.postdominates(b, a.bb) or cfg.dominates(b, a.bb)]
            ctx.chk.ob(rule, "last_received := None comes with connected := false (%s)" % sname(a.fn.stable), bool(direct or via), "",
                       key="%s:none-received-implies-disconnected:%s" % (rule, a.fn.stable), loc=a.loc)


def d3b_per_packet_order(ctx):
    """The reference applies, for each acknowledged number in turn: the earned +29 on the owning link, then +1 on every link.
    The +29 guard reads the window, so the interleaving is part of the window evolution (shared with C02.D5)."""
    from . import C02
    C02.d5_srtla_ack_attribution(ctx, rule="D3b")


def d4_no_time_recovery(ctx):
    C06.d5_classic_no_time_recovery(ctx)


def d5_no_other_route_influence(ctx):
    r = routing_sources(ctx, "D5")
    if r is None:
        return
    fn, pa, post, pre, sources, RC = r
    cl = pa.find(lambda a: is_call(a, name_contains="::is_classic") and any(is_field(x, "mode") for x in walk(a)))
    for s in sources:
        if s.kind == "selector":
            continue
        ok = False
        for (a, f) in cl:
            if pa.entails(s.pc, pa.bdd.NOT(f)):
                ok = True
        ctx.chk.ob("D5", "non-scheduler routing source (%s) is disabled in classic mode" % sname(s.producer or "?"), ok,
                   "guard at the override: %s" % pa.show(pa.bdd.simplify(s.pc, pa.pc_block(post[0])), 6),
                   key="D5:override-not-mode-guarded:%s" % (s.producer or "expr"),
                   loc=fn.blocks[s.point[0]]["stmts"][s.point[1]].get("loc") if s.point != "entry" and s.point[1] < len(fn.blocks[s.point[0]]["stmts"]) else None)
    # the scheduler itself dispatches on the mode
    sel = ctx.fn(C03.GATE.replace("apply_stall_gate", "select_connection_idx"), "D5")
    if sel:
        spa = ctx.pa(sel)
        for st_, want in ((C03.CLASSIC, "Classic"), (C03.ENH, "Enhanced")):
            for (bb, t) in calls_to(sel, stable=st_):
                pc = spa.pc_block(bb)
                m = [spa.is_atom(("is", a[1], want)) for a in spa.bdd.vars if a[0] == "is" and is_field(a[1], "mode")]
                ok = bool(m) and spa.entails(pc, m[0])
                ctx.chk.ob("D5", "%s selector runs exactly in %s mode" % (sname(st_), want), ok, "PC = %s" % spa.show(pc), key="D5:mode-dispatch:%s" % want)


RULES = [d1_inputs, d2_score_and_argmax, d3_window_rules, d3b_per_packet_order, d4_no_time_recovery, d5_no_other_route_influence]


def run(ctx):
    ctx.chk.not_decided = ["lock-step equality with an executable reference model over histories (the reference rules are decided "
                           "clause by clause: selector inputs and formula, each window rule, mode dispatch, no recovery, no override)"]
    ctx.run_rules(RULES)
