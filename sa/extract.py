"""Run mirfacts over a checkout and cache the fact files by content hash.

Facts are always re-derived from the *current* sources: the cache key is a
SHA-256 over every file that can influence the build (all *.rs, Cargo.toml,
Cargo.lock, build.rs, .cargo/config.toml) plus the driver binary itself, so any
edit under /repo forces a new extraction.
"""
import fcntl
import hashlib
import os
import shutil
import subprocess
import sys
import time

VERIF = os.path.dirname(os.path.dirname(os.path.abspath(__file__)))
CACHE = os.path.join(VERIF, ".cache")
DRIVER = os.path.join(VERIF, "driver", "target", "release", "mirfacts")
MEMBERS = ["srtla_send", "srtla-core", "srtla-protocol", "network-sim"]
EXPECTED = ["srtla_core-lib.json", "srtla_protocol-lib.json", "srtla_send-lib.json",
            "srtla_send-bin.json", "network_sim-lib.json"]

CONFIGS = {
    "prod": {"rustflags": "-Awarnings", "cargo": []},
    "prod-release": {"rustflags": "-Awarnings -C debug-assertions=off -C overflow-checks=off", "cargo": []},
    "testint": {"rustflags": "-Awarnings", "cargo": ["--features", "test-internals"]},
}


class ExtractError(Exception):
    pass


def source_hash(repo):
    h = hashlib.sha256()
    files = []
    for root, dirs, fs in os.walk(repo):
        dirs[:] = sorted(d for d in dirs if d not in ("target", ".git", "node_modules"))
        for f in sorted(fs):
            full = os.path.join(root, f)
            rel = os.path.relpath(full, repo)
            if f.endswith(".rs") or f in ("Cargo.toml", "Cargo.lock", "build.rs") or rel == os.path.join(".cargo", "config.toml"):
                files.append((rel, full))
    for rel, full in files:
        h.update(rel.encode())
        h.update(b"\0")
        with open(full, "rb") as fh:
            h.update(fh.read())
        h.update(b"\0")
    with open(DRIVER, "rb") as fh:
        h.update(hashlib.sha256(fh.read()).digest())
    return h.hexdigest()[:24], len(files)


def sysroot():
    return subprocess.check_output(["rustc", "+nightly", "--print", "sysroot"], text=True).strip()


def facts_for(repo="/repo", config="prod", log=None):
    """Return (facts_dir, info dict). Extracts if the cache has no entry for the current hash."""
    if not os.path.exists(DRIVER):
        raise ExtractError("driver not built: run ./setup.sh")
    os.makedirs(CACHE, exist_ok=True)
    h, nfiles = source_hash(repo)
    out_dir = os.path.join(CACHE, "facts", h, config)
    info = {"src_hash": h, "files_hashed": nfiles, "config": config, "cached": True, "extract_s": 0.0}
    if all(os.path.exists(os.path.join(out_dir, e)) for e in EXPECTED):
        try:
            os.utime(os.path.join(CACHE, "facts", h))  # keep entries in use young for _prune_cache
        except OSError:
            pass
        return out_dir, info
    lock_path = os.path.join(CACHE, "lock")
    with open(lock_path, "w") as lock:
        fcntl.flock(lock, fcntl.LOCK_EX)
        try:
            if all(os.path.exists(os.path.join(out_dir, e)) for e in EXPECTED):
                return out_dir, info
            t0 = time.time()
            tmp = os.path.join(CACHE, "facts", h, config + ".tmp.%d" % os.getpid())
            shutil.rmtree(tmp, ignore_errors=True)
            os.makedirs(tmp)
            cfg = CONFIGS[config]
            target = os.path.join(CACHE, "target")
            env = dict(os.environ)
            env.update({
                "LD_LIBRARY_PATH": os.path.join(sysroot(), "lib"),
                "RUSTFLAGS": cfg["rustflags"],
                "RUSTC_WORKSPACE_WRAPPER": DRIVER,
                "MIRFACTS_OUT": tmp,
                "MIRFACTS_CONFIG": config,
                "MIRFACTS_SRC_HASH": h,
                "CARGO_TARGET_DIR": target,
                "CARGO_NET_OFFLINE": "true",
                "CARGO_INCREMENTAL": "0",
            })
            env.pop("RUSTC_WRAPPER", None)
            # cargo's freshness cache would skip the wrapper: drop the members' fingerprints.
            fpdir = os.path.join(target, "debug", ".fingerprint")
            if os.path.isdir(fpdir):
                for d in os.listdir(fpdir):
                    if any(d.startswith(m + "-") for m in MEMBERS):
                        shutil.rmtree(os.path.join(fpdir, d), ignore_errors=True)
            cmd = ["cargo", "+nightly", "check", "--offline", "--workspace", "--lib", "--bins"] + cfg["cargo"]
            p = subprocess.run(cmd, cwd=repo, env=env, stdout=subprocess.PIPE, stderr=subprocess.STDOUT, text=True)
            if log is not None:
                log.write(p.stdout)
            if p.returncode != 0:
                shutil.rmtree(tmp, ignore_errors=True)
                raise ExtractError("cargo check failed in %s (config %s):\n%s" % (repo, config, p.stdout[-4000:]))
            missing = [e for e in EXPECTED if not os.path.exists(os.path.join(tmp, e))]
            if missing:
                shutil.rmtree(tmp, ignore_errors=True)
                raise ExtractError("fact files missing after extraction: %s\n%s" % (missing, p.stdout[-2000:]))
            shutil.rmtree(out_dir, ignore_errors=True)
            os.rename(tmp, out_dir)
            info["cached"] = False
            info["extract_s"] = round(time.time() - t0, 2)
            _prune_cache(keep=h)
            return out_dir, info
        finally:
            fcntl.flock(lock, fcntl.LOCK_UN)


def _prune_cache(keep, max_entries=48):
    """Keep the fact cache small: newest `max_entries` hashes only."""
    base = os.path.join(CACHE, "facts")
    try:
        ents = [(os.path.getmtime(os.path.join(base, d)), d) for d in os.listdir(base)]
    except OSError:
        return
    ents.sort(reverse=True)
    now = time.time()
    for mt, d in ents[max_entries:]:
        if d != keep and now - mt > 600:  # never evict an entry another process may be about to load
            shutil.rmtree(os.path.join(base, d), ignore_errors=True)


if __name__ == "__main__":
    repo = sys.argv[1] if len(sys.argv) > 1 else "/repo"
    config = sys.argv[2] if len(sys.argv) > 2 else "prod"
    try:
        d, info = facts_for(repo, config, log=sys.stderr if os.environ.get("VERBOSE") else None)
    except ExtractError as e:
        print(e, file=sys.stderr)
        sys.exit(2)
    print(d, info)
