"""C13 - stall latch: quick to drop, conservative to rejoin, never blind.

D1 engage guard (is_stalled | pulled & proof fully stale), never latched without proof, events counted on the rising edge only;
D2 effective staleness window = srtt <= 0 ? ceiling : min(max(sat_mul(srtt as u64, 4), 1000), ceiling);
D3 release only after the dwell (2x window) of fresh proof, or by clear_stall_latch (guard off) / reset_core_state;
D4 continuity: every decision where proof is not fresh (or the latch re-engages) restarts the dwell; the latch is driven on every
   guard-on selection pass for every link, pull update first;
D5 silence pull: set only under is_briefly_silent, released only when the link spoke or disconnected; window = min(max(2*srtt, 250), eff);
D6 proof stamps: only an earned SRTLA ACK and an answered keepalive (shared with C09.D4);
D7 "heard from again" must mean this link: the pull's release predicate may read only state that no cross-link (broadcast) handler can write.
"""
from ..ctx import full_slice_element, CONN, is_call, is_field, is_iter_next, sname
from ..expr import show, strip_old, walk
from ..pathcond import PathA, calls_to, field_stores
from . import C03, C05

from ..roles import upvar_index  # noqa: E402

LEVEL = "other"
USL = CONN + "::update_stall_latch"
USP = CONN + "::update_silence_pull"
EFF = CONN + "::effective_stall_stale_ms"
S = ("param", 1)
NOW = ("param", 2)
K = "srtla_core::config_snapshot::"
SATSUB = "core::num::<impl u64>::saturating_sub"
SATMUL = "core::num::<impl u64>::saturating_mul"


def fld(n):
    return ("field", S, CONN, n)


def call(path, *args, stable=None):
    return ("call", path, tuple(args), None, stable)


def _latch_formulas(pa):
    b = pa.bdd
    eff = call("connection::SrtlaConnection::effective_stall_stale_ms", S, ("param", 4), stable=EFF)
    proof0 = pa.lit(("bin", "Eq", ("const", 0, "u64"), fld("last_ack_or_rtt_sample_ms"), "u64"))
    fresh = pa.lit(("bin", "Lt", call(SATSUB, NOW, fld("last_ack_or_rtt_sample_ms")), eff, "u64"))
    since0 = pa.lit(("bin", "Eq", ("const", 0, "u64"), fld("stall_latched_since_ms"), "u64"))
    rec0 = pa.lit(("bin", "Eq", ("const", 0, "u64"), fld("stall_recovery_since_ms"), "u64"))
    pulled = pa.lit(fld("silence_pulled"))
    stalled = pa.find(lambda a: is_call(a, stable=CONN + "::is_stalled") and a[2] == (S, NOW, ("param", 3), ("param", 4)))
    IS = stalled[0][1] if stalled else b.FALSE
    dwell = pa.lit(("bin", "Lt", call(SATSUB, NOW, fld("stall_recovery_since_ms")), call(SATMUL, eff, ("const", 2, "u64")), "u64"))
    return dict(eff=eff, proof0=proof0, fresh=fresh, since0=since0, rec0=rec0, pulled=pulled, IS=IS, dwell=dwell,
                engage=b.OR(IS, b.AND(pulled, b.AND(b.NOT(proof0), b.NOT(fresh)))))


def d1_engage(ctx):
    f = ctx.fn(USL, "D1")
    if not f:
        return
    pa = ctx.pa(f)
    b = pa.bdd
    F = _latch_formulas(pa)
    ctx.WHO_WRITES("D1", CONN, "stall_latched_since_ms", {USL, CONN + "::clear_stall_latch", CONN + "::reset_core_state"}, floor=3, allow_agg_in={CONN + "::new_registering"})
    n = 0
    for (bb, si, s) in field_stores(f, CONN, "stall_latched_since_ms"):
        v = pa.fa.val_rvalue(s["rv"], (bb, si))
        if v == ("const", 0, "u64"):
            continue
        n += 1
        pc = pa.pc_at(bb, si)
        ok = v == NOW and pa.entails(pc, F["engage"]) and pa.entails(pc, F["since0"])
        ctx.chk.ob("D1", "the latch engages (:= now) only under is_stalled | (silence_pulled & proof fully stale), from the un-latched state", ok,
                   "PC = %s" % pa.show(pc, 4)[:500], key="D1:engage-guard", loc=s.get("loc"))
    ctx.chk.floor("D1", "latch engage stores", n, 1)
    # never latched without proof: is_stalled itself requires proof != 0
    st = ctx.fn(CONN + "::is_stalled", "D1")
    if st:
        spa = ctx.pa(st)
        rt = spa.ret_true()
        proof0 = spa.lit(("bin", "Eq", ("const", 0, "u64"), fld("last_ack_or_rtt_sample_ms"), "u64"))
        conn = spa.lit(fld("connected"))
        backlog = spa.bdd.NOT(spa.lit(("bin", "Lt", fld("in_flight_packets"), ("param", 3), "i32")))
        eff = call("connection::SrtlaConnection::effective_stall_stale_ms", S, ("param", 4), stable=EFF)
        stale = spa.bdd.NOT(spa.lit(("bin", "Lt", call(SATSUB, NOW, fld("last_ack_or_rtt_sample_ms")), eff, "u64")))
        want = spa.bdd.AND(spa.bdd.AND(conn, backlog), spa.bdd.AND(spa.bdd.NOT(proof0), stale))
        ctx.chk.ob("D1", "is_stalled == connected & in_flight >= min & proof != 0 & now - proof >= effective window", spa.equivalent(rt, want),
                   "RT = %s" % spa.show(rt), key="D1:is-stalled-predicate")
    ev = field_stores(f, CONN, "stall_gate_events")
    # the counter is bumped right after the engage store (which has just overwritten the `since == 0` it was guarded by):
    # tie it to that store by dominance
    cfg = ctx.cfg(f)
    eng = [(bb, si) for (bb, si, s_) in field_stores(f, CONN, "stall_latched_since_ms") if pa.fa.val_rvalue(s_["rv"], (bb, si)) == NOW]
    ok = len(ev) == 1 and len(eng) == 1 and (cfg.dominates(eng[0][0], ev[0][0])) and not cfg.in_cycle(ev[0][0]) and \
        pa.fa.val_rvalue(ev[0][2]["rv"], (ev[0][0], ev[0][1])) == ("bin", "Add", ("const", 1, "u64"), fld("stall_gate_events"), "u64")
    ctx.chk.ob("D1", "engagements are counted on the rising edge only", ok, "", key="D1:events-rising-edge")
    ctx.WHO_WRITES("D1", CONN, "stall_gate_events", {USL}, floor=1, allow_agg_in={CONN + "::new_registering"})


def d2_effective_window(ctx):
    f = ctx.fn(EFF, "D2")
    if not f:
        return
    fa = ctx.fa(f)
    pa = ctx.pa(f)
    rets = []
    for bi, blk in enumerate(f.blocks):
        for si, s in enumerate(blk["stmts"]):
            if s["k"] == "assign" and s["p"]["l"] == 0 and not s["p"]["proj"]:
                rets.append((fa.val_rvalue(s["rv"], (bi, si)), pa.pc_at(bi, si)))
    for bi, t in f.calls():
        if not t["dest"]["proj"] and t["dest"]["l"] == 0:
            rets.append((fa._val_call(t, (bi, len(f.blocks[bi]["stmts"])), 0), pa.pc_block(bi)))
    srtt = call("connection::SrtlaConnection::get_smooth_rtt_ms", S, stable=CONN + "::get_smooth_rtt_ms")
    nobase = pa.lit(("bin", "Le", srtt, ("const", 0.0, "f64"), "f64"))
    ok_c = ok_f = False
    for (v, pc) in rets:
        if v == ("param", 2):
            ok_c = pa.equivalent(pc, nobase)
        elif is_call(v, name_contains="Ord::min") and v[2][1] == ("param", 2):
            inner = v[2][0]
            if is_call(inner, name_contains="Ord::max") and inner[2][1] == ("const", 1000, "u64"):
                m = inner[2][0]
                if is_call(m, name_contains="saturating_mul") and m[2][1] == ("const", 4, "u64") and m[2][0] == ("cast", "u64", srtt, "f64"):
                    ok_f = pa.equivalent(pc, pa.bdd.NOT(nobase))
    ctx.chk.ob("D2", "no RTT baseline (srtt <= 0): the window is the configured ceiling", ok_c, "", key="D2:window-no-baseline")
    ctx.chk.ob("D2", "otherwise window = min(max(sat_mul(srtt as u64, 4), 1000), ceiling): never above the ceiling", ok_f,
               "returns %s" % [show(v, f.names)[:120] for v, _ in rets], key="D2:window-formula")
    ctx.CONST("D2", K + "STALL_STALE_RTT_MULT", 4)
    ctx.CONST("D2", K + "STALL_STALE_FLOOR_MS", 1000)


def d3_release(ctx):
    f = ctx.fn(USL, "D3")
    if not f:
        return
    pa = ctx.pa(f)
    b = pa.bdd
    F = _latch_formulas(pa)
    n = 0
    for (bb, si, s) in field_stores(f, CONN, "stall_latched_since_ms"):
        v = pa.fa.val_rvalue(s["rv"], (bb, si))
        if v != ("const", 0, "u64"):
            continue
        n += 1
        pc = pa.pc_at(bb, si)
        need = [("proof exists", b.NOT(F["proof0"])), ("proof is fresh", F["fresh"]), ("latched", b.NOT(F["since0"])), ("not stalled", b.NOT(F["IS"])),
                ("fresh proof has lasted >= 2 x window", b.NOT(F["dwell"]))]
        for (label, fm) in need:
            ok = pa.entails(pc, fm)
            ctx.chk.ob("D3", "the latch releases only when: %s" % label, ok, "PC = %s" % pa.show(pc, 3)[:400], key="D3:release-guard:%s" % label.replace(" ", "-"), loc=s.get("loc"))
    ctx.chk.floor("D3", "latch release stores in update_stall_latch", n, 1)
    ctx.CONST("D3", K + "STALL_REJOIN_DWELL_MULT", 2)
    ctx.WHO_CALLS("D3", CONN + "::clear_stall_latch", {C03.GATE}, floor=1)
    # the dwell multiplier in the code is the constant
    mul = pa.find(lambda a: a[0] == "bin" and a[1] == "Lt" and is_call(a[3], name_contains="saturating_mul"))
    ctx.chk.ob("D3", "the dwell is sat_mul(effective window, STALL_REJOIN_DWELL_MULT)", any(a[3][2][1] == ("const", 2, "u64") and is_call(a[3][2][0], stable=EFF) for (a, fm) in mul), "", key="D3:dwell-formula")


def d4_continuity(ctx):
    f = ctx.fn(USL, "D4")
    if not f:
        return
    pa = ctx.pa(f)
    zeros = [(bb, si) for (bb, si, s) in field_stores(f, CONN, "stall_recovery_since_ms") if pa.fa.val_rvalue(s["rv"], (bb, si)) == ("const", 0, "u64")]
    ctx.chk.floor("D4", "dwell-restart stores (stall_recovery_since_ms := 0)", len(zeros), 3)
    pa2 = PathA(ctx.w, f, avoid=set(bb for (bb, si) in zeros))
    F = _latch_formulas(pa2)
    b = pa2.bdd
    pcr = pa2.pc_return()
    allowed = b.AND(b.NOT(F["engage"]), b.OR(F["since0"], b.AND(b.NOT(F["proof0"]), F["fresh"])))
    ok = pa2.entails(pcr, allowed)
    ctx.chk.ob("D4", "a decision leaves the dwell running only if the latch is not (re-)engaging and proof is fresh (or the link is not latched)", ok,
               "dwell kept under %s" % pa2.show(pcr, 4)[:400] + ("" if ok else " ; e.g. %s" % pa2.counterexample(pcr, allowed)), key="D4:lapse-restarts-dwell")
    F1 = _latch_formulas(pa)
    for (bb, si, s) in field_stores(f, CONN, "stall_recovery_since_ms"):
        v = pa.fa.val_rvalue(s["rv"], (bb, si))
        if v == ("const", 0, "u64"):
            continue
        pc = pa.pc_at(bb, si)
        ok = v == NOW and pa.entails(pc, F1["rec0"]) and pa.entails(pc, F1["fresh"]) and pa.entails(pc, pa.bdd.NOT(F1["since0"]))
        ctx.chk.ob("D4", "a dwell run starts (:= now) only from zero, with fresh proof, on a latched link", ok, "PC = %s" % pa.show(pc, 3)[:300], key="D4:dwell-start-guard", loc=s.get("loc"))
    ctx.WHO_WRITES("D4", CONN, "stall_recovery_since_ms", {USL, CONN + "::clear_stall_latch", CONN + "::reset_core_state"}, floor=3, allow_agg_in={CONN + "::new_registering"})
    # driven on every guard-on pass for every link, pull first
    gate = ctx.fn(C03.GATE, "D4")
    if gate:
        cfg = ctx.cfg(gate)
        gpa = ctx.pa(gate)
        up = calls_to(gate, stable=USP)
        ul = calls_to(gate, stable=USL)
        ok = len(up) == 1 and len(ul) == 1
        if ok:
            pb, lb = up[0][0], ul[0][0]
            loop = cfg.innermost_loop_of(lb)
            same_loop = loop is not None and pb in loop[1]
            order = cfg.dominates(pb, lb)
            backs = [t for (t, h) in cfg.back_edges() if loop and h == loop[0]]
            every = all(cfg.dominates(lb, t) for t in backs)
            link = gpa.fa.val_operand(ul[0][1]["args"][0], (lb, len(gate.blocks[lb]["stmts"])))
            full = full_slice_element(link, ("param", 1)) is not None
            same_link = link == gpa.fa.val_operand(up[0][1]["args"][0], (pb, len(gate.blocks[pb]["stmts"])))
            # every guard-on path passes this loop
            on = gpa.find(lambda a: a[0] == "field" and a[3] == "stall_deselect")
            reach = cfg.returns_reachable_avoiding({loop[0]}) if loop else cfg.returns
            pa3 = PathA(ctx.w, gate, avoid={loop[0]}) if loop else gpa
            on3 = pa3.find(lambda a: a[0] == "field" and a[3] == "stall_deselect")
            bypass_only_off = bool(on3) and pa3.entails(pa3.pc_return(), pa3.bdd.NOT(on3[0][1]))
            args_ok = all(gpa.fa.val_operand(ul[0][1]["args"][i], (lb, len(gate.blocks[lb]["stmts"]))) ==
                          gpa.fa.val_operand(up[0][1]["args"][i], (pb, len(gate.blocks[pb]["stmts"]))) for i in (1, 2, 3))
            ok = same_loop and order and every and full and same_link and bypass_only_off and args_ok
        ctx.chk.ob("D4", "with the guard on, every selection pass drives pull then latch for every link (a lapse at any decision is seen)", ok, "", key="D4:driven-every-pass")
        ctx.WHO_CALLS("D4", USL, {C03.GATE}, floor=1)
        ctx.WHO_CALLS("D4", USP, {C03.GATE}, floor=1)


def _spoke(pa):
    """(formula, atom expr) of `the link spoke within the silence window`: last_received is Some(lr) & now - lr < silence_pull_window_ms(..)
    (whatever the source form: is_some_and(closure), match, if let - std combinators are expanded by the path analysis)."""
    lr = fld("last_received")
    payload = ("field", ("as", lr, "Some"), "core::option::Option", "0")
    lt = pa.find(lambda a: a[0] == "bin" and a[1] == "Lt" and is_call(strip_old(a[2]), name_contains="saturating_sub") and strip_old(a[2])[2][0] == NOW and
                 strip_old(strip_old(a[2])[2][1]) == payload and is_call(strip_old(a[3]), stable=CONN + "::silence_pull_window_ms"))
    if len(lt) != 1:
        return None, None
    some = pa.bdd.NOT(pa.is_atom(("is", lr, "None")))
    return pa.bdd.AND(some, lt[0][1]), lt[0][0]


def d5_silence_pull(ctx):
    f = ctx.fn(USP, "D5")
    if not f:
        return
    pa = ctx.pa(f)
    b = pa.bdd
    silent = pa.find(lambda a: is_call(a, stable=CONN + "::is_briefly_silent") and a[2][0] == S)
    spoke_f, spoke_atom = _spoke(pa)
    spoke = [(spoke_atom, spoke_f)] if spoke_f is not None else []
    conn = pa.lit(fld("connected"))
    if not silent or not spoke:
        ctx.chk.missing("D5", "update_silence_pull: is_briefly_silent / spoke tests", "%d / %d" % (len(silent), len(spoke)))
        return
    for (bb, si, s) in field_stores(f, CONN, "silence_pulled"):
        v = pa.fa.val_rvalue(s["rv"], (bb, si))
        pc = pa.pc_at(bb, si)
        if v == ("const", True, "bool"):
            ctx.chk.ob("D5", "the pull engages only under is_briefly_silent", pa.entails(pc, silent[0][1]), "PC = %s" % pa.show(pc), key="D5:pull-set-guard", loc=s.get("loc"))
        elif v == ("const", False, "bool"):
            ok = pa.entails(pc, b.OR(spoke[0][1], b.NOT(conn))) and pa.entails(pc, b.NOT(silent[0][1]))
            ctx.chk.ob("D5", "the pull releases only when the link spoke within the window or disconnected", ok, "PC = %s" % pa.show(pc)[:400], key="D5:pull-release-guard", loc=s.get("loc"))
        else:
            ctx.chk.ob("D5", "silence_pulled stores are constants", False, show(v), key="D5:pull-store-shape", loc=s.get("loc"))
    ctx.WHO_WRITES("D5", CONN, "silence_pulled", {USP, C03.GATE, CONN + "::reset_core_state"}, floor=3, allow_agg_in={CONN + "::new_registering"})
    # spoke = last_received is Some(lr) & now - lr < silence_pull_window_ms(ceiling): the shape _spoke() matched
    ok = spoke_atom is not None and strip_old(spoke_atom[3])[2][0] == S
    ctx.chk.ob("D5", "spoke == (now - last_received < silence window)", ok, show(spoke_atom)[:160] if spoke_atom else "", key="D5:spoke-predicate")
    # window formula
    w = ctx.fn(CONN + "::silence_pull_window_ms", "D5")
    if w:
        fa = ctx.fa(w)
        rets = [fa.val_local(0, (r, len(w.blocks[r]["stmts"]))) for r in ctx.cfg(w).returns]
        okw = len(rets) == 1 and is_call(rets[0], name_contains="Ord::min") and is_call(rets[0][2][1], stable=EFF)
        ctx.chk.ob("D5", "silence window is capped by the effective staleness window", okw, "%s" % [show(v, w.names)[:160] for v in rets], key="D5:window-capped")
        ctx.CONST("D5", K + "SILENCE_PULL_FLOOR_MS", 250)
        ctx.CONST("D5", K + "SILENCE_PULL_RTT_MULT", 2)
    bs = ctx.fn(CONN + "::is_briefly_silent", "D5")
    if bs:
        spa = ctx.pa(bs)
        rt = spa.ret_true()
        need = [spa.lit(fld("connected")), spa.bdd.NOT(spa.lit(("bin", "Lt", fld("in_flight_packets"), ("param", 3), "i32"))),
                spa.bdd.NOT(spa.is_atom(("is", fld("last_received"), "None")))]
        ctx.chk.ob("D5", "is_briefly_silent needs connected & backlog >= min & something ever received", all(spa.entails(rt, n) for n in need),
                   "RT = %s" % spa.show(rt)[:300], key="D5:briefly-silent-needs")


def d6_proof_stamps(ctx):
    from . import C09
    C09.d4_stamps(ctx, rule="D6")


def d7_release_reads_own_inbound_only(ctx):
    f = ctx.fn(USP, "D7")
    pce = ctx.fn(C05.PCE, "D7")
    if not f or not pce:
        return
    eff = ctx.eff
    pa = ctx.pa(f)
    # what the release predicate reads: `spoke` closure, the window helper, connected
    spoke_f, spoke_atom = _spoke(pa)
    if spoke_atom is None:
        ctx.chk.missing("D7", "update_silence_pull: spoke", "")
        return
    reads = set()
    for x in walk(spoke_atom):
        if x[0] == "call" and x[4]:
            for g in ctx.w.by_stable.get(x[4], []):
                reads |= eff.R(g.id)
        if x[0] == "agg" and x[1] == "closure" and x[2] in ctx.w.fns:
            reads |= eff.R(x[2])
        if x[0] == "field" and x[2]:
            reads.add((x[2], x[3]))
    # cross-link handlers: called from process_connection_events on a link that is not (necessarily) the arrival link
    fa = ctx.fa(pce)
    roots = set()
    for (bb, t) in pce.calls():
        fr = t["f"]
        if "id" not in fr or fr["crate"] not in ctx.w.local_crates:
            continue
        for a in t["args"]:
            v = fa.val_operand(a, (bb, len(pce.blocks[bb]["stmts"])))
            broadcast = any(is_call(x, name_contains="<impl [T]>::iter_mut") for x in walk(v)) or \
                (v[0] == "upvar" and v[1] == upvar_index(pce, "connections"))
            if broadcast:
                for cid in eff._callee_ids(fr):
                    roots.add(cid)
    ctx.chk.floor("D7", "cross-link handlers called from process_connection_events", len(roots), 4)
    cross = set()
    for r in roots:
        cross |= eff.W(r)
    allowed = {(CONN, "connected"), (CONN, "last_received")}
    bad = sorted(k for k in reads & cross if k not in allowed)
    # group by the state they belong to
    groups = {}
    for k in bad:
        if k[0].endswith("kalman::KalmanFilter") or k == ("srtla_core::connection::rtt::RttTracker", "kalman_rtt") or k == (CONN, "rtt"):
            groups.setdefault("rtt.kalman_rtt", []).append(k)
        else:
            groups.setdefault("%s.%s" % (k[0].split("::")[-1], k[1]), []).append(k)
    if len(groups) > 1 and "rtt.kalman_rtt" in groups and any(k[0].endswith("kalman::KalmanFilter") for k in groups["rtt.kalman_rtt"]):
        pass
    for label, ks in sorted(groups.items()):
        writers = sorted(set(a.fn.stable for k in ks for a in eff.writes.get(k, []) if a.kind != "agg" and any(a.fn.id in eff.reachable(r) for r in roots)))
        ctx.chk.ob("D7", "the pull's release predicate reads only own-inbound state (not %s)" % label, False,
                   "`spoke` compares now - last_received with silence_pull_window_ms(), which is recomputed from %s; that state is written by %s, "
                   "reachable from the broadcast handlers %s that process_connection_events applies to every link for traffic that arrived on another link: "
                   "a cumulative ACK received on link B widens link A's window and releases A's pull without A having been heard from" %
                   (label, writers[:3], sorted(sname(ctx.w.fns[r].stable) for r in roots if any(a.fn.id in eff.reachable(r) for k in ks for a in eff.writes.get(k, []))))[:3],
                   key="D7:%s:spoke-reads-cross-link:%s" % (USP, label))
    ctx.chk.ob("D7", "release predicate read set computed", len(reads) >= 3, "%d keys read, %d cross-link writable, %d offending" % (len(reads), len(reads & cross), len(bad)),
               key="D7:read-set-computed")


def d8_never_blind(ctx):
    """"never blind": whatever holds a link (latch or silence pull), it is gated only while some link witnesses a carrier test, and
    every such witness is itself un-gated and admitted by both selectors - the gate chain of C03 (D1-D4 there), decided once and
    reported under both properties.  With one carrier test per kind of hold, each test's witness must be free of *every* hold."""
    C03.d1_d3_gate_chain(ctx)


RULES = [d1_engage, d2_effective_window, d3_release, d4_continuity, d5_silence_pull, d6_proof_stamps, d7_release_reads_own_inbound_only, d8_never_blind]


def run(ctx):
    ctx.chk.not_decided = ["the timed-trace consequence ('fresh at every decision for 2x the window' for arbitrary call spacing) follows from D3 + D4 by induction, "
                           "which is stated, not mechanically derived", "RTT baselines (numerical trajectories of the Kalman filter)"]
    ctx.run_rules(RULES)
