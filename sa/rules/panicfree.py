"""PANIC-FREE(entries): every may-panic site in the workspace bodies reachable from the entry points is discharged
by the abstract interpreter (bounds / ranges / lengths / division), by a path-condition guard (unwrap under is_some),
or is listed with a reason.  Used by C09.D5, C15.D1, C18.D1."""
from ..absint import AbsInt, Entry, Num
from ..ctx import CONN, is_call, sname
from ..effects import effects_of
from ..expr import show, walk
from ..panics import sites_reachable

# assumptions under which overflow asserts on clock arithmetic are discharged (thorough tier)
CLOCK_BOUND = 2**62
INFALLIBLE_JSON = {"bool", "u8", "u16", "u32", "u64", "usize", "i8", "i16", "i32", "i64", "isize", "std::string::String", "str", "f64",
                   "std::option::Option<std::string::String>", "std::vec::Vec<std::string::String>",
                   # Value -> Value: map keys are Strings and numbers are finite by construction, the two things the Value serializer rejects
                   "serde_json::Value"}


def _field_invariants(entry):
    # C06: the congestion window stays in [1000, 60000]
    entry.invariant(CONN, "window", lambda: Num("i32", 1000, 60000))
    return entry


def analyse_alone(ctx, fn, cache):
    key = (ctx.w.uid, fn.id)
    if key in cache:
        return cache[key]
    ai = AbsInt(ctx.w)
    try:
        ai.run(fn, _field_invariants(Entry()))
        res = {}
        for o in ai.obligations:
            res.setdefault((o.fn.id, o.bb), []).append(o)
        cache[key] = (res, None, ai)
    except Exception as e:  # analysis budget etc.
        cache[key] = ({}, "%s: %s" % (type(e).__name__, e), ai)
    return cache[key]


_cache = {}


def panic_free(ctx, rule, entry_stables, include_overflow=False, allow=None, what=""):
    allow = allow or {}
    ids = []
    for st in entry_stables:
        f = ctx.fn(st, rule)
        if f:
            ids.append(f.id)
    if not ids:
        return
    sites, reach, trusted = sites_reachable(ctx.w, ids, include_overflow)
    eff = ctx.eff
    ctx.chk.info.setdefault("panic_analysis", {})[rule + ":" + ctx.w.name] = {
        "entries": entry_stables, "bodies_reachable": len(reach), "may_panic_sites": len(sites),
        "foreign_callees_trusted_total": len(trusted)}
    n_ok = 0
    for s in sites:
        fn = s.fn
        skey = "%s:panic:%s:%s:%s" % (rule, fn.stable, s.kind, (s.loc or "").rsplit(":", 1)[0].rsplit("/", 1)[-1])
        inst = "%s %s in %s (%s)" % (s.kind, s.detail, sname(fn.stable), (s.loc or "").rsplit("/", 1)[-1])
        if s.key() in allow:
            ctx.chk.ob(rule, inst, True, "accepted: " + allow[s.key()], key=skey, loc=s.loc)
            continue
        ok = False
        detail = ""
        if s.kind == "unwrap":
            ok, detail = _unwrap_guarded(ctx, s)
        elif s.kind in ("explicit-panic", "indirect-call", "refcell", "json-index", "time-arith", "vec-index", "vec-range", "chunk-size", "slice-split", "abs", "clamp"):
            ok, detail = _ai_discharge(ctx, s, ("call:",))
            if not ok and s.kind == "explicit-panic":
                detail = "explicit panic / unreachable! reachable from %s" % entry_stables[0]
        else:
            ok, detail = _ai_discharge(ctx, s, ("assert:", "call:"))
        if ok:
            n_ok += 1
        ctx.chk.ob(rule, inst, ok, detail[:400], key=skey, loc=s.loc)
    ctx.chk.ob(rule, "PANIC-FREE%s: %d may-panic sites in %d reachable bodies" % (what, len(sites), len(reach)), n_ok == len([s for s in sites if s.key() not in allow]),
               "%d discharged" % n_ok, key="%s:panic-free-summary:%s" % (rule, entry_stables[0]), nontrivial=True)
    return sites


def _site_obs(res, s):
    return res.get((s.fn.id, s.bb), [])


def _ai_discharge(ctx, s, kinds):
    """The site is safe if the abstract interpreter discharges it analysing its function alone (any context), or,
    failing that, in the context of every caller in the whole workspace."""
    res, err, ai = analyse_alone(ctx, s.fn, _cache)
    obs = [o for o in _site_obs(res, s) if o.kind.startswith(kinds)]
    if err:
        return False, "analysis of %s failed: %s" % (s.fn.stable, err)
    if obs and all(o.ok for o in obs):
        return True, "discharged in any context: %s" % obs[0].detail
    if not obs:
        # not reached by the analysis (dead under the analysed configuration) or no obligation was generated
        reached = any(k[0] == s.fn.id for k in res)
        if not reached and not s.fn.blocks[s.bb]["cleanup"]:
            pass
    # by callers
    callers = ctx.eff.callers_of(s.fn.id)
    if callers:
        allok = True
        why = ""
        seen = set()
        for (cf, cbb, ct) in callers:
            if cf.id in seen:
                continue
            seen.add(cf.id)
            if cf.kind == "coroutine" or s.fn.kind == "coroutine":
                allok = False
                why = "caller %s is a coroutine (not inlined)" % cf.stable
                break
            r2, e2, _ai2 = analyse_alone(ctx, cf, _cache)
            o2 = [o for o in _site_obs(r2, s) if o.kind.startswith(kinds)]
            if e2 or not o2 or not all(o.ok for o in o2):
                allok = False
                bad = [o for o in o2 if not o.ok]
                why = "in caller %s: %s" % (cf.stable, bad[0].detail if bad else (e2 or "site not reached"))
                break
        if allok:
            return True, "discharged in the context of all %d caller(s)" % len(seen)
        bad = [o for o in obs if not o.ok]
        return False, "%s ; %s" % (bad[0].detail if bad else "no obligation recorded", why)
    bad = [o for o in obs if not o.ok]
    return False, bad[0].detail if bad else "site not reached by the abstract interpreter"


def _unwrap_guarded(ctx, s):
    fn = s.fn
    pa = ctx.pa(fn)
    t = s.term
    nst = len(fn.blocks[s.bb]["stmts"])
    v = pa.fa.val_operand(t["args"][0], (s.bb, nst))
    pc = pa.pc_block(s.bb)
    path = t["f"]["path"]
    good = "Ok" if "Result" in path else "Some"
    if path.endswith("unwrap_err") or path.endswith("expect_err"):
        good = "Err"
    f = pa.is_atom(("is", v, good))
    if pa.entails(pc, f):
        return True, "guarded: PC => %s is %s" % (show(v, fn.names)[:80], good)
    for (a, fm) in pa.find(lambda a: is_call(a, name_contains="is_some") or is_call(a, name_contains="is_ok")):
        if a[2] and a[2][0] == v and pa.entails(pc, fm):
            return True, "guarded by %s" % show(a, fn.names)[:80]
    # serde_json's json! macro: `to_value(&x).unwrap()` - serialising a primitive, a string or an Option/Vec of those into a
    # Value cannot fail (trusted dependency: serde's Serialize impls for these types are infallible)
    cv = v
    while cv[0] == "old":
        cv = cv[1]
    if is_call(cv, name_contains="serde_json::to_value") or is_call(cv, name_contains="value::to_value"):
        for (bb2, t2) in fn.calls():
            if t2["f"].get("path", "").endswith("to_value") and pa.fa._val_call(t2, (bb2, len(fn.blocks[bb2]["stmts"])), 0) == cv:
                aty = (t2.get("atys") or [""])[0].replace("&", "").replace("mut ", "").strip()
                if aty in INFALLIBLE_JSON:
                    return True, "json!: to_value(%s) is infallible (trusted serde impl)" % aty
                return False, "json!: to_value of %s may fail" % aty
    # a value that is Some/Ok by construction
    core = v
    while core[0] == "old":
        core = core[1]
    if core[0] == "agg" and core[2].endswith("::" + good):
        return True, "constructed as %s" % good
    return False, "unwrap of %s not guarded ; PC = %s" % (show(v, fn.names)[:100], pa.show(pc, 3)[:200])


# ---------------------------------------------------------------- per-property entry points

def c09_d5(ctx):
    panic_free(ctx, "D5", ["srtla_send::sender::packet_handler::handle_uplink_packet::{closure#0}",
                           "srtla_send::sender::packet_handler::drain_packet_queue::{closure#0}"], what=" (uplink datagram processing)")
