"""C14 - keepalives flow on every live uplink and RTT comes only from echoes.

D1 frame: the extended keepalive is a 38-byte frame, [0,2) type, [2,10) big-endian send timestamp (a standard keepalive header), magic /
   version, then the telemetry fields where the parser reads them (shared with C15.D4);
D2 telemetry: the ConnectionInfo handed to the builder is read from the link's own window, in_flight_packets, congestion.nak_count and
   bitrate.current_bitrate_bps / 8, before anything in that body is written; the timestamp is the caller's `now`; what is returned is that frame;
D3 sample filter: update_estimate has two callers; the keepalive one is reached exactly under  probe outstanding & timestamp parsed &
   0 < now - ts <= 10000, with that difference as the sample; Some(rtt) is returned exactly then; the outstanding flag is raised only by
   record_keepalive_sent (called only while building a keepalive), and every site that cancels the probe stamp, and every link reset,
   also lowers the flag on all paths;
D4 smoothed RTT handed to consumers is >= 0 and never NaN (abstract interpretation: max(0.0) absorbs NaN and negative overshoot); the raw
   Kalman value is read only by the enumerated bodies;
D5 cadence skeleton: housekeeping visits every link of the whole slice; within one visit the keepalive test is skipped only for a timed-out
   link; a keepalive is built and sent exactly under needs_keepalive (and an I/O handle); needs_keepalive == connected & (never sent |
   now - last >= IDLE_TIME*1000), IDLE_TIME*1000 <= housekeeping period; building a keepalive always stamps last_keepalive_sent := now;
   no return precedes the loop; the timer arm calls handle_housekeeping.
"""
from ..absint import AbsInt, Entry, Num
from ..ctx import CONN, every_iteration_reaches, full_slice_element, is_call, is_field, loop_of_element, sname, some_of
from ..expr import show, strip_old, walk
from ..pathcond import PathA, calls_to, field_stores
from . import C07, C08, C15

from ..roles import upvar_index  # noqa: E402

LEVEL = "other"
RT = "srtla_core::connection::rtt::RttTracker"
KF = "srtla_core::kalman::KalmanFilter"
KA = CONN + "::keepalive_packet"
BU = "srtla_protocol::builders::create_keepalive_packet_ext"
CI = "srtla_protocol::types::ConnectionInfo"
HKR = RT + "::handle_keepalive_response"
HKC = C08.HKC
CC = "srtla_core::connection::congestion::CongestionControl"
BT = "srtla_core::connection::bitrate::BitrateTracker"
S = ("param", 1)


def d1_frame(ctx):
    C15.d4_round_trip(ctx)
    ctx.CONST("D1", "srtla_protocol::constants::SRTLA_KEEPALIVE_EXT_LEN", 38)


def d2_telemetry(ctx):
    f = ctx.fn(KA, "D2")
    if not f:
        return
    fa = ctx.fa(f)
    cfg = ctx.cfg(f)
    aggs = []
    for bi, blk in enumerate(f.blocks):
        for si, s in enumerate(blk["stmts"]):
            if s["k"] == "assign" and s["rv"]["k"] == "agg" and s["rv"].get("adt") == CI:
                aggs.append((bi, si, s))
    if len(aggs) != 1:
        ctx.chk.missing("D2", "keepalive_packet: the ConnectionInfo literal", "%d" % len(aggs))
        return
    bi, si, s = aggs[0]
    v = fa.val_rvalue(s["rv"], (bi, si))
    d = dict(zip(v[4], v[3]))
    want = {
        "window": lambda e: e == ("field", S, CONN, "window"),
        "in_flight": lambda e: e == ("field", S, CONN, "in_flight_packets"),
        "nak_count": lambda e: e[0] == "cast" and strip_old(e[2]) == ("field", ("field", S, CONN, "congestion"), CC, "nak_count"),
        "bitrate_bytes_per_sec": lambda e: e[0] == "cast" and strip_old(e[2])[0] == "bin" and strip_old(e[2])[1] == "Div" and
        strip_old(e[2])[2] == ("field", ("field", S, CONN, "bitrate"), BT, "current_bitrate_bps") and strip_old(e[2])[3] == ("const", 8.0, "f64"),
        "conn_id": lambda e: e[0] == "cast" and strip_old(e[2]) == ("field", S, CONN, "conn_id"),
        "rtt_ms": lambda e: e[0] == "cast" and is_call(strip_old(e[2]), stable=KF + "::value"),
    }
    for k, pred in want.items():
        e = d.get(k)
        ok = e is not None and e[0] != "old" and pred(strip_old(e)) and not any(x[0] == "old" for x in walk(e))
        ctx.chk.ob("D2", "telemetry field %s is the link's current value" % k, ok, "%s <- %s" % (k, show(e, f.names)[:100] if e else None), key="D2:telemetry:%s" % k, loc=s.get("loc"))
    # nothing of the link is written before the literal
    early = [a for a in ctx.eff.writes_in(f) if cfg.dominates(a.bb, bi) and (a.bb != bi or a.si < si)] if hasattr(ctx.eff, "writes_in") else None
    if early is None:
        early = []
        for key, accs in ctx.eff.writes.items():
            for a in accs:
                if a.fn.id == f.id and a.kind in ("store", "callstore", "mutborrow") and (a.bb != bi or (a.si is not None and a.si < si)) and cfg.can_reach(a.bb, bi) and a.bb != bi:
                    early.append(a)
    ctx.chk.ob("D2", "the telemetry is read before the body writes anything", not early, "%s" % early[:3], key="D2:telemetry-read-first")
    bc = calls_to(f, stable=BU)
    ok = len(bc) == 1
    if ok:
        bb, t = bc[0]
        n = len(f.blocks[bb]["stmts"])
        a0 = strip_old(fa.val_operand(t["args"][0], (bb, n)))
        a1 = strip_old(fa.val_operand(t["args"][1], (bb, n)))
        ok = a0 == strip_old(v) and a1 == ("param", 2)
        r = cfg.returns
        rv = strip_old(fa.val_local(0, (r[0], len(f.blocks[r[0]]["stmts"])))) if len(r) == 1 else None
        ok = ok and rv is not None and is_call(rv, stable=BU) and not cfg.returns_reachable_avoiding({bb})
    ctx.chk.ob("D2", "the frame is built from that telemetry and the caller's `now`, and is what is returned", ok, "", key="D2:frame-from-telemetry")


def d3_sample_filter(ctx):
    ctx.WHO_CALLS("D3", RT + "::update_estimate", {HKR, CONN + "::handle_srt_ack"}, floor=2)
    ctx.WHO_CALLS("D3", HKR, {C08.PUP}, floor=1)
    ctx.WHO_CALLS("D3", RT + "::record_keepalive_sent", {KA}, floor=1)
    f = ctx.fn(HKR, "D3")
    if f:
        pa = ctx.pa(f)
        b = pa.bdd
        W = pa.find(lambda a: a == ("field", S, RT, "waiting_for_keepalive_response"))
        ue = calls_to(f, stable=RT + "::update_estimate")
        ok = len(W) == 1 and len(ue) == 1
        if ok:
            bb, t = ue[0]
            n = len(f.blocks[bb]["stmts"])
            rtt = strip_old(pa.fa.val_operand(t["args"][1], (bb, n)))
            now = strip_old(pa.fa.val_operand(t["args"][2], (bb, n)))
            ts = [x for x in walk(rtt) if is_call(x, name_contains="extract_keepalive_timestamp")]
            okv = is_call(rtt, name_contains="saturating_sub") and strip_old(rtt[2][0]) == ("param", 4) and len(ts) == 1 and ts[0][2][0] == ("param", 2) and \
                strip_old(rtt[2][1]) == ("field", ("as", ts[0], "Some"), "core::option::Option", "0") and now == ("param", 4)
            ctx.chk.ob("D3", "the keepalive sample is now - (timestamp parsed from the echo), saturating", okv, "sample %s" % show(rtt, f.names)[:120], key="D3:sample-value", loc=t.get("loc"))
            pc = pa.pc_block(bb)
            some = b.NOT(pa.is_atom(("is", ts[0], "None"))) if ts else b.FALSE
            # integer comparisons are normalised to `<`: rtt > 0 is !(rtt < 1), rtt <= 10000 is rtt < 10001
            lt1 = pa.find(lambda a: a[0] == "bin" and a[1] == "Lt" and strip_old(a[2]) == rtt and a[3] == ("const", 1, "u64"))
            lt2 = pa.find(lambda a: a[0] == "bin" and a[1] == "Lt" and strip_old(a[2]) == rtt and a[3] == ("const", 10001, "u64"))
            eq0 = pa.find(lambda a: a[0] == "bin" and a[1] == "Eq" and ("const", 0, "u64") in (a[2], a[3]) and rtt in (strip_old(a[2]), strip_old(a[3])))
            P = b.NOT(lt1[0][1]) if len(lt1) == 1 else b.NOT(eq0[0][1]) if len(eq0) == 1 else None
            L = lt2[0][1] if len(lt2) == 1 else None
            okp = P is not None and L is not None and pa.equivalent(pc, b.AND(b.AND(W[0][1], some), b.AND(P, L)))
            ctx.chk.ob("D3", "a keepalive sample is taken exactly when a probe is outstanding, the echo carries a timestamp, and 0 < rtt <= 10000 ms", okp,
                       "PC = %s" % pa.show(pc, 4)[:300], key="D3:sample-guard", loc=t.get("loc"))
            # Some(..) is returned exactly on that path
            somes = []
            for bi, blk in enumerate(f.blocks):
                for si, s in enumerate(blk["stmts"]):
                    if s["k"] == "assign" and s["p"]["l"] == 0 and not s["p"]["proj"]:
                        v = pa.fa.val_rvalue(s["rv"], (bi, si))
                        if v[0] == "agg" and v[2].endswith("::Some"):
                            somes.append((bi, si, v))
            cfg = ctx.cfg(f)
            oks = len(somes) == 1 and cfg.dominates(bb, somes[0][0]) and strip_old(somes[0][2][3][0]) == rtt and not [r for r in cfg.returns if False]
            ctx.chk.ob("D3", "the handler reports a sample (Some) only after taking one", oks, "", key="D3:some-only-after-sample")
        else:
            ctx.chk.missing("D3", "handle_keepalive_response: outstanding test / update_estimate call", "%d / %d" % (len(W), len(ue)))
        # the range as seen by the callee (both callers)
    for st in (HKR, CONN + "::handle_srt_ack"):
        g = ctx.fn(st, "D3")
        if not g:
            continue
        ai = AbsInt(ctx.w)
        ai.run(g, Entry())
        ue = [c for c in ai.calls if (c.callee or "") == RT + "::update_estimate" or c.path.endswith("RttTracker::update_estimate")]
        ok = len(ue) >= 1 and all(isinstance(c.args[1], Num) and c.args[1].lo >= 1 and c.args[1].hi <= 10000 for c in ue)
        ctx.chk.ob("D3", "%s hands update_estimate a sample in [1, 10000]" % sname(st), ok, "%s" % [repr(c.args[1]) for c in ue][:2], key="D3:sample-range:%s" % st)
    # who raises / lowers the outstanding flag
    raise_sites, lower_sites = [], []
    for a in ctx.eff.writers_of(RT, "waiting_for_keepalive_response", ("store",)):
        fa = ctx.fa(a.fn)
        s = a.fn.blocks[a.bb]["stmts"][a.si]
        v = fa.val_rvalue(s["rv"], (a.bb, a.si))
        (raise_sites if v != ("const", False, "bool") else lower_sites).append((a.fn.stable, show(v)))
    ok = sorted(set(x[0] for x in raise_sites)) == [RT + "::record_keepalive_sent"] and all(x[1] == "True" or x[1] == "true" or "True" in x[1] for x in raise_sites)
    ctx.chk.ob("D3", "the probe-outstanding flag is raised only by record_keepalive_sent", ok, "%s" % raise_sites, key="D3:flag-raised-only-on-send")
    rk = ctx.fn(RT + "::record_keepalive_sent", "D3")
    if rk:
        fa = ctx.fa(rk)
        st = field_stores(rk, RT, "last_keepalive_sent_ms")
        ok = len(st) == 1 and fa.val_rvalue(st[0][2]["rv"], (st[0][0], st[0][1])) == ("param", 2)
        ctx.chk.ob("D3", "raising the flag stamps the probe's send time", ok, "", key="D3:probe-stamped")
    # cancelling the probe stamp / resetting the link lowers the flag
    def lowers_on_all_paths(g):
        cfg = ctx.cfg(g)
        fa = ctx.fa(g)
        sites = []
        for (bb, si, s) in field_stores(g, RT, "waiting_for_keepalive_response"):
            if fa.val_rvalue(s["rv"], (bb, si)) == ("const", False, "bool"):
                sites.append(bb)
        for (bb, t) in calls_to(g, stable=RT + "::reset"):
            sites.append(bb)
        return any(not cfg.returns_reachable_avoiding({bb}) for bb in sites)
    n = 0
    for a in ctx.eff.writers_of(RT, "last_keepalive_sent_ms", ("store",)):
        fa = ctx.fa(a.fn)
        s = a.fn.blocks[a.bb]["stmts"][a.si]
        v = fa.val_rvalue(s["rv"], (a.bb, a.si))
        if v == ("const", 0, "u64"):
            n += 1
            ctx.chk.ob("D3", "%s cancels the probe stamp, so it also lowers the outstanding flag on every path" % sname(a.fn.stable), lowers_on_all_paths(a.fn), "",
                       key="D3:cancel-lowers-flag:%s" % a.fn.stable, loc=a.loc)
    ctx.chk.floor("D3", "sites that zero the probe stamp", n, 2)
    rc = ctx.w.fn(CONN + "::reset_core_state")
    if rc is None:
        ctx.chk.missing("D3", CONN + "::reset_core_state", "")
    else:
        callers = sorted(set(c.stable for (c, bb, t) in ctx.eff.callers_of(rc.id) if "::tests" not in c.stable))
        ctx.chk.floor("D3", "link reset entry points (callers of reset_core_state)", len(callers), 2)
        for st in callers:
            g = ctx.w.fn(st)
            ctx.chk.ob("D3", "link reset %s leaves no probe outstanding (flag lowered on every path)" % sname(st), lowers_on_all_paths(g), "", key="D3:reset-lowers-flag:%s" % st)
    r = ctx.fn(RT + "::reset", "D3")
    if r:
        fa = ctx.fa(r)
        cfg = ctx.cfg(r)
        st = [(bb, si, s) for (bb, si, s) in field_stores(r, RT, "waiting_for_keepalive_response") if fa.val_rvalue(s["rv"], (bb, si)) == ("const", False, "bool")]
        ctx.chk.ob("D3", "RttTracker::reset lowers the flag unconditionally", len(st) == 1 and not cfg.returns_reachable_avoiding({st[0][0]}), "", key="D3:tracker-reset-lowers-flag")
    # the shell records a probe / delivery proof only on Some
    pup = ctx.fn(C08.PUP, "D3")
    if pup:
        pa = ctx.pa(pup)
        rp = calls_to(pup, stable=CONN + "::record_rtt_probe")
        ok = len(rp) >= 1
        for (bb, t) in rp:
            pc = pa.pc_block(bb)
            at = some_of(pa, lambda x: is_call(x, stable=HKR))
            ok = ok and len(at) == 1 and pa.entails(pc, at[0][1])
        ctx.chk.ob("D3", "the shell counts an answered probe only when the handler took a sample", ok, "", key="D3:shell-needs-sample")


def d4_rtt_consumers(ctx):
    f = ctx.fn(CONN + "::get_smooth_rtt_ms", "D4")
    if f:
        ai = AbsInt(ctx.w)
        ret, _m = ai.run(f, Entry())
        ok = isinstance(ret, Num) and not ret.nan and ret.lo >= 0.0
        ctx.chk.ob("D4", "get_smooth_rtt_ms >= 0 and never NaN whatever the filter state", ok, "returns %r" % (ret,), key="D4:smooth-rtt-nonneg")
    ctx.WHO_CALLS("D4", KF + "::value", {CONN + "::get_smooth_rtt_ms", KA, HKR, RT + "::update_estimate"}, floor=4)
    # the raw value escapes only through a saturating cast (telemetry), logging, or the estimated_rtt_ms mirror
    ka = ctx.fn(KA, "D4")
    if ka:
        fa = ctx.fa(ka)
        ok = True
        for (bb, t) in calls_to(ka, stable=KF + "::value"):
            dl = t["dest"]["l"]
            uses = []
            for bi, blk in enumerate(ka.blocks):
                for si, s in enumerate(blk["stmts"]):
                    if s["k"] == "assign" and ("'l': %d," % dl in repr(s["rv"]) or "'l': %d}" % dl in repr(s["rv"])):
                        uses.append(s)
            ok = ok and len(uses) == 1 and uses[0]["rv"]["k"] == "cast" and uses[0]["rv"]["ty"] == "u32"
        ctx.chk.ob("D4", "the keepalive telemetry takes the raw filter value through a saturating `as u32` only", ok, "", key="D4:raw-value-cast")


def d5_cadence(ctx):
    ctx.CONST("D5", "srtla_protocol::constants::IDLE_TIME", 1)
    hki = ctx.const("srtla_send::sender::HOUSEKEEPING_INTERVAL_MS", "D5")
    idle = ctx.const("srtla_protocol::constants::IDLE_TIME", "D5")
    if hki is not None and idle is not None:
        ctx.chk.ob("D5", "IDLE_TIME * 1000 <= housekeeping period (a due keepalive is due at the next pass)", idle * 1000 <= hki, "%s * 1000 vs %s" % (idle, hki), key="D5:idle-le-period")
    nk = ctx.fn(CONN + "::needs_keepalive", "D5")
    if nk:
        pa = ctx.pa(nk)
        b = pa.bdd
        rt = pa.ret_true()
        C = pa.find(lambda a: a == ("field", S, CONN, "connected"))
        last = ("field", S, CONN, "last_keepalive_sent")
        none = pa.is_atom(("is", last, "None"))
        age = pa.find(lambda a: a[0] == "bin" and a[1] == "Lt" and is_call(strip_old(a[2]), name_contains="saturating_sub") and strip_old(a[2])[2][0] == ("param", 2) and
                      strip_old(strip_old(a[2])[2][1]) == ("field", ("as", last, "Some"), "core::option::Option", "0"))
        ok = len(C) == 1 and len(age) == 1
        if ok:
            thr = age[0][0][3]
            okt = thr == ("const", 1000, "u64") or (thr[0] == "bin" and thr[1] == "Mul" and ("const", 1000, "u64") in (thr[2], thr[3]) and ("const", 1, "u64") in (thr[2], thr[3]))
            ok = okt and pa.equivalent(rt, b.AND(C[0][1], b.OR(none, b.NOT(age[0][1]))))
        ctx.chk.ob("D5", "needs_keepalive == connected & (never sent | now - last >= IDLE_TIME*1000)", ok, "RT = %s" % pa.show(rt)[:200], key="D5:needs-keepalive-formula")
    ka = ctx.fn(KA, "D5")
    if ka:
        fa = ctx.fa(ka)
        cfg = ctx.cfg(ka)
        st = field_stores(ka, CONN, "last_keepalive_sent")
        ok = len(st) == 1
        if ok:
            v = fa.val_rvalue(st[0][2]["rv"], (st[0][0], st[0][1]))
            ok = v[0] == "agg" and v[2].endswith("::Some") and strip_old(v[3][0]) == ("param", 2) and not cfg.returns_reachable_avoiding({st[0][0]})
        ctx.chk.ob("D5", "building a keepalive always stamps last_keepalive_sent := Some(now)", ok, "", key="D5:send-stamps-cadence-clock")
    hk = ctx.fn(HKC, "D5")
    if not hk:
        return
    fa = ctx.fa(hk)
    cfg = ctx.cfg(hk)
    up = [i for i in [upvar_index(hk, "connections")] if i is not None]
    CONNS = ("upvar", up[0]) if up else None
    tests = calls_to(hk, stable=CONN + "::needs_keepalive")
    if len(tests) != 1 or CONNS is None:
        ctx.chk.missing("D5", "handle_housekeeping: the needs_keepalive test", "%d" % len(tests))
        return
    tb, tt = tests[0]
    link = strip_old(fa.val_operand(tt["args"][0], (tb, len(hk.blocks[tb]["stmts"]))))
    now = strip_old(fa.val_operand(tt["args"][1], (tb, len(hk.blocks[tb]["stmts"]))))
    ok = full_slice_element(link, CONNS) is not None
    lp = loop_of_element(hk, fa, link) if ok else None
    ctx.chk.ob("D5", "the keepalive test is made on the element of a loop over the whole connection slice", ok and lp is not None, show(link, hk.names)[:100], key="D5:loop-over-all-links")
    if not lp:
        return
    ctx.chk.ob("D5", "the housekeeping loop has no early exit (an error on one link cannot end the pass)", not lp["exits"], "exits %s" % lp["exits"][:3], key="D5:no-early-exit")
    # no return before the loop
    pre = [r for r in cfg.returns if not cfg.dominates(lp["none"], r)]
    ctx.chk.ob("D5", "no return precedes the loop (every pass reaches it)", not pre and cfg.dominates(lp["head"], lp["none"]) and not cfg.returns_reachable_avoiding({lp["head"]}),
               "returns not after the loop: %s" % pre, key="D5:loop-always-reached")
    pa = PathA(ctx.w, hk, entry=lp["some"])
    b = pa.bdd
    TO = pa.find(lambda a: is_call(a, stable=CONN + "::is_timed_out") and a[2][0] == link)
    pc = pa.pc_block(tb)
    ok = len(TO) == 1 and pa.equivalent(pc, b.NOT(TO[0][1]))
    ctx.chk.ob("D5", "within one visit the keepalive test is skipped only for a timed-out link", ok, "per link: %s" % pa.show(pc)[:200], key="D5:test-skipped-only-when-timed-out")
    # build + send under needs_keepalive
    NK = pa.find(lambda a: is_call(a, stable=CONN + "::needs_keepalive") and a[2][0] == link)
    builds = [(bb, t) for (bb, t) in calls_to(hk, stable=KA)]
    sends = []
    for (bb, t) in hk.calls():
        if t["f"].get("path", "").endswith("BatchUdpSocket::send"):
            pay = fa.val_operand(t["args"][1], (bb, len(hk.blocks[bb]["stmts"])))
            if any(is_call(x, stable=KA) for x in walk(pay)):
                sends.append((bb, t, pay))
    # every send of a keepalive hands the socket the whole 38-byte array the builder returned (a prefix - say the 10-byte standard
    # header - carries no telemetry and is not an extended keepalive)
    for (sb_, st_, pay_) in sends:
        v_ = strip_old(pay_)
        while isinstance(v_, tuple) and v_ and (v_[0] in ("old", "deref") or (v_[0] == "cast" and not str(v_[1]).startswith(("u", "i", "f")))):
            v_ = v_[1] if v_[0] != "cast" else v_[2]
        ctx.chk.ob("D2", "a keepalive goes out as the whole frame keepalive_packet returned (no slicing)", is_call(v_, stable=KA),
                   "sent %s" % show(pay_, hk.names)[:160], key="D2:whole-frame-sent", loc=st_.get("loc"))
    ctx.chk.floor("D2", "keepalive send sites in housekeeping", len(sends), 2)
    ok = len(NK) == 1 and len(builds) >= 1
    first_build = None
    if ok:
        nkf = NK[0][1]
        cand = [(bb, t) for (bb, t) in builds if pa.equivalent(pa.pc_block(bb), b.AND(b.NOT(TO[0][1]), nkf))] if len(TO) == 1 else []
        ok = len(cand) == 1
        first_build = cand[0] if cand else None
    ctx.chk.ob("D5", "a keepalive is built for a visited link exactly when needs_keepalive holds", ok, "%d build sites" % len(builds), key="D5:build-iff-needed")
    if first_build:
        bb0, t0 = first_build
        a = [strip_old(fa.val_operand(x, (bb0, len(hk.blocks[bb0]["stmts"])))) for x in t0["args"]]
        ctx.chk.ob("D5", "the keepalive is built for this link with the pass's clock (the one the test used)", a[0] == link and a[1] == now, "", key="D5:build-args")
        mine = [(bb, t, pay) for (bb, t, pay) in sends if any(is_call(x, stable=KA) and x[3] == (bb0,) for x in walk(pay))]
        ok = len(mine) == 1
        extra = []
        if ok:
            sb, stt, pay = mine[0]
            sock = fa.val_operand(stt["args"][0], (sb, len(hk.blocks[sb]["stmts"])))
            ok = C07._sock_link(sock) == link
            pcs = pa.pc_block(sb)
            # (building the frame writes the link, which retires the tests that guarded the build: tie the send to the build by dominance)
            extra = [x for x in pa.atoms_of(pcs) if x not in pa.atoms_of(pa.pc_block(bb0))]
            ok = ok and all(x[0] == "is" and is_call(x[1], name_contains="HashMap") and C07._sock_link(x[1]) == link for x in extra) and cfg.dominates(bb0, sb)
        ctx.chk.ob("D5", "the built keepalive is sent on this link's own socket, skipped only if the link has no I/O handle", ok, "%d send sites of this frame; extra conditions %s" % (len(mine), [show(x, hk.names)[:200] for x in (extra if mine else [])]), key="D5:sent-on-own-socket")
    # the timer arm
    run = [g for g in ctx.w.fns.values() if g.stable.startswith("srtla_send::sender::run_sender_with_config") and g.kind == "coroutine" and calls_to(g, stable=C08.HK)]
    ok = len(run) == 1
    if ok:
        g = run[0]
        gc = ctx.cfg(g)
        sites = calls_to(g, stable=C08.HK)
        ticks = [(bb, t) for (bb, t) in g.calls() if "Interval" in t["f"].get("path", "") and t["f"].get("path", "").endswith("::tick")]
        ok = any(gc.in_cycle(bb) for (bb, t) in sites) and len(ticks) >= 1
    ctx.chk.ob("D5", "handle_housekeeping is called from the event loop's timer arm", ok, "", key="D5:timer-arm-calls-housekeeping")
    ctx.WHO_CALLS("D5", C08.HK, {g.stable for g in run}, floor=1)


RULES = [d1_frame, d2_telemetry, d3_sample_filter, d4_rtt_consumers, d5_cadence]


def run(ctx):
    ctx.chk.not_decided = ["the timed bound itself ('never exceeds two housekeeping periods'): tokio's interval behaviour under load is outside the source; D5 decides the per-pass skeleton it rests on",
                           "finiteness of the Kalman state (numerical argument over the filter recursion); D4 decides sign and NaN-freedom of what consumers see",
                           "whether an echo answers the outstanding probe or an earlier keepalive (the property, like the code, only asks for 'received while a probe is outstanding')"]
    ctx.run_rules(RULES)
