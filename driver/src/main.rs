// mirfacts: fact extractor for the /verif static analyser.
//
// Runs as RUSTC_WORKSPACE_WRAPPER (argv[1] is the real rustc path and is
// dropped).  For every workspace crate unit it serialises the type-checked
// program - ADTs, evaluated constants, and the pre-borrowck MIR
// (`mir_promoted`) of every body with resolved callees - to one JSON file in
// $MIRFACTS_OUT.  No analysis happens here; see /verif/sa.
#![feature(rustc_private)]
#![allow(clippy::all)]

extern crate rustc_abi;
extern crate rustc_data_structures;
extern crate rustc_driver;
extern crate rustc_hir;
extern crate rustc_index;
extern crate rustc_interface;
extern crate rustc_middle;
extern crate rustc_session;
extern crate rustc_span;

use rustc_driver::{Callbacks, Compilation};
use rustc_hir::def::DefKind;
use rustc_hir::def_id::{DefId, LocalDefId, LOCAL_CRATE};
use rustc_middle::mir::{self, *};
use rustc_middle::ty::print::with_no_trimmed_paths;
use rustc_middle::ty::{self, Instance, Ty, TyCtxt, TypingEnv};
use rustc_span::{ExpnKind, Span};
use std::fmt::Write as _;

// ---------------------------------------------------------------- JSON helpers

fn esc(s: &str, out: &mut String) {
    out.push('"');
    for c in s.chars() {
        match c {
            '"' => out.push_str("\\\""),
            '\\' => out.push_str("\\\\"),
            '\n' => out.push_str("\\n"),
            '\r' => out.push_str("\\r"),
            '\t' => out.push_str("\\t"),
            c if (c as u32) < 0x20 => {
                let _ = write!(out, "\\u{:04x}", c as u32);
            }
            c => out.push(c),
        }
    }
    out.push('"');
}

fn js(s: &str) -> String {
    let mut o = String::with_capacity(s.len() + 2);
    esc(s, &mut o);
    o
}

fn opt_js(s: Option<String>) -> String {
    match s {
        Some(s) => js(&s),
        None => "null".to_string(),
    }
}

// ---------------------------------------------------------------- identities

fn crate_name(tcx: TyCtxt<'_>, did: DefId) -> String {
    tcx.crate_name(did.krate).to_string()
}

/// `crate::DefPath` - stable across crates and independent of re-exports.
fn def_id_str(tcx: TyCtxt<'_>, did: DefId) -> String {
    format!("{}{}", crate_name(tcx, did), tcx.def_path(did).to_string_no_crate_verbose())
}

fn ty_str<'tcx>(ty: Ty<'tcx>) -> String {
    with_no_trimmed_paths!(format!("{}", ty))
}

/// Stable, human-oriented name: `crate::module::<SelfTy>::method`, closures as
/// `<parent stable>::{closure#n}`.  Independent of the positional `{impl#N}`.
fn stable_name(tcx: TyCtxt<'_>, did: DefId) -> String {
    let kind = tcx.def_kind(did);
    match kind {
        DefKind::Closure | DefKind::InlineConst | DefKind::AnonConst | DefKind::SyntheticCoroutineBody => {
            let parent = tcx.parent(did);
            let key = tcx.def_key(did);
            return format!(
                "{}::{{{}#{}}}",
                stable_name(tcx, parent),
                match kind {
                    DefKind::Closure => "closure",
                    DefKind::InlineConst => "inline_const",
                    DefKind::AnonConst => "anon_const",
                    _ => "synthetic",
                },
                key.disambiguated_data.disambiguator
            );
        }
        _ => {}
    }
    if let Some(parent) = tcx.opt_parent(did) {
        if let DefKind::Impl { .. } = tcx.def_kind(parent) {
            let self_ty = tcx.type_of(parent).instantiate_identity().skip_norm_wip();
            let self_s = match self_ty.kind() {
                ty::Adt(adt, _) => def_id_str(tcx, adt.did()),
                _ => ty_str(self_ty),
            };
            let name = tcx.item_name(did);
            if let Some(tr) = tcx.impl_opt_trait_ref(parent) {
                let tr = tr.instantiate_identity().skip_norm_wip();
                return format!("<{} as {}>::{}", self_s, def_id_str(tcx, tr.def_id), name);
            }
            return format!("{}::{}", self_s, name);
        }
    }
    def_id_str(tcx, did)
}

// ---------------------------------------------------------------- spans

struct Loc {
    file: String,
    line: usize,
    mac: Option<String>, // outermost macro whose expansion produced this span: "crate::name"
}

fn loc_of(tcx: TyCtxt<'_>, span: Span) -> Loc {
    let mut mac = None;
    let mut sp = span;
    let mut guard = 0;
    while sp.from_expansion() && guard < 64 {
        let ed = sp.ctxt().outer_expn_data();
        if let ExpnKind::Macro(_, name) = ed.kind {
            let krate = match ed.macro_def_id {
                Some(d) => tcx.crate_name(d.krate).to_string(),
                None => "?".to_string(),
            };
            mac = Some(format!("{}::{}", krate, name));
        }
        sp = ed.call_site;
        guard += 1;
    }
    let sm = tcx.sess.source_map();
    let p = sm.lookup_char_pos(sp.lo());
    let file = match &p.file.name {
        rustc_span::FileName::Real(r) => match r.local_path() {
            Some(p) => p.to_string_lossy().to_string(),
            None => format!("{:?}", p.file.name),
        },
        other => format!("{:?}", other),
    };
    Loc { file, line: p.line, mac }
}

fn loc_json(tcx: TyCtxt<'_>, span: Span, out: &mut String) {
    let l = loc_of(tcx, span);
    let _ = write!(out, "\"loc\":{}", js(&format!("{}:{}", l.file, l.line)));
    if let Some(m) = l.mac {
        let _ = write!(out, ",\"mac\":{}", js(&m));
    }
}

// ---------------------------------------------------------------- body serialiser

struct Cx<'a, 'tcx> {
    tcx: TyCtxt<'tcx>,
    body: &'a Body<'tcx>,
    env: TypingEnv<'tcx>,
}

impl<'a, 'tcx> Cx<'a, 'tcx> {
    fn place(&self, p: &Place<'tcx>, out: &mut String) {
        let _ = write!(out, "{{\"l\":{},\"proj\":[", p.local.as_usize());
        let mut pty = mir::PlaceTy::from_ty(self.body.local_decls[p.local].ty);
        let mut first = true;
        for elem in p.projection.iter() {
            if !first {
                out.push(',');
            }
            first = false;
            match elem {
                ProjectionElem::Deref => out.push_str("{\"k\":\"deref\"}"),
                ProjectionElem::Field(idx, _) => {
                    let mut name = format!("{}", idx.as_usize());
                    let mut adt_s = "null".to_string();
                    let mut var_s = "null".to_string();
                    match pty.ty.kind() {
                        ty::Adt(adt, _) => {
                            let vidx = pty.variant_index.unwrap_or(rustc_abi::FIRST_VARIANT);
                            if adt.is_enum() || adt.is_struct() || adt.is_union() {
                                let v = adt.variant(vidx);
                                if idx.as_usize() < v.fields.len() {
                                    name = v.fields[idx].name.to_string();
                                }
                                if adt.is_enum() {
                                    var_s = js(&v.name.to_string());
                                }
                            }
                            adt_s = js(&def_id_str(self.tcx, adt.did()));
                        }
                        ty::Closure(did, _) | ty::Coroutine(did, _) | ty::CoroutineClosure(did, _) => {
                            adt_s = js(&format!("closure:{}", def_id_str(self.tcx, *did)));
                        }
                        ty::Tuple(_) => {
                            adt_s = "\"tuple\"".to_string();
                        }
                        _ => {}
                    }
                    let _ = write!(
                        out,
                        "{{\"k\":\"field\",\"i\":{},\"n\":{},\"adt\":{},\"v\":{}}}",
                        idx.as_usize(),
                        js(&name),
                        adt_s,
                        var_s
                    );
                }
                ProjectionElem::Index(l) => {
                    let _ = write!(out, "{{\"k\":\"index\",\"l\":{}}}", l.as_usize());
                }
                ProjectionElem::ConstantIndex { offset, min_length, from_end } => {
                    let _ = write!(
                        out,
                        "{{\"k\":\"cindex\",\"off\":{},\"min\":{},\"end\":{}}}",
                        offset, min_length, from_end
                    );
                }
                ProjectionElem::Subslice { from, to, from_end } => {
                    let _ = write!(
                        out,
                        "{{\"k\":\"subslice\",\"from\":{},\"to\":{},\"end\":{}}}",
                        from, to, from_end
                    );
                }
                ProjectionElem::Downcast(name, v) => {
                    let _ = write!(
                        out,
                        "{{\"k\":\"downcast\",\"v\":{},\"n\":{}}}",
                        v.as_usize(),
                        opt_js(name.map(|s| s.to_string()))
                    );
                }
                ProjectionElem::OpaqueCast(_) => out.push_str("{\"k\":\"opaquecast\"}"),
                ProjectionElem::UnwrapUnsafeBinder(_) => out.push_str("{\"k\":\"unwrapbinder\"}"),
            }
            pty = pty.projection_ty(self.tcx, elem);
        }
        out.push_str("]}");
    }

    fn callee(&self, did: DefId, args: ty::GenericArgsRef<'tcx>, out: &mut String) {
        let tcx = self.tcx;
        let mut resolved = did;
        let mut virt = false;
        let mut kind = "item";
        // Only try to resolve when args are fully known enough; failures fall back to decl.
        if let Ok(Some(inst)) = Instance::try_resolve(tcx, self.env, did, args) {
            resolved = inst.def_id();
            match inst.def {
                ty::InstanceKind::Virtual(..) => {
                    virt = true;
                    kind = "virtual";
                }
                ty::InstanceKind::Intrinsic(..) => kind = "intrinsic",
                ty::InstanceKind::ClosureOnceShim { .. } => kind = "closure_once_shim",
                ty::InstanceKind::FnPtrShim(..) => kind = "fnptr_shim",
                ty::InstanceKind::CloneShim(..) => kind = "clone_shim",
                ty::InstanceKind::DropGlue(..) => kind = "drop_glue",
                ty::InstanceKind::Item(..) => {}
                _ => kind = "shim",
            }
        }
        let path = with_no_trimmed_paths!(tcx.def_path_str(resolved));
        let decl_path = with_no_trimmed_paths!(tcx.def_path_str(did));
        let _ = write!(
            out,
            "{{\"id\":{},\"path\":{},\"decl\":{},\"decl_path\":{},\"crate\":{},\"local\":{},\"virtual\":{},\"ik\":{},\"substs\":[",
            js(&def_id_str(tcx, resolved)),
            js(&path),
            js(&def_id_str(tcx, did)),
            js(&decl_path),
            js(&crate_name(tcx, resolved)),
            resolved.is_local(),
            virt,
            js(kind)
        );
        let mut first = true;
        for a in args.iter() {
            if let Some(t) = a.as_type() {
                if !first {
                    out.push(',');
                }
                first = false;
                out.push_str(&js(&ty_str(t)));
            }
        }
        out.push_str("],\"stable\":");
        out.push_str(&js(&stable_name(tcx, resolved)));
        out.push('}');
    }

    fn konst(&self, c: &ConstOperand<'tcx>, out: &mut String) {
        let tcx = self.tcx;
        let ty = c.const_.ty();
        let _ = write!(out, "{{\"k\":\"const\",\"ty\":{}", js(&ty_str(ty)));
        if let ty::FnDef(did, args) = ty.kind() {
            out.push_str(",\"fn\":");
            self.callee(*did, args, out);
            out.push('}');
            return;
        }
        if let Const::Unevaluated(uv, _) = c.const_ {
            let _ = write!(out, ",\"def\":{}", js(&def_id_str(tcx, uv.def)));
            if let Some(p) = uv.promoted {
                let _ = write!(out, ",\"promoted\":{}", p.as_usize());
            }
        }
        scalar_val(tcx, self.env, c.const_, ty, out);
        out.push('}');
    }

    fn operand(&self, o: &Operand<'tcx>, out: &mut String) {
        match o {
            Operand::Copy(p) | Operand::Move(p) => {
                let k = if matches!(o, Operand::Copy(_)) { "copy" } else { "move" };
                let _ = write!(out, "{{\"k\":\"{}\",\"p\":", k);
                self.place(p, out);
                if !p.projection.is_empty() {
                    let pty = p.ty(&self.body.local_decls, self.tcx).ty;
                    let _ = write!(out, ",\"ty\":{}", js(&ty_str(pty)));
                }
                out.push('}');
            }
            Operand::Constant(c) => self.konst(c, out),
            #[allow(unreachable_patterns)]
            other => {
                let _ = write!(out, "{{\"k\":\"rtcheck\",\"txt\":{}}}", js(&format!("{:?}", other)));
            }
        }
    }

    fn rvalue(&self, rv: &Rvalue<'tcx>, out: &mut String) {
        match rv {
            Rvalue::Use(o, ..) => {
                out.push_str("{\"k\":\"use\",\"o\":");
                self.operand(o, out);
                out.push('}');
            }
            Rvalue::CopyForDeref(p) => {
                out.push_str("{\"k\":\"use\",\"o\":{\"k\":\"copy\",\"p\":");
                self.place(p, out);
                out.push_str("}}");
            }
            Rvalue::Ref(_, bk, p) => {
                let m = matches!(bk, BorrowKind::Mut { .. });
                let _ = write!(out, "{{\"k\":\"ref\",\"mut\":{},\"bk\":{},\"p\":", m, js(&format!("{:?}", bk)));
                self.place(p, out);
                out.push('}');
            }
            Rvalue::RawPtr(k, p) => {
                let m = matches!(k, RawPtrKind::Mut);
                let _ = write!(out, "{{\"k\":\"raw\",\"mut\":{},\"p\":", m);
                self.place(p, out);
                out.push('}');
            }
            Rvalue::BinaryOp(op, ab) => {
                let oty = ab.0.ty(&self.body.local_decls, self.tcx);
                let _ = write!(out, "{{\"k\":\"bin\",\"op\":{},\"oty\":{},\"a\":", js(&format!("{:?}", op)), js(&ty_str(oty)));
                self.operand(&ab.0, out);
                out.push_str(",\"b\":");
                self.operand(&ab.1, out);
                out.push('}');
            }
            Rvalue::UnaryOp(op, a) => {
                let oty = a.ty(&self.body.local_decls, self.tcx);
                let _ = write!(out, "{{\"k\":\"un\",\"op\":{},\"oty\":{},\"a\":", js(&format!("{:?}", op)), js(&ty_str(oty)));
                self.operand(a, out);
                out.push('}');
            }
            Rvalue::Cast(ck, a, ty) => {
                let ck_s = format!("{:?}", ck);
                let ck_s = ck_s.split('(').next().unwrap_or("").to_string();
                let sty = a.ty(&self.body.local_decls, self.tcx);
                let _ = write!(
                    out,
                    "{{\"k\":\"cast\",\"ck\":{},\"ckfull\":{},\"ty\":{},\"sty\":{},\"a\":",
                    js(&ck_s),
                    js(&format!("{:?}", ck)),
                    js(&ty_str(*ty)),
                    js(&ty_str(sty))
                );
                self.operand(a, out);
                out.push('}');
            }
            Rvalue::Aggregate(kind, ops) => {
                out.push_str("{\"k\":\"agg\"");
                match &**kind {
                    AggregateKind::Array(t) => {
                        let _ = write!(out, ",\"ak\":\"array\",\"ety\":{}", js(&ty_str(*t)));
                    }
                    AggregateKind::Tuple => out.push_str(",\"ak\":\"tuple\""),
                    AggregateKind::Adt(did, vidx, _, _, active) => {
                        let adt = self.tcx.adt_def(*did);
                        let v = adt.variant(*vidx);
                        let _ = write!(
                            out,
                            ",\"ak\":\"adt\",\"adt\":{},\"v\":{},\"vn\":{},\"fields\":[",
                            js(&def_id_str(self.tcx, *did)),
                            vidx.as_usize(),
                            js(&v.name.to_string())
                        );
                        let mut first = true;
                        if let Some(a) = active {
                            out.push_str(&js(&v.fields[*a].name.to_string()));
                        } else {
                            for f in v.fields.iter() {
                                if !first {
                                    out.push(',');
                                }
                                first = false;
                                out.push_str(&js(&f.name.to_string()));
                            }
                        }
                        out.push(']');
                    }
                    AggregateKind::Closure(did, _) => {
                        let _ = write!(out, ",\"ak\":\"closure\",\"def\":{}", js(&def_id_str(self.tcx, *did)));
                    }
                    AggregateKind::Coroutine(did, _) => {
                        let _ = write!(out, ",\"ak\":\"coroutine\",\"def\":{}", js(&def_id_str(self.tcx, *did)));
                    }
                    AggregateKind::CoroutineClosure(did, _) => {
                        let _ =
                            write!(out, ",\"ak\":\"coroutine_closure\",\"def\":{}", js(&def_id_str(self.tcx, *did)));
                    }
                    AggregateKind::RawPtr(..) => out.push_str(",\"ak\":\"rawptr\""),
                }
                out.push_str(",\"ops\":[");
                let mut first = true;
                for o in ops.iter() {
                    if !first {
                        out.push(',');
                    }
                    first = false;
                    self.operand(o, out);
                }
                out.push_str("]}");
            }
            Rvalue::Discriminant(p) => {
                out.push_str("{\"k\":\"discr\",\"p\":");
                self.place(p, out);
                let pty = p.ty(&self.body.local_decls, self.tcx).ty;
                let _ = write!(out, ",\"pty\":{}", js(&ty_str(pty)));
                if let ty::Adt(adt, _) = pty.kind() {
                    let _ = write!(out, ",\"padt\":{},\"variants\":[", js(&def_id_str(self.tcx, adt.did())));
                    let mut first = true;
                    for (vidx, v) in adt.variants().iter_enumerated() {
                        if !first {
                            out.push(',');
                        }
                        first = false;
                        let d = adt.discriminant_for_variant(self.tcx, vidx).val;
                        let _ = write!(out, "[{},{}]", d, js(&v.name.to_string()));
                    }
                    out.push(']');
                }
                out.push('}');
            }
            Rvalue::Repeat(a, n) => {
                out.push_str("{\"k\":\"repeat\",\"a\":");
                self.operand(a, out);
                let nn = n.try_to_target_usize(self.tcx);
                let _ = write!(out, ",\"n\":{}}}", nn.map(|v| v.to_string()).unwrap_or("null".into()));
            }
            other => {
                let _ = write!(out, "{{\"k\":\"other\",\"txt\":{}}}", js(&format!("{:?}", other)));
            }
        }
    }

    fn stmt(&self, s: &Statement<'tcx>, out: &mut String) -> bool {
        match &s.kind {
            StatementKind::Assign(b) => {
                let (p, rv) = &**b;
                out.push_str("{\"k\":\"assign\",\"p\":");
                self.place(p, out);
                out.push_str(",\"rv\":");
                self.rvalue(rv, out);
                if !p.projection.is_empty() {
                    let pty = p.ty(&self.body.local_decls, self.tcx).ty;
                    let _ = write!(out, ",\"pty\":{}", js(&ty_str(pty)));
                    if let ty::Adt(adt, _) = pty.kind() {
                        let _ = write!(out, ",\"padt\":{}", js(&def_id_str(self.tcx, adt.did())));
                    }
                }
                out.push(',');
                loc_json(self.tcx, s.source_info.span, out);
                out.push('}');
                true
            }
            StatementKind::SetDiscriminant { place, variant_index } => {
                out.push_str("{\"k\":\"setdiscr\",\"p\":");
                self.place(place, out);
                let _ = write!(out, ",\"v\":{},", variant_index.as_usize());
                loc_json(self.tcx, s.source_info.span, out);
                out.push('}');
                true
            }
            StatementKind::StorageLive(l) => {
                let _ = write!(out, "{{\"k\":\"live\",\"l\":{}}}", l.as_usize());
                true
            }
            StatementKind::StorageDead(l) => {
                let _ = write!(out, "{{\"k\":\"dead\",\"l\":{}}}", l.as_usize());
                true
            }
            StatementKind::Intrinsic(i) => {
                let _ = write!(out, "{{\"k\":\"intrinsic\",\"txt\":{}}}", js(&format!("{:?}", i)));
                true
            }
            _ => false,
        }
    }

    fn term(&self, t: &Terminator<'tcx>, out: &mut String) {
        match &t.kind {
            TerminatorKind::Goto { target } => {
                let _ = write!(out, "{{\"k\":\"goto\",\"t\":{}}}", target.as_usize());
            }
            TerminatorKind::FalseEdge { real_target, .. } => {
                let _ = write!(out, "{{\"k\":\"goto\",\"t\":{},\"false\":true}}", real_target.as_usize());
            }
            TerminatorKind::FalseUnwind { real_target, .. } => {
                let _ = write!(out, "{{\"k\":\"goto\",\"t\":{},\"false\":true}}", real_target.as_usize());
            }
            TerminatorKind::SwitchInt { discr, targets } => {
                out.push_str("{\"k\":\"switch\",\"d\":");
                self.operand(discr, out);
                let dty = discr.ty(&self.body.local_decls, self.tcx);
                let _ = write!(out, ",\"ty\":{},\"targets\":[", js(&ty_str(dty)));
                let mut first = true;
                for (v, bb) in targets.iter() {
                    if !first {
                        out.push(',');
                    }
                    first = false;
                    let _ = write!(out, "[{},{}]", v, bb.as_usize());
                }
                let _ = write!(out, "],\"otherwise\":{},", targets.otherwise().as_usize());
                loc_json(self.tcx, t.source_info.span, out);
                out.push('}');
            }
            TerminatorKind::Return => out.push_str("{\"k\":\"return\"}"),
            TerminatorKind::Unreachable => out.push_str("{\"k\":\"unreachable\"}"),
            TerminatorKind::UnwindResume => out.push_str("{\"k\":\"resume\"}"),
            TerminatorKind::UnwindTerminate(_) => out.push_str("{\"k\":\"abort\"}"),
            TerminatorKind::CoroutineDrop => out.push_str("{\"k\":\"coroutine_drop\"}"),
            TerminatorKind::Drop { place, target, .. } => {
                out.push_str("{\"k\":\"drop\",\"p\":");
                self.place(place, out);
                let pty = place.ty(&self.body.local_decls, self.tcx).ty;
                let _ = write!(out, ",\"ty\":{},\"t\":{}}}", js(&ty_str(pty)), target.as_usize());
            }
            TerminatorKind::Call { func, args, destination, target, fn_span, .. } => {
                out.push_str("{\"k\":\"call\",\"f\":");
                match func {
                    Operand::Constant(c) => {
                        if let ty::FnDef(did, ga) = c.const_.ty().kind() {
                            self.callee(*did, ga, out);
                        } else {
                            out.push_str("{\"k\":\"indirect\",\"o\":");
                            self.operand(func, out);
                            out.push('}');
                        }
                    }
                    _ => {
                        out.push_str("{\"k\":\"indirect\",\"o\":");
                        self.operand(func, out);
                        let fty = func.ty(&self.body.local_decls, self.tcx);
                        let _ = write!(out, ",\"ty\":{}}}", js(&ty_str(fty)));
                    }
                }
                out.push_str(",\"args\":[");
                let mut first = true;
                for a in args.iter() {
                    if !first {
                        out.push(',');
                    }
                    first = false;
                    self.operand(&a.node, out);
                }
                out.push_str("],\"atys\":[");
                let mut first = true;
                for a in args.iter() {
                    if !first {
                        out.push(',');
                    }
                    first = false;
                    out.push_str(&js(&ty_str(a.node.ty(&self.body.local_decls, self.tcx))));
                }
                out.push_str("],\"dest\":");
                self.place(destination, out);
                let dty = destination.ty(&self.body.local_decls, self.tcx).ty;
                let _ = write!(out, ",\"dty\":{}", js(&ty_str(dty)));
                let _ = write!(
                    out,
                    ",\"t\":{},",
                    target.map(|t| t.as_usize().to_string()).unwrap_or("null".into())
                );
                loc_json(self.tcx, *fn_span, out);
                out.push('}');
            }
            TerminatorKind::TailCall { .. } => out.push_str("{\"k\":\"tailcall\"}"),
            TerminatorKind::Assert { cond, expected, msg, target, .. } => {
                out.push_str("{\"k\":\"assert\",\"cond\":");
                self.operand(cond, out);
                let _ = write!(out, ",\"expected\":{},", expected);
                match &**msg {
                    AssertKind::BoundsCheck { len, index } => {
                        out.push_str("\"ak\":\"BoundsCheck\",\"len\":");
                        self.operand(len, out);
                        out.push_str(",\"index\":");
                        self.operand(index, out);
                    }
                    AssertKind::Overflow(op, a, b) => {
                        let _ = write!(out, "\"ak\":\"Overflow\",\"op\":{},\"a\":", js(&format!("{:?}", op)));
                        self.operand(a, out);
                        out.push_str(",\"b\":");
                        self.operand(b, out);
                    }
                    AssertKind::OverflowNeg(a) => {
                        out.push_str("\"ak\":\"OverflowNeg\",\"a\":");
                        self.operand(a, out);
                    }
                    AssertKind::DivisionByZero(a) => {
                        out.push_str("\"ak\":\"DivisionByZero\",\"a\":");
                        self.operand(a, out);
                    }
                    AssertKind::RemainderByZero(a) => {
                        out.push_str("\"ak\":\"RemainderByZero\",\"a\":");
                        self.operand(a, out);
                    }
                    other => {
                        let s = format!("{:?}", other);
                        let s = s.split(|c| c == '(' || c == ' ' || c == '{').next().unwrap_or("").to_string();
                        let _ = write!(out, "\"ak\":{}", js(&s));
                    }
                }
                let _ = write!(out, ",\"t\":{},", target.as_usize());
                loc_json(self.tcx, t.source_info.span, out);
                out.push('}');
            }
            TerminatorKind::Yield { value, resume, resume_arg, .. } => {
                out.push_str("{\"k\":\"yield\",\"v\":");
                self.operand(value, out);
                let _ = write!(out, ",\"resume\":{},\"dest\":", resume.as_usize());
                self.place(resume_arg, out);
                out.push('}');
            }
            TerminatorKind::InlineAsm { .. } => out.push_str("{\"k\":\"asm\"}"),
        }
    }
}

fn scalar_val<'tcx>(tcx: TyCtxt<'tcx>, env: TypingEnv<'tcx>, c: Const<'tcx>, ty: Ty<'tcx>, out: &mut String) {
    match ty.kind() {
        ty::Bool | ty::Int(_) | ty::Uint(_) | ty::Float(_) | ty::Char => {
            if let Some(si) = c.try_eval_scalar_int(tcx, env) {
                scalar_int_json(si, ty, out);
            }
        }
        ty::Ref(_, inner, _) if inner.is_str() => {
            let cv = match c {
                Const::Val(cv, _) => Some(cv),
                _ => c.eval(tcx, env, rustc_span::DUMMY_SP).ok(),
            };
            if let Some(cv @ ConstValue::Slice { .. }) = cv {
                if let Some(bytes) = cv.try_get_slice_bytes_for_diagnostics(tcx) {
                    if let Ok(s) = std::str::from_utf8(bytes) {
                        let _ = write!(out, ",\"str\":{}", js(s));
                    }
                }
            }
        }
        ty::Ref(_, inner, _) if matches!(inner.kind(), ty::Array(e, _) if *e == tcx.types.u8) => {
            // `&[u8; N]` literals (format_args! templates, byte strings): dump the bytes as hex
            let cv = match c {
                Const::Val(cv, _) => Some(cv),
                _ => c.eval(tcx, env, rustc_span::DUMMY_SP).ok(),
            };
            let n = match inner.kind() {
                ty::Array(_, len) => len.try_to_target_usize(tcx),
                _ => None,
            };
            if let (Some(ConstValue::Scalar(mir::interpret::Scalar::Ptr(ptr, _))), Some(n)) = (cv, n) {
                let (prov, off) = ptr.prov_and_relative_offset();
                if let mir::interpret::GlobalAlloc::Memory(alloc) = tcx.global_alloc(prov.alloc_id()) {
                    let a = alloc.inner();
                    let start = off.bytes_usize();
                    let end = start + n as usize;
                    if end <= a.len() && n <= 4096 {
                        let bytes = a.inspect_with_uninit_and_ptr_outside_interpreter(start..end);
                        let mut hex = String::with_capacity(bytes.len() * 2);
                        for b in bytes {
                            let _ = write!(hex, "{:02x}", b);
                        }
                        let _ = write!(out, ",\"bytes\":\"{}\"", hex);
                    }
                }
            }
        }
        _ => {}
    }
}

fn scalar_int_json<'tcx>(si: ty::ScalarInt, ty: Ty<'tcx>, out: &mut String) {
    let size = si.size();
    let bits: u128 = si.to_bits(size);
    match ty.kind() {
        ty::Bool => {
            let _ = write!(out, ",\"val\":{}", if bits != 0 { "true" } else { "false" });
        }
        ty::Int(_) => {
            let nbits = size.bits() as u32;
            let v: i128 = if nbits == 128 {
                bits as i128
            } else {
                let shift = 128 - nbits;
                ((bits << shift) as i128) >> shift
            };
            let _ = write!(out, ",\"val\":{}", v);
        }
        ty::Uint(_) | ty::Char => {
            let _ = write!(out, ",\"val\":{}", bits);
        }
        ty::Float(_) => {
            let nbits = size.bits();
            let f = if nbits == 64 {
                f64::from_bits(bits as u64)
            } else if nbits == 32 {
                f32::from_bits(bits as u32) as f64
            } else {
                f64::NAN
            };
            let _ = write!(out, ",\"fbits\":{},\"fw\":{},\"fval\":{}", bits, nbits, js(&format!("{:?}", f)));
        }
        _ => {}
    }
}

// ---------------------------------------------------------------- unsafe detection (HIR)

struct UnsafeFinder {
    found: bool,
}
impl<'v> rustc_hir::intravisit::Visitor<'v> for UnsafeFinder {
    fn visit_block(&mut self, b: &'v rustc_hir::Block<'v>) {
        if let rustc_hir::BlockCheckMode::UnsafeBlock(rustc_hir::UnsafeSource::UserProvided) = b.rules {
            // `format_args!` and friends expand to unsafe blocks; only user-written ones count
            if !b.span.from_expansion() {
                self.found = true;
            }
        }
        rustc_hir::intravisit::walk_block(self, b);
    }
}

// ---------------------------------------------------------------- per-crate dump

fn dump_crate(tcx: TyCtxt<'_>, out_dir: &str) {
    let cname = tcx.crate_name(LOCAL_CRATE).to_string();
    let ctypes = tcx.crate_types();
    let unit = if ctypes.iter().any(|t| matches!(t, rustc_session::config::CrateType::Executable)) {
        "bin"
    } else {
        "lib"
    };
    let is_test = tcx.sess.opts.test;
    let mut out = String::with_capacity(8 << 20);
    let _ = write!(
        out,
        "{{\"crate\":{},\"unit\":{},\"test\":{},\"config\":{},\"src_hash\":{},\"debug_assertions\":{},\"overflow_checks\":{},\"rustc_args\":[",
        js(&cname),
        js(unit),
        is_test,
        js(&std::env::var("MIRFACTS_CONFIG").unwrap_or_default()),
        js(&std::env::var("MIRFACTS_SRC_HASH").unwrap_or_default()),
        tcx.sess.opts.debug_assertions,
        tcx.sess.overflow_checks()
    );
    let mut first = true;
    for a in std::env::args().skip(2) {
        if !first {
            out.push(',');
        }
        first = false;
        out.push_str(&js(&a));
    }
    out.push_str("],\n");

    // Pass 1: clone every body before anything can steal it.
    let owners: Vec<LocalDefId> = tcx.hir_body_owners().collect();
    let mut bodies: Vec<(LocalDefId, Body<'_>)> = Vec::new();
    let mut promoteds: Vec<Vec<Body<'_>>> = Vec::new();
    let mut stolen = 0usize;
    for ldid in owners.iter().copied() {
        let kind = tcx.def_kind(ldid);
        match kind {
            DefKind::Fn | DefKind::AssocFn | DefKind::Closure | DefKind::SyntheticCoroutineBody => {}
            _ => continue, // consts/statics: evaluated below, body not needed
        }
        let (steal, psteal) = tcx.mir_promoted(ldid);
        if steal.is_stolen() {
            stolen += 1;
            continue;
        }
        let b = steal.borrow().clone();
        bodies.push((ldid, b));
        let ps: Vec<Body<'_>> = if psteal.is_stolen() { Vec::new() } else { psteal.borrow().iter().cloned().collect() };
        promoteds.push(ps);
    }

    // ADTs
    out.push_str("\"adts\":[\n");
    let mut first = true;
    for ldid in tcx.hir_crate_items(()).definitions() {
        let did = ldid.to_def_id();
        match tcx.def_kind(did) {
            DefKind::Struct | DefKind::Enum | DefKind::Union => {}
            _ => continue,
        }
        let adt = tcx.adt_def(did);
        if !first {
            out.push_str(",\n");
        }
        first = false;
        let kind = if adt.is_enum() {
            "enum"
        } else if adt.is_union() {
            "union"
        } else {
            "struct"
        };
        let _ = write!(out, "{{\"id\":{},\"kind\":{},\"variants\":[", js(&def_id_str(tcx, did)), js(kind));
        let mut vf = true;
        for (vidx, v) in adt.variants().iter_enumerated() {
            if !vf {
                out.push(',');
            }
            vf = false;
            let discr = if adt.is_enum() {
                format!("{}", adt.discriminant_for_variant(tcx, vidx).val)
            } else {
                "0".to_string()
            };
            let _ = write!(out, "{{\"name\":{},\"discr\":{},\"fields\":[", js(&v.name.to_string()), discr);
            let mut ff = true;
            for f in v.fields.iter() {
                if !ff {
                    out.push(',');
                }
                ff = false;
                let fty = tcx.type_of(f.did).instantiate_identity().skip_norm_wip();
                let vis = match f.vis {
                    ty::Visibility::Public => "pub".to_string(),
                    ty::Visibility::Restricted(d) => format!("restricted:{}", def_id_str(tcx, d)),
                };
                let _ = write!(
                    out,
                    "{{\"name\":{},\"ty\":{},\"vis\":{}}}",
                    js(&f.name.to_string()),
                    js(&ty_str(fty)),
                    js(&vis)
                );
            }
            out.push_str("]}");
        }
        out.push_str("]}");
    }
    out.push_str("\n],\n");

    // Bodies
    out.push_str("\"fns\":[\n");
    let mut first = true;
    for (bidx, (ldid, body)) in bodies.iter().enumerate() {
        let did = ldid.to_def_id();
        let kind = tcx.def_kind(did);
        if !first {
            out.push_str(",\n");
        }
        first = false;
        let env = TypingEnv::post_analysis(tcx, did);
        let cx = Cx { tcx, body, env };
        let is_coroutine = body.coroutine.is_some();
        let kind_s = match kind {
            DefKind::Fn => "fn",
            DefKind::AssocFn => "method",
            DefKind::Closure => {
                if is_coroutine {
                    "coroutine"
                } else {
                    "closure"
                }
            }
            _ => "other",
        };
        let parent = match kind {
            DefKind::Closure | DefKind::SyntheticCoroutineBody => Some(def_id_str(tcx, tcx.parent(did))),
            _ => None,
        };
        // unsafe?
        let mut uf = UnsafeFinder { found: false };
        {
            let hbody = tcx.hir_body_owned_by(*ldid);
            rustc_hir::intravisit::Visitor::visit_body(&mut uf, hbody);
        }
        let mut unsafe_fn = false;
        if matches!(kind, DefKind::Fn | DefKind::AssocFn) {
            let sig = tcx.fn_sig(did).instantiate_identity().skip_norm_wip();
            unsafe_fn = sig.safety().is_unsafe();
        }
        let vis = if matches!(kind, DefKind::Fn | DefKind::AssocFn) {
            match tcx.visibility(did) {
                ty::Visibility::Public => "pub".to_string(),
                ty::Visibility::Restricted(d) => format!("restricted:{}", def_id_str(tcx, d)),
            }
        } else {
            "n/a".to_string()
        };
        let _ = write!(
            out,
            "{{\"id\":{},\"stable\":{},\"pretty\":{},\"kind\":{},\"parent\":{},\"vis\":{},\"unsafe_block\":{},\"unsafe_fn\":{},\"argc\":{},",
            js(&def_id_str(tcx, did)),
            js(&stable_name(tcx, did)),
            js(&with_no_trimmed_paths!(tcx.def_path_str(did))),
            js(kind_s),
            opt_js(parent),
            js(&vis),
            uf.found,
            unsafe_fn,
            body.arg_count
        );
        loc_json(tcx, body.span, &mut out);
        // attrs: cfg(test)/#[test] bodies are absent in non-test builds anyway.
        out.push_str(",\"locals\":[");
        let mut lf = true;
        for (_l, decl) in body.local_decls.iter_enumerated() {
            if !lf {
                out.push(',');
            }
            lf = false;
            let _ = write!(
                out,
                "{{\"ty\":{},\"mut\":{}}}",
                js(&ty_str(decl.ty)),
                matches!(decl.mutability, Mutability::Mut)
            );
        }
        out.push_str("],\"debug\":[");
        let mut df = true;
        for vdi in body.var_debug_info.iter() {
            if let VarDebugInfoContents::Place(p) = &vdi.value {
                if !df {
                    out.push(',');
                }
                df = false;
                let _ = write!(out, "{{\"name\":{},\"arg\":{},\"p\":", js(&vdi.name.to_string()),
                    vdi.argument_index.map(|i| i.to_string()).unwrap_or("null".into()));
                cx.place(p, &mut out);
                out.push('}');
            }
        }
        out.push_str("],\"blocks\":[\n");
        let mut bf = true;
        for (_bb, data) in body.basic_blocks.iter_enumerated() {
            if !bf {
                out.push_str(",\n");
            }
            bf = false;
            let _ = write!(out, "{{\"cleanup\":{},\"stmts\":[", data.is_cleanup);
            let mut sf = true;
            for s in data.statements.iter() {
                let mut tmp = String::new();
                if cx.stmt(s, &mut tmp) {
                    if !sf {
                        out.push(',');
                    }
                    sf = false;
                    out.push_str(&tmp);
                }
            }
            out.push_str("],\"term\":");
            cx.term(data.terminator(), &mut out);
            out.push('}');
        }
        out.push_str("\n]");
        // promoted constants (`&CONST`, `&Enum::Variant`, ...): small straight-line bodies
        out.push_str(",\"promoted\":[");
        let mut pf = true;
        for pb in promoteds[bidx].iter() {
            if !pf {
                out.push(',');
            }
            pf = false;
            let pcx = Cx { tcx, body: pb, env };
            out.push_str("{\"locals\":[");
            let mut lf = true;
            for (_l, decl) in pb.local_decls.iter_enumerated() {
                if !lf {
                    out.push(',');
                }
                lf = false;
                let _ = write!(out, "{{\"ty\":{},\"mut\":false}}", js(&ty_str(decl.ty)));
            }
            out.push_str("],\"blocks\":[");
            let mut bf = true;
            for (_bb, data) in pb.basic_blocks.iter_enumerated() {
                if !bf {
                    out.push(',');
                }
                bf = false;
                let _ = write!(out, "{{\"cleanup\":{},\"stmts\":[", data.is_cleanup);
                let mut sf = true;
                for st in data.statements.iter() {
                    let mut tmp = String::new();
                    if pcx.stmt(st, &mut tmp) {
                        if !sf {
                            out.push(',');
                        }
                        sf = false;
                        out.push_str(&tmp);
                    }
                }
                out.push_str("],\"term\":");
                pcx.term(data.terminator(), &mut out);
                out.push('}');
            }
            out.push_str("]}");
        }
        out.push(']');
        if is_coroutine {
            out.push_str(",\"witnesses\":[");
            if let Some(layout) = tcx.mir_coroutine_witnesses(did) {
                let mut wf = true;
                for f in layout.field_tys.iter() {
                    if !wf {
                        out.push(',');
                    }
                    wf = false;
                    let _ = write!(
                        out,
                        "{{\"ty\":{},\"ignore_for_traits\":{},",
                        js(&ty_str(f.ty)),
                        f.ignore_for_traits
                    );
                    loc_json(tcx, f.source_info.span, &mut out);
                    out.push('}');
                }
            }
            out.push(']');
        }
        out.push('}');
    }
    out.push_str("\n],\n");

    // Constants and statics of scalar type, evaluated (after bodies were cloned).
    out.push_str("\"consts\":[\n");
    let mut first = true;
    for ldid in tcx.hir_crate_items(()).definitions() {
        let did = ldid.to_def_id();
        match tcx.def_kind(did) {
            DefKind::Const { .. } | DefKind::AssocConst { .. } => {}
            _ => continue,
        }
        if tcx.generics_of(did).requires_monomorphization(tcx) {
            continue;
        }
        let ty = tcx.type_of(did).instantiate_identity().skip_norm_wip();
        match ty.kind() {
            ty::Bool | ty::Int(_) | ty::Uint(_) | ty::Float(_) | ty::Char => {}
            _ => continue,
        }
        let Ok(cv) = tcx.const_eval_poly(did) else { continue };
        let Some(si) = cv.try_to_scalar_int() else { continue };
        if !first {
            out.push_str(",\n");
        }
        first = false;
        let _ = write!(out, "{{\"id\":{},\"ty\":{}", js(&def_id_str(tcx, did)), js(&ty_str(ty)));
        scalar_int_json(si, ty, &mut out);
        out.push('}');
    }
    let _ = write!(out, "\n],\n\"stolen\":{},\"bodies\":{}}}\n", stolen, bodies.len());

    let suffix = if is_test { "-test" } else { "" };
    let fname = format!("{}/{}-{}{}.json", out_dir, cname, unit, suffix);
    let tmp = format!("{}.tmp.{}", fname, std::process::id());
    std::fs::write(&tmp, out.as_bytes()).expect("mirfacts: cannot write fact file");
    std::fs::rename(&tmp, &fname).expect("mirfacts: cannot rename fact file");
}

struct Cb {
    out_dir: Option<String>,
}

impl Callbacks for Cb {
    fn after_expansion<'tcx>(&mut self, _c: &rustc_interface::interface::Compiler, tcx: TyCtxt<'tcx>) -> Compilation {
        if let Some(dir) = &self.out_dir {
            let cname = tcx.crate_name(LOCAL_CRATE).to_string();
            if !cname.starts_with("build_script") {
                dump_crate(tcx, dir);
            }
        }
        Compilation::Continue
    }
}

fn main() {
    let mut args: Vec<String> = std::env::args().collect();
    // RUSTC_WORKSPACE_WRAPPER convention: argv[1] is the path of the real rustc.
    if args.len() > 1 && (args[1].ends_with("rustc") || args[1].contains("/rustc")) {
        args.remove(1);
    }
    let out_dir = std::env::var("MIRFACTS_OUT").ok();
    let mut cb = Cb { out_dir };
    rustc_driver::run_compiler(&args, &mut cb);
}
