use srtla_core::config_snapshot::ConfigSnapshot;
use srtla_core::selection::select_connection_idx;
use srtla_core::test_helpers::create_test_connections;
use srtla_core::utils::now_ms;

// F7: the configured liveness timeout reaches a link only through a selection pass.
// Before the first routed datagram (encoder not started yet, or paused) housekeeping's
// is_timed_out() still uses the built-in 5 s, so a link is torn down earlier than configured.
#[tokio::test]
async fn f7_timeout_copy_is_stale_without_selection() {
    let now = now_ms();
    let cfg = ConfigSnapshot { conn_timeout_ms: 30_000, ..ConfigSnapshot::default() };
    let mut conns = create_test_connections(1).await;
    conns[0].last_received = Some(now - 6_000); // silent for 6 s, configured timeout is 30 s
    println!("F7 configured={} ms, silent 6000 ms, no selection pass yet: is_timed_out={}", cfg.conn_timeout_ms, conns[0].is_timed_out(now));
    let _ = select_connection_idx(&mut conns, None, now, &cfg);
    println!("F7 after one selection pass                              : is_timed_out={}", conns[0].is_timed_out(now));
}
